"""C09 - application loading returns only when every requested core is loaded.

R1 fill protocol order, one id and forward/retry word per fill
R2 announced block count = blocks sent (ceiling division by the divisor the
   data loop slices with); consecutive numbering; data tiling
R3 fill identifier range and command-word fields
R4 retry loop: bounded, re-sends only what is still missing, error / start
   conditions, per-chip and per-binary scoping of the "still missing" sets
R5 the standard-library API on the loading path exists
"""
import ast

from ..core import AnalysisError, finish, unparse
from ..constfold import Folder, consts_for, EnumMember
from ..bits import provenance
from ..dataflow import Flow, chain, call_name
from ..absint import Interp
from ..link import check_module
from ..poly import Poly, le, lt, eq
from ..terms import Terms, reify, plain, match, V, ANY, show, subterms, \
    mk_cmp, is_none, method_calls, alternatives, stores, one_level
from ..util import calls_in, qual, formals, returns_of, raises_of, \
    raise_name, has_fact, parse_expr
from .C07 import _loop_of, _backedge_preds

MC = "rig.machine_control.machine_controller"
CTRL = MC + ":MachineController"
CONSTS = "rig.machine_control.consts"

EXPLANATION = (
    "R1: inside flood_fill_aplx's per-binary loop every iteration passes "
    "start -> core selects (iterating the sorted region list of that "
    "binary's targets) -> data -> end, with one fill id (a single "
    "_get_next_nn_id() result) and one forward/retry word. R2: the announced "
    "count is proved (Fourier-Motzkin, floor-division axioms for a divisor "
    ">= 1) to be ceil(len / scp_data_length) for the divisor _send_ffd "
    "slices with; in _send_ffd each block is 1..scp_data_length bytes, "
    "block number, data cursor and target address advance by one / the "
    "block's size, and the loop ends at the end of the data. R3: the id "
    "stays in 1..126 and is sent doubled (<= 252, 8 bits); command words "
    "place id, count, block, size, app id and flags at their documented "
    "bits. R4: dominance facts over load_application's retry loop.")
NOT_DECIDED = [
    "that a 'wait' core count equal to the requested count means THESE "
    "cores are loaded (it does not when cores of the same app id already "
    "wait from an earlier load - observed by reading, not a code shape)",
    "reassembly of the binary on the machine",
    "block count < 256 (bounded by instruction memory, not by the code)",
]


def _cf(folder, mod):
    env = folder.module_env(mod.name)

    def f(e):
        try:
            v = folder.eval(e, env, mod)
        except AnalysisError:
            return None
        if isinstance(v, EnumMember) and v.cls.is_int:
            v = v.value
        if isinstance(v, bool) or not isinstance(v, int):
            return None
        return v
    return f


def r1_order(program, rep):
    fn = program.get(CTRL + ".flood_fill_aplx")
    inst = qual(fn)
    fl = Flow(fn)
    cfg = fl.cfg
    # the per-binary loop: the outermost loop the start packet is sent from
    ffs_ = calls_in(fn, "_send_ffs")
    loops = []
    if len(ffs_) == 1:
        p_ = getattr(ffs_[0], "_parent", None)
        while p_ is not None and p_ is not fn:
            if isinstance(p_, (ast.For, ast.While)):
                loops = [p_]
            p_ = getattr(p_, "_parent", None)
    if len(loops) != 1 or not isinstance(loops[0], ast.For):
        raise AnalysisError("flood_fill_aplx: per-binary loop not found")
    lp = loops[0]
    head = cfg.loop_head[id(lp)]
    body = [s for s in head.succ if s.label == "forbody"][0]
    sites = {}
    for nm in ("_send_ffs", "_send_ffcs", "_send_ffd", "_send_ffe"):
        cs = calls_in(fn, nm)
        if len(cs) != 1:
            raise AnalysisError("flood_fill_aplx: expected one %s" % nm)
        sites[nm] = cs[0]
    nodes = {k: cfg.node_containing(v) for k, v in sites.items()}
    for nm in ("_send_ffs", "_send_ffd", "_send_ffe"):
        inside = _inside(sites[nm], lp)
        every = cfg.must_pass(body, lambda n: n is nodes[nm],
                              targets=[head])
        rep.check(inside and every, "C09-R1", inst, "every binary's fill "
                  "sends %s (on every path through the per-binary loop)" %
                  nm, construct="%s per binary" % nm, node=sites[nm],
                  fail="%s is not sent once for every binary of the "
                       "application map (it is %s the per-binary loop): "
                       "fills are left open / never started" % (
                           nm, "outside" if not inside else "skippable in"))
    order = ["_send_ffs", "_send_ffcs", "_send_ffd", "_send_ffe"]
    oko = all(cfg.reaches(nodes[a], nodes[b]) and
              not cfg.reaches(nodes[b], nodes[a], avoid=[head])
              for a, b in zip(order, order[1:]))
    rep.check(oko, "C09-R1", inst, "start, core selections, data, end - in "
              "that order within a fill", construct="fill order", node=fn)
    # one pid, one fr: the same value terms at the start, data and end
    # packets; the id is drawn inside the per-binary loop
    TV = Terms(fn)

    def argt(k, i):
        return TV.term(sites[k].args[i], TV.cfg.node_containing(sites[k]))
    pids = [argt(k, 0) for k in ("_send_ffs", "_send_ffd", "_send_ffe")]
    okp = len(set(pids)) == 1 and pids[0][0] == "callv" and \
        pids[0][1] == ("attr", ("param", "self"), "_get_next_nn_id")
    if okp:
        from ..terms import SITES
        site_ = SITES.get(pids[0][-1])
        okp = site_ is not None and _inside(site_, lp)
    rep.check(okp, "C09-R1", inst, "one fresh fill id per binary, used by "
              "its start, data and end packets", construct="fill id",
              node=fn)
    frs = [plain(argt("_send_ffs", 2)), plain(argt("_send_ffcs", 2)),
           plain(argt("_send_ffe", 3))]
    rep.check(len(set(frs)) == 1, "C09-R1", inst, "one forward/retry word "
              "for the whole fill", construct="forward/retry %s" % (
                  show(frs[0])[:60],), node=fn)
    # core selects iterate the sorted region list of this binary's targets
    cl = sites["_send_ffcs"]._parent
    while cl is not None and not isinstance(cl, ast.For):
        cl = cl._parent
    okc = cl is not None and _inside(cl, lp)
    if okc:
        src = chain(cl.iter)
        ds = fl.reaching(src, cfg.loop_head[id(cl)]) if src else []
        tv = chain(lp.target.elts[1])
        if not calls_in(fn, "compress_flood_fill_regions") and any(
                isinstance(x, ast.Call) and
                call_name(x)[0] == "get_regions_and_coremasks"
                for x in ast.walk(fn)):
            raise AnalysisError("flood_fill_aplx: the regions are read off "
                                "a region tree built here, not returned by "
                                "compress_flood_fill_regions; not analysed")
        if len(ds) == 1 and isinstance(ds[0].value, ast.Call) and \
                isinstance(ds[0].value.func, ast.Name) and \
                call_name(ds[0].value)[0] != "compress_flood_fill_regions" \
                and len(fl.reaching(ds[0].value.func.id, ds[0].node)) >= 1:
            # the list comes from a function chosen at run time (a local
            # bound to one of several producers): which one is not followed
            raise AnalysisError("flood_fill_aplx: the region list is "
                                "produced by a function held in a local "
                                "variable (%s); which producer it is, and "
                                "the order it returns, is not analysed" %
                                ds[0].value.func.id)
        okc = len(ds) == 1 and isinstance(ds[0].value, ast.Call) and \
            call_name(ds[0].value)[0] == "compress_flood_fill_regions" and \
            len(ds[0].value.args) == 1 and not ds[0].value.keywords and \
            chain(ds[0].value.args[0]) == tv and \
            [chain(a) for a in sites["_send_ffcs"].args[:2]] == \
            [chain(t) for t in cl.target.elts]
    rep.check(okc, "C09-R1", inst, "core selections are sent in the order "
              "compress_flood_fill_regions returns them (sorted, C12) for "
              "this binary's own targets", construct="core selects",
              node=fn)
    # data: the file's bytes, to sv.sdram_sys; end: the app id and flags
    dd = sites["_send_ffd"]
    de = sites["_send_ffe"]
    DATA = plain(argt("_send_ffd", 1))
    ADDR = plain(argt("_send_ffd", 2))
    okd = DATA[0] == "call" and DATA[1][0] == "attr" and \
        DATA[1][2] == "read" and DATA[1][1][0] == "with" and \
        DATA[1][1][1][0] == "call" and \
        DATA[1][1][1][1] == ("global", "open") and \
        ADDR == ("call", ("attr", ("param", "self"), "read_struct_field"),
                 (("const", "sv"), ("const", "sdram_sys"), ("const", 255),
                  ("const", 255)), ())
    kwn = fn.args.kwarg.arg if fn.args.kwarg else None
    oke = plain(argt("_send_ffe", 1)) == (
        "call", ("attr", ("param", kwn), "pop"), (("const", "app_id"),), ())
    rep.check(okd and oke, "C09-R1", inst, "the data packets carry the "
              "file's bytes to the system SDRAM buffer; the end packet "
              "carries the caller's app id and the wait flag",
              construct="data/end arguments", node=fn)
    # the flags word of the end packet, by cases on the caller's ``wait``
    TF = Terms(fn)
    de_n = TF.cfg.node_containing(de)
    pops = [c for c in calls_in(fn, "pop") if c.args and
            isinstance(c.args[0], ast.Constant) and
            c.args[0].value == "wait"]
    okw = len(pops) == 1
    if okw:
        POP = TF.term(pops[0])
        folder = Folder(program)
        cf_ = _cf(folder, fn._module)
        vals = []
        for v in (True, False):
            H = TF.under((POP, v))
            vals.append(cf_(reify(plain(H.term(de.args[2], de_n)))))
        okw = vals == [folder.name(CONSTS, "AppFlags").members["wait"].value,
                       0]
    rep.check(okw, "C09-R1", inst, "the wait flag is set iff wait was asked "
              "for", construct="wait flag", node=fn)
    rep.floor("C09-R1", 8)
    return sites, fl


def _inside(node, anc):
    n = node
    while n is not None:
        if n is anc:
            return True
        n = getattr(n, "_parent", None)
    return False


def _wp_len(expr):
    e = ast.Call(func=ast.Name(id="len", ctx=ast.Load()), args=[expr],
                 keywords=[])
    e._parent = getattr(expr, "_parent", None)
    ast.copy_location(e, expr)
    ast.copy_location(e.func, expr)
    e.func._parent = e
    return e


def r2_blocks(program, folder, rep, sites, ffl):
    fn = program.get(CTRL + ".flood_fill_aplx")
    inst = qual(fn)
    nb = sites["_send_ffs"].args[1]
    node = ffl.cfg.node_containing(sites["_send_ffs"])
    ffl.positive.add("self.scp_data_length")
    # the length of what the data packets are cut from (the second argument
    # of _send_ffd), whatever the local holding it is called
    dsite = sites["_send_ffd"]
    L = ffl.sym(_wp_len(dsite.args[1]), ffl.cfg.node_containing(dsite))
    D = Poly.atom("self.scp_data_length")

    def sym_t(t):
        e_ = reify(plain(t))
        for n_ in ast.walk(e_):
            for c_ in ast.iter_child_nodes(n_):
                c_._parent = n_
        ast.fix_missing_locations(e_)
        return ffl.sym(e_, node)
    # the count as a value term; when it is settled by a test (quotient,
    # plus one if there is a remainder) the proof is made case by case
    TB = Terms(fn)
    tnode = TB.cfg.node_containing(sites["_send_ffs"])
    whole = TB.term(nb, tnode)
    volatile = ("mu", "phi", "rec", "opaque")
    cases = None
    if not any(st[0] in volatile for st in subterms(whole)):
        cases = [([], whole)]
    else:
        for a in TB.cfg.nodes:
            if a.kind != "assume" or not a.polarity or \
                    not TB.cfg.reaches(a, tnode):
                continue
            c, pol = TB.cond(a.ast, a, True)
            if any(st[0] in volatile for st in subterms(c)):
                continue
            m_ = c[0] == "cmp" and c[1] in ("Eq", "NotEq") and \
                ("const", 0) in (c[2], c[3])
            if not m_:
                continue
            X = c[3] if c[2] == ("const", 0) else c[2]
            if not (X[0] == "binop" and X[1] == "Mod"):
                continue
            outs = []
            for v in (True, False):
                H = TB.under((c, v))
                tv = H.term(nb, tnode)
                if any(st[0] in volatile for st in subterms(tv)):
                    break
                nonzero = (c[1] == "NotEq") == v
                Xp = sym_t(X)
                outs.append(([le(1, Xp)] if nonzero else [eq(Xp, 0)], tv))
            else:
                cases = outs
                break
    direct = None
    if cases is None:
        # read the expression as the flow analysis sees it
        direct = ffl.sym(nb, node)
        import re as _re
        if any(_re.match(r"^[A-Za-z_][\w.]*[@#]\d+$", a_)
               for m_ in direct.t for a_ in m_):
            raise AnalysisError("flood_fill_aplx: the number of blocks "
                                "announced (%r) is a merged value these "
                                "rules cannot split into cases" % (direct,))
        cases = [([], None)]
    ok = True
    cnt = None
    for extra_, tv in cases:
        cnt = direct if tv is None else sym_t(tv)
        Lc = L
        if tv is not None:
            # the length of what is sent, read the same way as the count
            dnode_ = TB.cfg.node_containing(dsite)
            Lc = sym_t(("call", ("global", "len"),
                        (TB.term(dsite.args[1], dnode_),), ()))
        ok = ok and ffl.prove(node, [lt(D * (cnt - 1), Lc), le(Lc, D * cnt)],
                              extra=[lt(0, Lc)] + extra_, use_facts=False)
    rep.check(ok, "C09-R2", inst, "announced block count = ceil(len(binary) "
              "/ scp_data_length)", construct="announced count %r" % (cnt,),
              node=nb,
              fail="the start packet announces %r blocks, which is not "
                   "ceil(len / scp_data_length) for every binary size (e.g. "
                   "exact multiples of the buffer size): the machine waits "
                   "for a block that never comes" % (cnt,))
    rep.assume("the machine's advertised data length is >= 4; binaries are "
               "non-empty")
    d = program.get(CTRL + "._send_ffd")
    dinst = qual(d)
    consts = consts_for(folder, d)
    dfl = Flow(d, consts=consts)
    send = calls_in(d, "_send_scp")
    if len(send) != 1:
        raise AnalysisError("_send_ffd: one _send_scp expected")
    call = send[0]
    n = dfl.cfg.node_containing(call)
    ps = formals(d)
    data = call.args[7] if len(call.args) > 7 else None
    addr = call.args[6] if len(call.args) > 6 else None
    if data is None or addr is None:
        raise AnalysisError("_send_ffd: argument positions")
    dd = dfl.reaching(chain(data), n)
    okslice = False
    pos_e = None
    if len(dd) == 1 and isinstance(dd[0].value, ast.Subscript) and \
            isinstance(dd[0].value.slice, ast.Slice):
        s_ = dd[0].value
        pos_e = s_.slice.lower
        lo = dfl.sym(s_.slice.lower, dd[0].node)
        hi = dfl.sym(s_.slice.upper, dd[0].node)
        okslice = chain(s_.value) == ps[2] and \
            hi - lo == Poly.atom("self.scp_data_length")
    rep.check(okslice, "C09-R2", dinst, "each data packet carries "
              "binary[pos : pos + scp_data_length] - the divisor the "
              "announced count uses", construct="block slice", node=call)
    if not okslice:
        return
    posn = chain(pos_e)
    Lb = Poly.atom("len(%s)" % ps[2])
    P = Poly.atom(posn)
    SDL = Poly.atom("self.scp_data_length")
    # a second cursor counting down what is left (``offset += n; remaining
    # -= n``): the two add up to the length of the binary - offered to the
    # interpreter as a candidate invariant, kept only if it is inductive
    cands = [le(P, Lb), le(0, P)]
    for lp_ in ast.walk(d):
        if not isinstance(lp_, (ast.While, ast.For)):
            continue
        ups = [x for x in ast.walk(lp_) if isinstance(x, ast.AugAssign) and
               isinstance(x.target, ast.Name)]
        for u_ in ups:
            for v_ in ups:
                if isinstance(u_.op, ast.Add) and isinstance(v_.op, ast.Sub) \
                        and ast.dump(u_.value) == ast.dump(v_.value):
                    sm = Poly.atom(u_.target.id) + Poly.atom(v_.target.id)
                    cands += [le(sm, Lb), le(Lb, sm)]
    it = Interp(d, entry_cons=[le(4, SDL)], candidates=cands,
                consts=consts, pure_self_methods=("_send_scp",))
    isite = it.cfg.node_containing(call)
    dsz = it.sym(parse_expr("len(%s)" % chain(data)), isite)
    Pi = it.sym(pos_e, isite)
    Li = it.sym(parse_expr("len(%s)" % ps[2]), isite)
    rep.check(it.holds_at(isite, [le(1, dsz), le(dsz, SDL), le(0, Pi),
                                  le(Pi + dsz, Li)]), "C09-R2", dinst,
              "each block is 1..scp_data_length bytes and lies inside the "
              "binary", construct="block bounds", node=call,
              fail="cannot show 1 <= block <= scp_data_length within the "
                   "binary; state: %s" % it.describe(isite))
    loop = _loop_of(call, d)
    head, backs = _backedge_preds(dfl.cfg, loop)
    sz = dfl.sym(parse_expr("len(%s)" % chain(data)), n)
    blockv = None
    a2 = call.args[5]
    a2e = a2
    if chain(a2):
        ds = dfl.reaching(chain(a2), n)
        if len(ds) == 1:
            a2e = ds[0].value
    cf = _cf(folder, d._module)
    lay = provenance(a2e, cf)
    pcs = {p.dst_lo: p.src for p in lay.pieces}
    blockv = pcs.get(16)
    sizev = pcs.get(8)
    rep.check(blockv is not None and sizev is not None and
              len(lay.pieces) == 2, "C09-R3", dinst, "data packet arg2 = "
              "block number << 16 | (words - 1) << 8",
              construct="ffd arg2 %r" % (lay,), node=call)
    okz = False
    if sizev:
        # (the field's source: a variable, or an expression written in place)
        try:
            sz_e = parse_expr(sizev)
            for x_ in ast.walk(sz_e):
                for y_ in ast.iter_child_nodes(x_):
                    y_._parent = x_
            got_sz = dfl.sym(sz_e, n)
        except (AnalysisError, SyntaxError, ValueError):
            got_sz = None
        okz = got_sz is not None and \
            got_sz == dfl.fdiv(sz, Poly.const(4)) - 1
        if not okz:
            ds = dfl.reaching(sizev, n)
            okz = len(ds) == 1 and dfl.sym(ds[0].value, ds[0].node) == \
                dfl.fdiv(sz, Poly.const(4)) - 1
    rep.check(okz, "C09-R3", dinst, "size field = block bytes // 4 - 1",
              construct="ffd size field", node=call)
    for b in backs:
        for cexpr, step, what in ((pos_e, sz, "data cursor"),
                                  (addr, sz, "target address"),
                                  (parse_expr(blockv) if blockv else None,
                                   Poly.const(1), "block number")):
            if cexpr is None:
                continue
            c_s = dfl.sym(cexpr, n)
            c_after = dfl.sym_after(cexpr, b)
            rep.check(c_after == c_s + step, "C09-R2", dinst,
                      "%s advances by %s per block" % (
                          what, "one" if step == Poly.const(1)
                          else "the block's size"),
                      construct="%s -> %r" % (what, c_after), node=loop,
                      fail="after a block the %s is %r, expected %r" % (
                          what, c_after, c_s + step))
    pre = [p for p in head.pred if not dfl.cfg.reaches(head, p)]
    for p_ in pre:
        ok0 = dfl.sym_after(pos_e, p_) == Poly.const(0) and \
            (blockv is None or dfl.sym_after(parse_expr(blockv), p_) ==
             Poly.const(0)) and \
            dfl.sym_after(addr, p_) == Poly.atom(ps[3])
        rep.check(ok0, "C09-R2", dinst, "blocks are numbered from 0, "
                  "starting at the beginning of the binary and at the given "
                  "address", construct="initial cursors", node=d)
    ex = it.cfg.loop_exit[id(loop)]
    rep.check(it.holds_at(ex, eq(it.sym(pos_e, ex),
                                 it.sym(parse_expr("len(%s)" % ps[2]), ex))),
              "C09-R2", dinst, "the data loop ends exactly at the end of "
              "the binary (so blocks sent = ceil(len / scp_data_length))",
              construct="data loop exit", node=loop,
              fail="cannot show pos == len(binary) at loop exit; state: "
                   "%s" % it.describe(ex))
    a1 = call.args[4]
    a1e = a1
    if chain(a1):
        ds = dfl.reaching(chain(a1), n)
        if len(ds) == 1:
            a1e = ds[0].value
    lay = provenance(a1e, cf)
    rep.check([(p.src, p.dst_lo) for p in lay.pieces] == [(ps[1], 0)],
              "C09-R3", dinst, "data packet arg1 = forward << 24 | retry << "
              "16 | fill id", construct="ffd arg1 %r" % (lay,), node=call)
    rep.floor("C09-R2", 8)


def r3_ids(program, folder, rep):
    fn = program.get(CTRL + "._get_next_nn_id")
    inst = qual(fn)
    N = Poly.atom("self._nn_id")
    it = Interp(fn, entry_cons=[le(0, N), le(N, 126)],
                candidates=[le(1, N), le(N, 126)])
    rets = returns_of(fn)
    if len(rets) != 1:
        raise AnalysisError("_get_next_nn_id: one return expected")
    rn = it.cfg.node_of(rets[0])
    val = it.sym(rets[0].value, rn)
    ok = it.holds_at(rn, [le(1, N), le(N, 126)]) and (
        val == N * 2 or it.holds_at(rn, eq(val, N * 2)))
    rep.check(ok, "C09-R3", inst, "the id stays in 1..126 (given 0..126 "
              "before) and is sent doubled: even, <= 252, fits 8 bits",
              construct="nn id range", node=fn,
              fail="the fill id can leave 1..126 or is not sent as 2*id; "
                   "state: %s" % it.describe(rn))
    init = program.get(CTRL + ".__init__")
    ifl = Flow(init)
    z = [d for d in ifl.defs if d.var == "self._nn_id"]
    rep.check(len(z) == 1 and unparse(z[0].value) == "0", "C09-R3",
              qual(init), "the id counter starts at 0",
              construct="nn id init", node=init)
    writers = [n for n in ast.walk(program.module(MC).tree)
               if isinstance(n, ast.Attribute) and isinstance(n.ctx,
                                                              ast.Store)
               and chain(n) == "self._nn_id"]
    from ..core import enclosing_def
    wfns = sorted(set(getattr(enclosing_def(w), "name", "?")
                      for w in writers))
    rep.check(wfns == ["__init__", "_get_next_nn_id"], "C09-R3", inst,
              "only __init__ and _get_next_nn_id write the counter",
              construct="nn id writers %s" % wfns, node=fn)
    cfn = _cf(folder, fn._module)
    for m, argi, want in (
            ("_send_ffs", 4, [("pid", 16), ("n_blocks", 8)]),
            ("_send_ffe", None, None)):
        f = program.get(CTRL + "." + m)
        ffl = Flow(f)
        call = calls_in(f, "_send_scp")[0]
        n = ffl.cfg.node_containing(call)

        def resolve(e):
            if chain(e):
                ds = ffl.reaching(chain(e), n)
                if len(ds) == 1 and ds[0].mode == "assign":
                    return ds[0].value
            return e
        if m == "_send_ffs":
            lay = provenance(resolve(call.args[4]), cfn)
            got = sorted((p.src, p.dst_lo) for p in lay.pieces)
            nn = folder.name(CONSTS, "NNCommands")
            rep.check(got == sorted(want) and lay.const ==
                      nn.members["flood_fill_start"].value << 24, "C09-R3",
                      qual(f), "start word = flood_fill_start << 24 | id << "
                      "16 | block count << 8", construct="ffs word %r" %
                      (lay,), node=call)
            sfr = resolve(call.args[6])
            lay = provenance(sfr, cfn)
            rep.check(lay.const == 1 << 31 and [p.dst_lo for p in
                                                lay.pieces] == [0],
                      "C09-R3", qual(f), "start packet's forward/retry "
                      "word has bit 31 set", construct="ffs sfr %r" % (lay,),
                      node=call)
        else:
            l1 = provenance(resolve(call.args[4]), cfn)
            l2 = provenance(resolve(call.args[5]), cfn)
            nn = folder.name(CONSTS, "NNCommands")
            ok = [(p.src, p.dst_lo) for p in l1.pieces] == [("pid", 0)] and \
                l1.const == nn.members["flood_fill_end"].value << 24 and \
                sorted((p.src, p.dst_lo) for p in l2.pieces) == [
                    ("app_flags", 18), ("app_id", 24)]
            rep.check(ok, "C09-R3", qual(f), "end words = flood_fill_end << "
                      "24 | id ; app id << 24 | flags << 18",
                      construct="ffe words %r / %r" % (l1, l2), node=call)
    f = program.get(CTRL + "._send_ffcs")
    TS = Terms(f)
    sc = calls_in(f, "_send_scp")
    okf = len(sc) == 1
    if okf:
        from ..util import send_scp_terms
        A = send_scp_terms(program, TS, sc[0])
        fps = formals(f)
        lay = provenance(reify(plain(A["arg1"])), cfn)
        nn = folder.name(CONSTS, "NNCommands")
        okf = [(p.src, p.dst_lo, p.src_lo) for p in lay.pieces] == [
            (fps[2], 0, 0)] and lay.const == \
            nn.members["flood_fill_core_select"].value << 24 and \
            A.get("arg2") == ("param", fps[1]) and \
            A.get("arg3") == ("param", fps[3])
    rep.check(okf, "C09-R3", qual(f), "core select = "
              "command << 24 | core mask, with the region word",
              construct="ffcs words", node=f)
    rep.floor("C09-R3", 8)


def _dict_emptiness(fact, var=None):
    """The fact ``(term, polarity)`` with a test of the length (or, for the
    variable ``var``, of the truth value) of a dictionary X written as the
    comparison ``X == {}``."""
    t, p = fact
    EMPTY = ("dict", ())

    def length(x):
        return x[2][0] if x[0] == "call" and x[1] == ("global", "len") and \
            len(x[2]) == 1 and not x[3] else None
    if t[0] == "mu" and var is not None and t[1].var == var:
        return ("cmp", "Eq", plain(t), EMPTY), not p
    t = plain(t)
    if t[0] == "cmp" and p in (True, False):
        a, b = t[2], t[3]
        for x, c, flip in ((a, b, False), (b, a, True)):
            X = length(x)
            if X is None or c[0] != "const" or c[1] not in (0, 1) or \
                    isinstance(c[1], bool):
                continue
            op = t[1]
            if op == "Eq" and c[1] == 0:
                return ("cmp", "Eq", X, EMPTY), p
            if not p:
                continue
            # len(X) op c (flip: c op len(X))
            if (op, c[1], flip) in (("Lt", 0, True), ("LtE", 1, True)):
                return ("cmp", "Eq", X, EMPTY), False
            if (op, c[1], flip) in (("LtE", 0, False), ("Lt", 1, False)):
                return ("cmp", "Eq", X, EMPTY), True
    return t, p


def r4_retry(program, rep):
    fn = program.get(CTRL + ".load_application")
    inst = qual(fn)
    fl = Flow(fn)
    cfg = fl.cfg
    wl = [n for n in ast.walk(fn) if isinstance(n, ast.While)]
    if len(wl) != 1:
        raise AnalysisError("load_application: retry loop")
    w = wl[0]
    head = cfg.loop_head[id(w)]
    T = Terms(fn)
    SELF = ("param", "self")

    def kw(name, *dflt):
        return ("call", ("attr", ("param", fn.args.kwarg.arg), "pop"),
                (("const", name),) + tuple(dflt), ())
    APP, NTRIES = kw("app_id"), kw("n_tries")
    ffs = [c for c in ast.walk(w) if isinstance(c, ast.Call) and
           call_name(c)[0] == "flood_fill_aplx"]
    if len(ffs) != 1:
        raise AnalysisError("load_application: one flood fill per attempt "
                            "expected")
    ffn = T.cfg.node_containing(ffs[0])
    fargs = [T.term(a_, ffn) for a_ in ffs[0].args]
    fkw = {k.arg: plain(T.term(k.value, ffn)) for k in ffs[0].keywords}
    if len(fargs) != 1 or fargs[0][0] != "mu":
        raise AnalysisError("load_application: what each attempt fills")
    UNL = fargs[0]
    EMPTY = ("dict", ())
    facts_in = [_dict_emptiness((t, p_), UNL[1].var)
                for t, p_ in T.all_facts(ffn)]
    # the loop runs while something is unloaded and attempts remain
    cnt = [t[2] for t, p_ in T.all_facts(ffn)
           if p_ and t[0] == "cmp" and t[1] in ("LtE", "Lt") and
           plain(t[3]) == NTRIES and t[2][0] == "mu"]
    okc = any((("cmp", "Eq", a_, b_), False) in facts_in
              for a_, b_ in ((plain(UNL), EMPTY), (EMPTY, plain(UNL)))) and \
        len(cnt) == 1
    if okc:
        CNT = cnt[0]
        alts = [plain(x) for x in one_level(CNT)]
        upd = [b_ for i_ in CNT[1].ids for b_ in [T.binds[i_]]
               if _inside(b_.node.ast, w)]
        okc = sorted(map(repr, alts)) == sorted(map(repr, [
            ("const", 0), ("binop", "Add", plain(CNT), ("const", 1))])) or \
            sorted(map(repr, alts)) == sorted(map(repr, [
                ("const", 0), ("binop", "Add", ("const", 1), plain(CNT))]))
        # (the edge of the loop test that enters the body: of either
        # polarity - ``while not done`` enters on a false operand)
        body_in = [n_ for n_ in T.cfg.nodes if n_.kind == "assume" and
                   _inside(n_.ast, w) and
                   T.cfg.dominates(n_, ffn) and
                   not any(_inside(n_.ast, st_) for st_ in w.body)]
        okc = okc and len(upd) == 1 and bool(body_in) and T.cfg.must_pass(
            body_in[-1], lambda n_: n_ is upd[0].node,
            targets=[T.cfg.loop_head[id(w)], T.cfg.exit])
    rep.check(okc, "C09-R4", inst, "the number of attempts is bounded: the "
              "counter starts at 0, increases on every iteration and bounds "
              "the loop", construct="retry bound", node=w)
    # the outcome of every fill is established before the loop is left or
    # goes round: the map of what is still unloaded is bound anew on every
    # path from the fill to the loop test / out of the loop
    rebinds = [b_.node for b_ in T.binds if b_.var == UNL[1].var and
               _inside(b_.node.ast, w) and b_.mode in ("assign", "aug")]
    # (... wherever the map is looked at again: the loop test, and whatever
    # reads it after the loop)
    uname = UNL[1].var
    readers = [n_ for n_ in T.cfg.nodes
               if getattr(n_, "ast", None) is not None and
               not _inside(n_.ast, w) and n_.ast is not w and
               n_.kind in ("stmt", "assume") and any(
                   isinstance(x_, ast.Name) and x_.id == uname and
                   isinstance(x_.ctx, ast.Load) for x_ in ast.walk(n_.ast))
               and T.cfg.reaches(ffn, n_)]
    okv = bool(rebinds) and T.cfg.must_pass(
        ffn, lambda n_: n_ in rebinds,
        targets=[T.cfg.loop_head[id(w)]] + readers)
    rep.check(okv, "C09-R4", inst, "after every fill the map of unloaded "
              "cores is established anew (by the count or by the read-back) "
              "before it decides between retrying, returning and raising",
              construct="fill verified", node=ffs[0],
              fail="a fill can be followed by leaving the retry loop without "
                   "the map of unloaded cores having been re-established: "
                   "the map from before that fill decides whether "
                   "load_application raises, and names cores that did load")
    okf = fkw == {"app_id": APP, "wait": ("const", True)}
    rep.check(okf, "C09-R4", inst, "each attempt fills only what is still "
              "unloaded, under the caller's app id, leaving cores waiting",
              construct="retry fill arguments", node=fn,
              fail="retries do not call flood_fill_aplx(unloaded, "
                   "app_id=app_id, wait=True)")
    # count mode: the map is declared empty only when the number of cores
    # waiting under this app id equals the number requested
    AM = None
    okn = False
    unread_count = False
    n_empty = 0
    for b_ in T.binds:
        if b_.var != UNL[1].var or b_.mode != "assign" or \
                not _inside(b_.node.ast, w) or \
                plain(T._bind_term(b_)) != EMPTY:
            continue
        # (an empty map made in this very statement, {} or dict(): not the
        # map built up elsewhere and bound here)
        bt_ = T._bind_term(b_)
        from ..terms import SITES as _SITES
        if bt_[0] == "new" and _SITES.get(bt_[1]) is not b_.value:
            continue
        n_empty += 1
        f = [(plain(t), p_) for t, p_ in T.all_facts(b_.node)]
        WAITING = ("call", ("attr", SELF, "count_cores_in_state"),
                   (("const", "wait"), APP), ())
        eqs = [t for t, p_ in f if p_ and t[0] == "cmp" and t[1] == "Eq" and
               WAITING in (t[2], t[3])]
        okn = (kw("use_count", ("const", True)), True) in f and \
            len(eqs) == 1
        if okn:
            CC = eqs[0][3] if eqs[0][2] == WAITING else eqs[0][2]
            m_ = match(("call", ("global", "sum"), ((
                "genexp", ("call", ("global", "len"), (V("c"),), ()),
                V("g")),), ()), CC)
            if m_ is not None and len(m_["g"]) == 1 and not m_["g"][0][1]:
                # sum(len(c) for c in chain.from_iterable(e for a in A)) is
                # sum(len(c) for a in A for c in e)
                it_ = m_["g"][0][0]
                if it_[0] == "call" and it_[1] in (
                        ("attr", ("attr", ("global", "itertools"), "chain"),
                         "from_iterable"),
                        ("attr", ("global", "chain"), "from_iterable")) and \
                        len(it_[2]) == 1 and it_[2][0][0] in (
                            "genexp", "listcomp") and \
                        len(it_[2][0][2]) == 1 and m_["c"] == ("elem", it_):
                    inner_ = it_[2][0]
                    m_ = {"c": ("elem", inner_[1]),
                          "g": (inner_[2][0], (inner_[1], ()))}
            if m_ is None or len(m_["g"]) != 2:
                # the number requested is computed some other way
                unread_count = True
            okn = m_ is not None and len(m_["g"]) == 2
            if okn:
                (i1, c1), (i2, c2) = m_["g"]
                okn = not c1 and not c2 and i1[0] == "values" and \
                    i2 == ("values", ("elem", i1)) and \
                    m_["c"] == ("elem", i2)
                AM = i1[1] if okn else None
    deferred = None
    if n_empty == 0:
        deferred = ("load_application: where the count mode declares "
                    "everything loaded was not found")
    elif n_empty == 1 and not okn and unread_count:
        deferred = ("load_application: the number of cores requested is "
                    "computed in a form that is not analysed")
    elif n_empty == 1 and not okn and not any(
            st_[0] == "call" and st_[1] == ("global", "sum")
            for t, p_ in f for st_ in subterms(t)):
        deferred = ("load_application: the number of cores requested is "
                    "computed in a form that is not analysed")
    else:
        rep.check(okn and n_empty == 1, "C09-R4", inst, "count mode: done "
                  "iff the number of cores waiting under this app id equals "
                  "the number of cores requested", construct="count mode",
                  node=fn)
    from ..terms import SITES

    def site_node(t):
        return SITES.get(t[1]) if t[0] == "new" else None

    def loop_of(node):
        lp = node
        while lp is not None and not isinstance(lp, (ast.For, ast.While)):
            lp = getattr(lp, "_parent", None)
        return lp
    nxt = [b_ for b_ in T.binds if b_.mode == "assign" and
           _inside(b_.node.ast, w) and b_.value is not None and
           T._bind_term(b_)[0] == "new" and
           T.built_map(T._bind_term(b_))]
    # the rebinding of the still-unloaded map inside the loop
    rebind = None
    D3 = None
    for b_ in T.binds:
        if b_.mode == "assign" and _inside(b_.node.ast, w) and \
                b_.value is not None and chain(b_.value) is not None:
            t = T._bind_term(b_)
            if t[0] == "new" and T.built_map(t) and any(
                    x.var == b_.var and x.mode != "param" and
                    not _inside(x.node.ast, w) for x in T.binds):
                rebind, D3 = b_, t
    if D3 is None:
        raise AnalysisError("load_application: the rebuilding of the map "
                            "of cores still to load was not found in the "
                            "form analysed")
    oks = D3 is not None
    s1 = s2 = s3 = oka = okk = False
    if oks:
        UNL = T.term(ast.Name(id=rebind.var, ctx=ast.Load()),
                     T.cfg.loop_head[id(w)])
        m3 = T.built_map(D3)
        if len(m3) != 1 or m3[0][0][0] != "items":
            raise AnalysisError("load_application: the map of cores still "
                                "to load is not rebuilt by walking a map's "
                                "items (binaries, chips, cores) but from some "
                                "other collection; that form is not analysed")
        oks = len(m3) == 1 and m3[0][0] == ("items", UNL)
    if oks:
        E1 = ("elem", ("items", UNL))
        it3, k3, D2, c3 = m3[0]
        m2 = T.built_map(D2) if D2[0] == "new" else None
        if not m2 or len(m2) != 1 or m2[0][0][0] != "items":
            raise AnalysisError("load_application: the chips of a binary "
                                "that still have cores to load are not "
                                "collected by walking the items of that "
                                "binary's map (they come from a prepared "
                                "collection or a generator); that form is "
                                "not analysed")
        oks = k3 == ("comp", E1, 0) and bool(m2) and len(m2) == 1 and \
            m2[0][0] == ("items", ("comp", E1, 1))
    if oks:
        E2 = ("elem", ("items", ("comp", E1, 1)))
        it2, k2, S1, c2 = m2[0]
        CORES = ("comp", E2, 1)
        oks = k2 in (("comp", E2, 0),
                     ("tuple", ("comp", ("comp", E2, 0), 0),
                      ("comp", ("comp", E2, 0), 1)))
        cores = T.filtered(S1)
        oks = oks and bool(cores) and len(cores) == 1 and \
            cores[0][0] == CORES
    rep.check(oks, "C09-R4", inst, "per-core mode walks the still-unloaded "
              "map: binaries, their chips, their cores",
              construct="verification walk", node=w)
    if oks:
        app_l = loop_of(site_node(D2))
        n3 = site_node(D3)
        n2, n1 = site_node(D2), None
        inner = S1
        while inner[0] == "new" and inner[2][0] == "call" and \
                inner[2][2] and inner[2][2][0][0] in ("new",):
            inner = inner[2][2][0]
        n1 = site_node(S1)
        # loops, innermost first, enclosing the stores
        st2 = [x for x in stores(T) if x[2] == D2]
        st3 = [x for x in stores(T) if x[2] == D3]
        chip_l = loop_of(st2[0][1]) if st2 else None
        app_l = loop_of(st3[0][1]) if st3 else None
        if n1 is None and S1[0] in ("setcomp", "listcomp") and st2:
            # a comprehension is a fresh collection wherever it is evaluated:
            # here, in the statement that files it under the chip
            n1 = st2[0][1]
        s1 = n1 is not None and chip_l is not None and _inside(n1, chip_l)
        s2 = n2 is not None and app_l is not None and _inside(n2, app_l) \
            and not _inside(n2, chip_l)
        s3 = n3 is not None and _inside(n3, w) and not _inside(n3, app_l)
        rep.check(s1, "C09-R4", inst, "the set of still-unloaded cores is "
                  "started afresh for every chip",
                  construct="unloaded_cores scope", node=chip_l or w,
                  fail="the set of still-unloaded cores is not re-created "
                       "for every chip: cores found unloaded on one chip "
                       "are also re-loaded (and started) on the chips "
                       "checked after it although they were never "
                       "requested there")
        rep.check(s2 and s3, "C09-R4", inst, "the per-binary and per-attempt "
                  "maps are started afresh for every binary / attempt",
                  construct="unloaded map scopes", node=w)
        CHIP = ("comp", E2, 0)
        P_ = ("elem", CORES)
        state = ("call", ("attr", ("global", "consts"), "AppState"),
                 (("call", ("attr", SELF, "read_vcpu_struct_field"),
                   (("const", "cpu_state"), ("comp", CHIP, 0),
                    ("comp", CHIP, 1), P_), ()),), ())
        WAIT = ("attr", ("attr", ("global", "consts"), "AppState"), "wait")
        it1, e1, conds = cores[0]
        cl = [(plain(c), p_) for c, p_ in conds]
        wanted = [x for x in cl if x in ((mk_cmp("Is", state, WAIT), False),
                                         (mk_cmp("Eq", state, WAIT), False))]
        extra = [x for x in cl if x not in wanted]
        # (an assertion about the type of what was read adds a condition
        # that is always true)
        typed = [x for x in extra if x[1] and x[0][0] in ("call", "callv")
                 and x[0][1] == ("global", "isinstance")]
        if wanted and len(typed) != len(extra):
            raise AnalysisError("load_application: a core is kept as "
                                "unloaded under further conditions that "
                                "this rule does not read")
        oka = e1 == P_ and len(wanted) == 1 and len(typed) == len(extra)
        rep.check(oka, "C09-R4", inst, "a core stays 'unloaded' iff its own "
                  "state (read at its x, y, p) is not 'wait'",
                  construct="per-core test", node=chip_l or w)

        def nonempty(c, X):
            if c is None:
                return False
            c, p_ = (c[1], False) if c[0] == "not" else (c, True)
            LEN = ("call", ("global", "len"), (X,), ())
            return (c, p_) in ((X, True),
                               (mk_cmp("Lt", ("const", 0), LEN), True),
                               (mk_cmp("LtE", ("const", 1), LEN), True),
                               (mk_cmp("Eq", LEN, ("const", 0)), False),
                               (mk_cmp("Eq", ("const", 0), LEN), False)) or \
                (plain(c), p_) == (mk_cmp("Eq", ("call", ("global", "len"),
                                                 (plain(X),), ()),
                                          ("const", 0)), False)
        okk = nonempty(c2, S1) and nonempty(c3, D2) and \
            not _inside(rebind.node.ast, app_l)
        rep.check(okk, "C09-R4", inst, "the next attempt's map holds exactly "
                  "the chips/binaries with unloaded cores, keyed by their "
                  "own chip and binary", construct="recomputed map", node=w)
    # after the loop
    okr = False
    UNL_after = None
    for r in raises_of(fn):
        if raise_name(r) == "SpiNNakerLoadingError" and not _inside(r, w):
            rn = T.cfg.node_of(r)
            args = [T.term(a_, rn) for a_ in r.exc.args]
            before = [_dict_emptiness((t, p_), UNL[1].var)
                      for t, p_ in T.all_facts(T.cfg.loop_head[id(w)])]
            f = [x for x in [_dict_emptiness((t, p_), UNL[1].var)
                             for t, p_ in T.all_facts(rn)]
                 if x not in before and x[0][0] not in ("and", "or")]
            # (the loop's own exit condition - not (A and B) - is a fact
            # there too; what is counted are the tests made after the loop)
            okr = len(args) == 1 and args[0][0] == "mu" and \
                args[0][1].var == UNL[1].var and any(
                    (("cmp", "Eq", a_, b_), False) in f
                    for a_, b_ in ((plain(args[0]), EMPTY),
                                   (EMPTY, plain(args[0])))) and \
                len(f) == 1
            UNL_after = args[0]
    in_loop = [r for r in raises_of(fn)
               if raise_name(r) == "SpiNNakerLoadingError" and _inside(r, w)]
    restructured = UNL_after is None and bool(in_loop)
    if restructured:
        # the bail-out sits inside the retry loop: which exits of the loop
        # mean 'everything loaded' is a path question not read here
        deferred = deferred or (
            "load_application: SpiNNakerLoadingError is raised inside the "
            "retry loop; that form of the bail-out is not analysed")
    else:
        rep.check(okr, "C09-R4", inst, "SpiNNakerLoadingError(unloaded) is "
                  "raised iff something is still unloaded after the loop",
                  construct="loading error", node=fn)
    ss = [c for c in ast.walk(fn) if isinstance(c, ast.Call) and
          call_name(c)[0] == "send_signal"]
    oks = len(ss) == 1 and not _inside(ss[0], w)
    if oks:
        sn = T.cfg.node_containing(ss[0])
        sargs = [plain(T.term(a_, sn)) for a_ in ss[0].args]
        before = [_dict_emptiness((t, p_), UNL[1].var)
                  for t, p_ in T.all_facts(T.cfg.loop_head[id(w)])]
        f = [x for x in [_dict_emptiness((t, p_), UNL[1].var)
                         for t, p_ in T.all_facts(sn)]
             if x not in before and x[0][0] not in ("and", "or")]
        empty_known = UNL_after is not None and any(
            (("cmp", "Eq", a_, b_), True) in f
            for a_, b_ in ((plain(UNL_after), EMPTY),
                           (EMPTY, plain(UNL_after))))
        oks = sargs == [("const", "start"), APP] and \
            (kw("wait"), False) in f and empty_known and len(f) == 2
    if not restructured:
        rep.check(oks, "C09-R4", inst, "the start signal is sent, under the "
                  "caller's app id, iff not asked to wait and only after "
                  "everything was found loaded", construct="start signal",
                  node=fn)
    if deferred:
        raise AnalysisError(deferred)
    rep.floor("C09-R4", 9)


def r5_link(program, rep):
    mods = [MC, "rig.machine_control.regions", CONSTS,
            "rig.machine_control.scp_connection",
            "rig.machine_control.packets", "rig.utils.contexts",
            "rig.utils.docstrings", "rig.machine_control.struct_file",
            "rig.machine_control"]
    for name in mods:
        m = program.module(name)
        bad = list(check_module(m))
        for node, msg in bad:
            rep.bad("C09-R5", name, msg, "%s: %s - load_application cannot "
                    "run on this interpreter" % (name, msg), node)
        if not bad:
            rep.ok("C09-R5", name, "all standard-library names referenced "
                   "exist on this interpreter")
    rep.floor("C09-R5", 8)


# The states a core reports in vcpu.cpu_state, as SARK numbers them (sark.h,
# cpu_state_e): a fact about the machine, like the SCP return codes.
APPSTATE_WIRE = {
    "dead": 0, "power_down": 1, "runtime_exception": 2, "watchdog": 3,
    "init": 4, "wait": 5, "c_main": 6, "run": 7, "sync0": 8, "sync1": 9,
    "pause": 10, "exit": 11, "idle": 15}


def r_appstate_wire(program, rep, folder, rule):
    """consts.AppState: every state SARK can report has a member with SARK's
    number.  The per-core read-back does ``AppState(<byte read>)``: a number
    without a member is a ValueError in the middle of loading / probing, and
    a member with the wrong number classifies cores under another state."""
    states = folder.name(CONSTS, "AppState")
    have = {m.name: m.value for m in states}
    inst = CONSTS + ":AppState"
    for name, val in sorted(APPSTATE_WIRE.items()):
        if name not in have:
            continue            # (a renamed member: its users are checked)
        rep.check(have[name] == val, rule, inst,
                  "state %s = %d as SARK reports it" % (name, val),
                  construct="AppState.%s = %r" % (name, have[name]),
                  positive=True,
                  fail="AppState.%s is %r but SARK reports %d for that "
                       "state: cores are classified under the wrong state"
                       % (name, have[name], val))
    missing = sorted(set(APPSTATE_WIRE.values()) - set(have.values()))
    rep.check(not missing, rule, inst, "every state number SARK reports has "
              "a member", construct="AppState numbers missing %s" % missing,
              positive=True,
              fail="no member of AppState has the number(s) %s, which SARK "
                   "reports for cores in that state: AppState(<byte read>) "
                   "raises ValueError when such a core is looked at - "
                   "loading / probing dies instead of going on" % missing)


def check(program, rep):
    program.module(MC)
    folder = Folder(program)
    sites, ffl = rep.guard("C09-R1", r1_order, program, rep) or (None, None)
    rep.guard("C09-R2", r2_blocks, program, folder, rep, sites, ffl)
    rep.guard("C09-R3", r3_ids, program, folder, rep)
    rep.guard("C09-R4", r4_retry, program, rep)
    rep.guard("C09-R5", r5_link, program, rep)
    # the per-core read-back of load_application reads cpu_state through
    # read_vcpu_struct_field: the address must be that core's own block
    # (C07-R4: vcpu_base of the chip + size * p, computed per call)
    from . import C07
    rep.guard("C07-R4", C07.r4_addresses, program, folder, rep)
    # every flood-fill command is an SCP packet whose argument words are
    # often zero (region word 0 of the start packet, block 0, app id 0):
    # each argument that is present - zero included - must be written
    # (C15-R3: cmd_rc, seq, the arguments present in order, then the data)
    from . import C15
    rep.guard("C15-R3", C15.r3_scp, program, folder, rep)
    # arguments handed to package functions under the wrong name / same-
    # named optional parameters not passed on (NAMELINK, DESIGN.md 9.13)
    from .. import namelink as _nl
    rep.guard("C09-R6", _nl.rule, program, rep, "C09-R6",
              [m for m in sorted(program.modules) if m.startswith("rig.machine_control")])
    # every command of this operation travels under a sequence number: the
    # numbers fit the 16-bit wire field and use all of it (C06-R2)
    from . import C06 as _C06
    rep.guard("C06-R2", _C06.r2_seq_numbers, program, rep, folder)
    rep.guard("C09-R4", r_appstate_wire, program, rep, folder, "C09-R4")
    # the flood fill selects the cores of the application through the region
    # tree: what the tree hands out is every (chip, core) put into it (C12-R3
    # - a selection lost in the tree is a core that is never loaded, and the
    # load is reported as failed on a healthy machine)
    from . import C12 as _C12
    rep.guard("C12-R3", _C12.r3_collapse, program, folder, rep)
    rep.guard("C12-R3", _C12.r3_grouping, program, rep)
    return finish(rep, program, EXPLANATION, NOT_DECIDED,
                  trusted=["documented flood-fill command word layouts",
                           "LININV engine axioms"])
