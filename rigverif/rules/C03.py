"""C03 - routing trees are loop-free, connected and use only live hardware.

R1 leaf attachment in route()
R2 the repair is used whenever a dead link is on the tree
R3 liveness-guarded growth (A* and the disconnecting copy)
R4 hop consistency (neighbour arithmetic modulo the right dimension)
R5 no self-reconnection; an existing node is detached before it is
   re-attached
R6 truncation at first contact; fresh nodes registered
R7 only the documented failure
"""
import ast

from ..core import AnalysisError, finish, unparse
from ..dataflow import Flow, chain, call_name
from ..poly import Poly
from ..terms import Terms, mk_cmp, is_none, plain, match, V, ANY, show, \
    subterms, alternatives, stores, method_calls, lookup, owner_terms, \
    owner_views, all_method_calls, all_stores, facts_at
from ..util import calls_in, qual, formals, returns_of, raises_of, \
    raise_name, has_fact, bind

NER = "rig.place_and_route.route.ner"

EXPLANATION = (
    "Dominance, must-pass-through and def-use facts over ner.route, "
    "ner_net, a_star, copy_and_disconnect_tree and avoid_dead_links: the "
    "node a leaf is attached to is looked up in the lookup table that "
    "belongs to the final tree (root and lookup are rebound together); the "
    "repair runs whenever route_has_dead_links is true, which it is for "
    "every tree hop not in the machine; A* extends only over a link that is "
    "in the machine at the neighbour's end and to unvisited chips, and its "
    "neighbour coordinates are (node + vector of the opposite link) modulo "
    "(width, height) - symbolic normal forms; the copy attaches a child only "
    "if its own direction is among the working links between the two chips "
    "and otherwise records the broken pair; the reconnection targets "
    "exclude the current orphan's chips, recomputed from the live tree for "
    "every orphan; an existing node must be detached from its old parent on "
    "every path before it is attached to a new one.")
NOT_DECIDED = [
    "global acyclicity / connectivity after several repairs interact "
    "(depends on the contents of the trees)",
    "completeness: success whenever the machine is connected",
    "optimality of the routes",
]


def _inside(node, anc):
    n = node
    while n is not None:
        if n is anc:
            return True
        n = getattr(n, "_parent", None)
    return False


def r1_leaves(program, rep):
    """Which leaves a sink gets is decided case by case (endpoint constraint
    / allocated cores / neither) on value terms: the code is analysed under
    each case's hypotheses, helpers inlined, so the nesting of the tests and
    the staging through helpers or comprehensions do not matter."""
    fn = program.get(NER + ":route")
    inst = qual(fn)
    T = Terms(fn)
    cfg = T.cfg
    P = lambda n: ("param", n)      # noqa: E731
    NET = ("elem", P("nets"))
    SINKS = ("attr", NET, "sinks")
    SINK = ("elem", SINKS)
    nn = calls_in(fn, "ner_net")
    ok = len(nn) == 1
    if ok:
        n = cfg.node_containing(nn[0])
        b_ = {k: T.term(v, n) for k, v in bind(nn[0], program.get(
            NER + ":ner_net")).items()}
        # the destinations: the chip of every sink, however the collection
        # is spelt (set(...) of a generator, a set comprehension, a loop)
        built = T.filtered(b_.get("destinations", ("?",)))
        okd = bool(built) and len(built) == 1 and \
            plain(built[0][0]) == SINKS and \
            plain(built[0][1]) == ("item", P("placements"), SINK) and \
            not built[0][2]
        wrap = plain(b_.get("wrap_around", ("?",)))
        ok = b_.get("source") == ("item", P("placements"),
                                  ("attr", NET, "source")) and okd and \
            b_.get("width") == ("attr", P("machine"), "width") and \
            b_.get("height") == ("attr", P("machine"), "height") and \
            wrap == ("call", ("attr", P("machine"),
                              "has_wrap_around_links"), (), ()) and \
            b_.get("radius") == P("radius")
    rep.check(ok, "C03-R1", inst, "the tree of a net is grown from the chip "
              "of its source to the chips of its sinks, on this machine's "
              "dimensions", construct="ner_net arguments", node=fn)
    # the tree node a sink's leaves hang on; root and lookup of one tree
    leaves = []
    for c in ast.walk(fn):
        if isinstance(c, ast.Call) and isinstance(c.func, ast.Attribute) \
                and c.func.attr in ("append", "extend") and \
                isinstance(c.func.value, ast.Attribute) and \
                c.func.value.attr == "children" and len(c.args) == 1:
            leaves.append(c)
    if not leaves:
        raise AnalysisError("route: no leaves are attached")
    n0 = cfg.node_containing(leaves[0])
    TN = T.term(leaves[0].func.value.value, n0)
    ok = TN[0] == "item" and TN[2] == ("item", P("placements"), SINK)
    LOOKUP = TN[1] if ok else None
    roots = []
    for x in stores(T):
        if x[3] == NET and x[2][0] == "new":
            roots.append(x)
    rets = [T.term(r.value) for r in returns_of(fn) if r.value is not None]
    ok = ok and len(roots) == 1 and rets == [roots[0][2]]
    if ok:
        la = [plain(x) for x in alternatives(LOOKUP)]
        ra = [plain(x) for x in alternatives(roots[0][4])]
        ok = all(x[0] == "comp" and x[2] == 1 for x in la) and \
            sorted(x[1] for x in la) == sorted(
                x[1] for x in ra if x[0] == "comp" and x[2] == 0) and \
            len(la) == len(ra)
    rep.check(ok, "C03-R1", inst, "each sink's leaf hangs on the tree node "
              "of the chip the sink was placed on, in the lookup that "
              "belongs to the tree stored for the net (root and lookup "
              "always come from one call)", construct="leaf node lookup",
              node=fn,
              fail="leaves are not attached to lookup[placements[sink]] of "
                   "the very tree stored in routes[net]: root and lookup "
                   "are not (re)bound together, or another node is used")
    # the table of endpoint routes is made once, before the nets are
    # handled, and serves every net: nothing may take entries out of it
    CON_ = ("elem", P("constraints"))
    tables = []
    for b_ in T.binds:
        if b_.mode != "assign" or b_.value is None:
            continue
        t_ = T._bind_term(b_)
        pt_ = plain(t_)
        if pt_[0] == "dictcomp" and pt_[1][0] == "pair" and \
                pt_[1][2] == ("attr", CON_, "route"):
            tables.append((t_, b_.node.ast))
        elif t_[0] == "new" and any(
                x[2] == t_ and plain(x[4]) == ("attr", CON_, "route")
                for x in stores(T)):
            tables.append((t_, b_.node.ast))
    for t_, made in tables:
        taken = [c_ for n_, c_, recv, args in method_calls(
            T, ["pop", "popitem", "clear"]) if recv == t_ and
            _loop_of(c_) is not None and not _inside(made, _loop_of(c_))]
        for d_ in ast.walk(fn):
            if isinstance(d_, ast.Delete):
                for tg in d_.targets:
                    if isinstance(tg, ast.Subscript) and T.term(
                            tg.value, cfg.node_of(d_)) == t_ and \
                            _loop_of(d_) is not None:
                        taken.append(d_)
        rep.check(not taken, "C03-R1", inst, "the table of endpoint routes "
                  "built from the constraints is only read while the nets "
                  "are handled", construct="endpoint table read-only",
                  node=taken[0] if taken else fn,
                  fail="entries are taken out of the table of endpoint "
                       "routes while the nets are being handled (pop / del "
                       "/ clear): the constraint of a vertex that is a sink "
                       "of several nets (or listed twice) is honoured for "
                       "its first occurrence only")
    # the three cases
    RTE = CORES = None
    for view_c in ast.walk(fn):
        if isinstance(view_c, ast.Call) and \
                isinstance(view_c.func, ast.Name) and \
                view_c.func.id == "range" and len(view_c.args) == 2:
            for view in owner_views(T, view_c):
                vn = view.cfg.node_containing(view_c)
                env = _comp_env(getattr(view, "t", view), view_c)
                lo = view.term(view_c.args[0], vn, env)
                hi = view.term(view_c.args[1], vn, env)
                if lo[0] == "attr" and lo[2] == "start" and \
                        hi == ("attr", lo[1], "stop"):
                    CORES = lo[1]
    for c in ast.walk(fn):
        if isinstance(c, ast.Compare) and len(c.ops) == 1 and \
                isinstance(c.ops[0], (ast.In, ast.NotIn)):
            for view in owner_views(T, c):
                vn = view.cfg.node_containing(c)
                t, _ = view.cond(c, vn)
                if t[0] == "cmp" and t[1] == "In" and t[2] == SINK:
                    RTE = t[3]
    if RTE is None or CORES is None:
        raise AnalysisError("route: the constraint / allocation look-ups "
                            "for a sink were not found in the form analysed")
    okc = True
    detail = []
    if okc:
        want_cores = ("get", ("get", P("allocations"), SINK, ANY),
                      P("core_resource"))
        okc = match(want_cores, plain(CORES)) is not None
        cases = [
            ("endpoint", [(mk_cmp("In", SINK, RTE), True)],
             [("tuple", ("item", RTE, SINK), SINK)]),
            ("cores", [(mk_cmp("In", SINK, RTE), False),
                       (is_none(CORES), False)],
             [("tuple", ("call", ("attr", ("global", "Routes"), "core"),
                         (("elem", ("call", ("global", "range"),
                                    (("attr", CORES, "start"),
                                     ("attr", CORES, "stop")), ())),), ()),
               SINK)]),
            ("none", [(mk_cmp("In", SINK, RTE), False),
                      (is_none(CORES), True)],
             [("tuple", ("const", None), SINK)]),
        ]
        for name, hyps, want in cases:
            H = T.under(*hyps)
            got = []
            for c in leaves:
                owner = c
                while owner is not None and not isinstance(
                        owner, (ast.FunctionDef, ast.AsyncFunctionDef)):
                    owner = owner._parent
                if owner is not fn:
                    got.append(("?",))
                    continue
                n = cfg.node_containing(c)
                if not H.live(n):
                    continue
                arg = H.term(c.args[0], n)
                if c.func.attr == "extend":
                    built = H.filtered(arg)
                    if not built or len(built) != 1 or built[0][2]:
                        got.append(("?",))
                        continue
                    arg = built[0][1]
                got.append(arg)
            detail.append("%s: %s" % (name, ", ".join(show(x)[:80]
                                                        for x in got)))
            if ("?",) in got or any(
                    x[0] == "tuple" and len(x) == 3 and x[2] == SINK and
                    any(st_[0] in ("call", "callv") and
                        st_[1][0] in ("local",) for st_ in subterms(x[1]))
                    for x in got):
                raise AnalysisError("route: the leaves of a sink are "
                                    "produced in a form that is not "
                                    "analysed (%s)" % detail[-1][:120])
            okc = okc and got == want
    rep.check(okc, "C03-R1", inst, "leaf route = the endpoint constraint's "
              "route if there is one, else one core route per core in "
              "[start, stop) of the sink's own allocation, else none",
              construct="leaf routes", node=fn,
              fail="the leaves attached for a sink are not: the endpoint "
                   "route if constrained, else Routes.core(c) for every c "
                   "of its allocated slice, else None (found: %s)" %
                   "; ".join(detail))
    # endpoint routes come from the vertex's RouteEndpointConstraint
    oke = False
    if RTE is not None:
        CON = ("elem", P("constraints"))
        isre = ("call", ("global", "isinstance"),
                (CON, ("global", "RouteEndpointConstraint")), ())
        pr = plain(RTE)
        if pr[0] == "dictcomp":
            oke = pr == ("dictcomp", ("pair", ("attr", CON, "vertex"),
                                      ("attr", CON, "route")),
                         ((P("constraints"), (isre,)),))
        else:
            ep = [x for x in stores(T) if x[2] == RTE]
            oke = len(ep) == 1 and ep[0][3] == ("attr", CON, "vertex") and \
                ep[0][4] == ("attr", CON, "route") and \
                (isre, True) in T.all_facts(ep[0][0])
    rep.check(oke, "C03-R1", inst, "endpoint routes come from the vertex's "
              "RouteEndpointConstraint", construct="result map", node=fn)
    rep.floor("C03-R1", 4)


def r2_repair(program, rep):
    fn = program.get(NER + ":route")
    T = Terms(fn)
    cfg = T.cfg
    av = calls_in(fn, "avoid_dead_links")
    ok = len(av) == 1
    if ok:
        n = cfg.node_containing(av[0])
        a = [T.term(x, n) for x in av[0].args]
        MACH = ("param", "machine")
        ok = len(a) >= 2 and a[1] == MACH
        if ok:
            test = ("callv", ("global", "route_has_dead_links"),
                    (a[0], MACH), ())
            ok = any(p and t[:4] == test for t, p in T.all_facts(n))
            ok = ok and any(plain(x)[0] == "comp" and plain(x)[1][0] == "call"
                            and plain(x)[1][1] == ("global", "ner_net")
                            for x in alternatives(a[0]))
    rep.check(ok, "C03-R2", qual(fn), "a tree with a dead link is repaired "
              "(avoid_dead_links on the same root and machine) before "
              "leaves are attached", construct="repair call", node=fn)
    if ok:
        # ... whenever it has one: nothing but that test stands between the
        # generation of the tree and its repair
        gen = [c for c in calls_in(fn, "ner_net")]
        if len(gen) != 1:
            raise AnalysisError("route: expected one ner_net(...) call")
        gn = cfg.node_containing(gen[0])
        before = [(plain(t), p) for t, p in T.all_facts(gn)]
        extra = [(t, p) for t, p in T.all_facts(n)
                 if (plain(t), p) not in before and
                 not (p and t[:4] == test)]
        rep.check(not extra, "C03-R2", qual(fn), "the repair depends on "
                  "nothing but route_has_dead_links(root, machine)",
                  construct="repair condition", node=av[0],
                  fail="the repair of a tree with dead links is skipped "
                       "unless also %s: a tree through a dead chip or link "
                       "can be returned unrepaired" % "; ".join(
                           "%s is %s" % (show(t)[:50], p)
                           for t, p in extra[:2]))
    rh = program.get(NER + ":route_has_dead_links")
    R = Terms(rh)
    rp = formals(rh)
    ROOT, MACH = ("param", rp[0]), ("param", rp[1])
    IT1 = None
    for c in calls_in(rh, "traverse"):
        t = R.term(c, R.cfg.node_containing(c), _comp_env(R, c))
        if t[0] == "callv" and t[1] == ("attr", ROOT, "traverse"):
            IT1 = t
    if IT1 is None:
        raise AnalysisError("route_has_dead_links: traversal of the tree")
    E1 = ("elem", IT1)
    IT2 = ("comp", E1, 2)
    hop = ("tuple", ("comp", ("comp", E1, 1), 0), ("comp", ("comp", E1, 1), 1),
           ("elem", IT2))
    missing = mk_cmp("In", hop, MACH)
    ok = True
    n_ret = 0
    for r in returns_of(rh):
        if r.value is None:
            continue
        n = R.cfg.node_of(r)
        v, pol = R.cond(r.value, n, True)
        n_ret += 1
        if v == ("const", True):
            ok = ok and (missing, False) in R.all_facts(n)
            continue
        extra = [] if v == ("const", False) else [(v, not pol)]
        none = [q for q in R.quantified(n, extra) if q[0] == "none" and
                q[1] == ("nest", IT1, IT2) and q[2] == [(missing, False)]]
        ok = ok and bool(none)
    rep.check(ok and n_ret >= 1, "C03-R2", qual(rh), "route_has_dead_links "
              "is false only when every (chip, out direction) of the tree "
              "- all nodes, all directions - is in the machine",
              construct="dead link detection", node=rh,
              fail="route_has_dead_links can answer False without having "
                   "looked at every (x, y, direction) of the tree: a tree "
                   "through a dead chip or link is left unrepaired")


def _comp_env(T, expr):
    env = {}
    comps = []
    p = getattr(expr, "_parent", None)
    while p is not None and p is not T.fn:
        if isinstance(p, (ast.ListComp, ast.SetComp, ast.GeneratorExp,
                          ast.DictComp)):
            comps.append(p)
        p = getattr(p, "_parent", None)
    for comp in reversed(comps):
        n = T.cfg.node_containing(comp)
        for g in comp.generators:
            it = T.term(g.iter, n, env)
            T._bind_target(g.target, T._elem(it), env)
    return env


def r1_neighbour(program, rep):
    """ner_net grows the tree from a node that is in the tree: whatever is
    used to look a node up in the table of tree nodes is the source, an
    element of that table, or a coordinate that has just been tested to be
    in it (the very coordinate: wrapped if the test was on the wrapped
    one)."""
    fn = program.get(NER + ":ner_net")
    inst = qual(fn)
    T = Terms(fn)
    SRC = ("param", formals(fn)[0])
    ROUTE = None
    loads = []
    for n in T.cfg.nodes:
        if n.ast is None or n.kind not in ("stmt", "test"):
            continue
        for sub in ast.walk(n.ast):
            if isinstance(sub, ast.Subscript) and \
                    isinstance(sub.ctx, ast.Load):
                try:
                    base = T.term(sub.value, n)
                except AnalysisError:
                    continue
                if base[0] == "new" and plain(base)[0] == "dict":
                    loads.append((n, sub, base, T.term(sub.slice, n)))
    # the table of tree nodes: the dictionary a RoutingTree is stored in
    for n, st, base, key, val in stores(T):
        if val[0] in ("call", "callv") and val[1] == ("global",
                                                      "RoutingTree"):
            ROUTE = base
    if ROUTE is None:
        raise AnalysisError("ner_net: the table of tree nodes")
    loads = [x for x in loads if x[2] == ROUTE]
    if not loads:
        raise AnalysisError("ner_net: no look-up in the table of tree nodes")
    bad = []
    n_ok = 0

    def check_value(v, node, seen):
        """Is ``v`` (bound at ``node``) known to be a key of the table?"""
        if v in (SRC, ("const", None)) or v == ("rec",):
            return True
        if v[0] == "elem" and v[1] in (ROUTE, ("keys", ROUTE)):
            return True
        if v[0] == "comp" and v[1][0] == "elem" and \
                v[1][1] == ("items", ROUTE) and v[2] == 0:
            return True
        if v[0] == "mu":
            if v[1] in seen:
                return True
            seen = seen | {v[1]}
            return all(check_value(v[1].T._bind_term(v[1].T.binds[i]),
                                   v[1].T.binds[i].node, seen)
                       for i in v[1].ids)
        if v[0] in ("phi", "ite"):
            return all(check_value(x, node, seen)
                       for x in (v[1:] if v[0] == "phi" else v[2:]))
        if (mk_cmp("In", v, ROUTE), True) in T.all_facts(node):
            return True
        # a value produced by a search (next(...), min(...), a helper) may
        # well be a key of the table; that is not decided here
        head = v[1] if v[0] in ("comp", "item") else v
        if head[0] in ("call", "callv", "opaque"):
            vague.append(v)
        # ... as may an element picked out of a sequence by a position that
        # was remembered earlier (x = seq[k] with k kept from a scan)
        h_ = v
        while h_[0] in ("comp", "item"):
            if h_[0] == "item" and any(
                    st_[0] in ("mu", "phi", "index") for st_ in subterms(
                        h_[2])):
                vague.append(v)
                break
            h_ = h_[1]
        return False
    vague = []
    for n, sub, base, key in loads:
        if (mk_cmp("In", key, ROUTE), True) in T.all_facts(n):
            n_ok += 1
            continue
        del vague[:]
        if check_value(key, n, frozenset()):
            n_ok += 1
        elif vague:
            raise AnalysisError("ner_net: a tree node is looked up by the "
                                "result of a search (%s) that these rules "
                                "do not follow" % show(vague[0])[:60])
        else:
            bad.append(sub)
    rep.check(not bad, "C03-R1", inst, "every look-up in the table of tree "
              "nodes uses the source, a key of the table, or the very "
              "coordinate just tested to be in it (%d look-ups)" % n_ok,
              construct="tree node look-ups", node=bad[0] if bad else fn,
              fail="a coordinate that was not itself tested to be in the "
                   "tree (e.g. the un-wrapped form of the one tested) is "
                   "used to look up a tree node: KeyError on a torus, or "
                   "the path is grown from the wrong node")


def r3_growth(program, rep):
    """A* and the disconnecting copy, decided on value terms and canonical
    facts (which value is stored / attached where, under which tests)."""
    fn = program.get(NER + ":a_star")
    inst = qual(fn)
    T = Terms(fn)
    cfg = T.cfg
    ps = formals(fn)        # sink, heuristic_source, sources, machine, wrap
    SINK, SOURCES, MACH = [("param", ps[i]) for i in (0, 2, 3)]
    LINK = ("elem", ("global", "Links"))
    hops = [x for x in stores(T) if x[4][0] == "tuple" and len(x[4]) == 3
            and x[4][1] == LINK]
    if len(hops) != 1:
        raise AnalysisError("a_star: the statement recording the hop taken "
                            "to reach a neighbour was not found in the form "
                            "analysed (visited[neighbour] = (link, node))")
    ok = True
    N = NODE = VIS = None
    if ok:
        node, st, VIS, N, val = hops[0]
        NODE = val[2]
        f = T.all_facts(node)
        reach = ("tuple", T._comp(N, 0, 2), T._comp(N, 1, 2), LINK)
        ok = (mk_cmp("In", reach, MACH), True) in f and \
            (mk_cmp("In", N, VIS), False) in f
    rep.check(ok, "C03-R3", inst, "A* extends to a neighbour only over a "
              "link that is in the machine at the neighbour's end (the "
              "direction packets will travel) and only to unvisited chips",
              construct="A* growth guard", node=fn)
    ok2 = ok
    if ok2:
        hp = [c for c in calls_in(fn, "heappush") if len(c.args) == 2]
        if not hp and not calls_in(fn, "heappop"):
            raise AnalysisError("a_star: the chips to explore are not kept "
                                "in a heapq heap; the queue discipline is "
                                "not analysed")
        ok2 = len(hp) == 1
        if ok2:
            hn = cfg.node_containing(hp[0])
            item = T.term(hp[0].args[1], hn)
            ok2 = cfg.dominates(hops[0][0], hn) and item[0] == "tuple" and \
                len(item) == 3 and item[2] == N and \
                item[1][0] in ("call", "callv") and item[1][2] == (N,)
            pops = [st_ for st_ in subterms(NODE)
                    if st_[0] == "callv" and show(st_[1]).endswith("heappop")]
            ok2 = ok2 and len(pops) == 1 and NODE == ("comp", pops[0], 1)
    rep.check(ok2, "C03-R3", inst, "the hop recorded for the neighbour is "
              "(the tested link, the node taken from the queue), and the "
              "neighbour is queued", construct="A* recorded hop", node=fn)
    # R4: neighbour arithmetic
    ok4 = N is not None and N[0] == "tuple" and len(N) == 3
    detail = show(N) if N is not None else "?"
    if ok4:
        VEC = None
        for st_ in subterms(N):
            if st_[0] in ("call", "callv") and st_[1][0] == "attr" and \
                    st_[1][2] == "to_vector":
                VEC = st_
        ok4 = VEC is not None and VEC[1][1] == ("attr", LINK, "opposite")
        if ok4:
            for i, dim in ((0, "width"), (1, "height")):
                want_a = ("binop", "Mod", ("binop", "Add",
                                           T._comp(NODE, i, 2),
                                           T._comp(VEC, i, 2)),
                          ("attr", MACH, dim))
                want_b = ("binop", "Mod", ("binop", "Add",
                                           T._comp(VEC, i, 2),
                                           T._comp(NODE, i, 2)),
                          ("attr", MACH, dim))
                ok4 = ok4 and N[1 + i] in (want_a, want_b)
    rep.check(ok4, "C03-R4", inst, "neighbour = (node + vector of the "
              "opposite link) taken modulo (width, height) respectively - "
              "the chip from which `neighbour_link` leads to `node`",
              construct="A* neighbour", node=fn,
              fail="the neighbour coordinate is %s: not (node + "
                   "opposite-link vector) modulo (machine.width, "
                   "machine.height); on a non-square machine hops between "
                   "non-adjacent chips are produced" % detail[:200])
    lp = [n for n in ast.walk(fn) if isinstance(n, ast.For) and
          T.term(n.iter, cfg.loop_head[id(n)]) == ("global", "Links")]
    if not lp:
        raise AnalysisError("a_star: the loop over the six links was not "
                            "found in the form analysed")
    rep.check(len(lp) == 1 and not any(
        isinstance(x, ast.Break) for x in ast.walk(lp[0])),
        "C03-R3", inst, "all six links are tried from every node",
        construct="A* link loop", node=fn)
    # every entry of the returned path pairs a chip with the link recorded
    # for that chip
    okp = False
    rets = [r for r in returns_of(fn) if r.value is not None]
    if len(rets) == 1 and VIS is not None:
        PATH = T.term(rets[0].value)
        entries = []
        if PATH[0] == "new" and PATH[2][0] == "list":
            entries += list(PATH[2][1:])
        for n_, c, recv, args in method_calls(T, "append"):
            if recv == PATH and len(args) == 1:
                entries.append(args[0])
        okp = len(entries) >= 1
        for e in entries:
            m = match(("tuple", ("call", ("global", "Routes"),
                                 (("comp", ("item", VIS, V("x")), 0),), ()),
                       V("x")), e)
            okp = okp and m is not None
        # ... each next chip is the predecessor recorded for the last one
    rep.check(okp, "C03-R3", inst, "the path returned pairs every chip with "
              "the link recorded for it when it was reached",
              construct="A* path", node=fn)
    oks = False
    for b_ in T.binds:
        if b_.mode == "assign" and b_.value is not None and NODE is not None \
                and T.term(b_.value, b_.node) == NODE and \
                (mk_cmp("In", NODE, SOURCES), True) in T.all_facts(b_.node):
            oks = True
    rep.check(oks, "C03-R3", inst, "the search stops only at a chip of the "
              "permitted target set", construct="A* termination", node=fn)


def r3_copy(program, rep):
    # copy_and_disconnect_tree
    cp = program.get(NER + ":copy_and_disconnect_tree")
    C = Terms(cp)
    MACH2 = ("param", formals(cp)[1])
    att = [x for x in all_method_calls(C, "append")
           if x[3][0] == "attr" and x[3][2] == "children" and len(x[4]) == 1
           and x[4][0][0] == "tuple" and len(x[4][0]) == 3]
    brk = [x for x in all_method_calls(C, "add") if len(x[4]) == 1 and
           x[4][0][0] == "tuple" and len(x[4][0]) == 3]
    if len(att) != 1 or len(brk) != 1:
        raise AnalysisError("copy_and_disconnect_tree: the attach / record-"
                            "as-broken pair was not found in the form "
                            "analysed")
    okc = True
    if okc:
        av, an, _, recv, (item,) = att[0]
        NP, DIR, NN = recv[1], item[1], item[2]
        # the child's chip: of the new node, or of the old node the new one
        # is a copy of (RoutingTree(old.chip).chip is old.chip)
        chips_ = [("attr", NN, "chip")]
        for st_ in [y for x in alternatives(NN) for y in subterms(x)]:
            if st_[0] == "callv" and st_[1] == ("global", "RoutingTree") \
                    and len(st_[2]) == 1 and st_[2][0][0] == "attr" and \
                    st_[2][0][2] == "chip" and st_[2][0] not in chips_:
                chips_.append(st_[2][0])
        guards = [mk_cmp("In", DIR, ("call", ("global", "links_between"),
                                     (("attr", NP, "chip"), ch_, MACH2), ()))
                  for ch_ in chips_]
        bv, bn, _, _, (pair,) = brk[0]
        fa_, fb_ = facts_at(av, an), facts_at(bv, bn)
        if not any(st_[0] in ("call", "callv") and
                   st_[1] == ("global", "links_between")
                   for t_, p_ in fa_ + fb_ for st_ in subterms(t_)):
            # whether a hop works is decided some other way than by
            # membership in links_between(...): not read here
            raise AnalysisError("copy_and_disconnect_tree: the test that a "
                                "hop is a working link does not use "
                                "links_between(parent, child, machine)")
        okc = any((g_, True) in fa_ and (g_, False) in fb_
                  for g_ in guards) and \
            pair in [("tuple", ("attr", NP, "chip"), ch_) for ch_ in chips_]
    rep.check(okc, "C03-R3", qual(cp), "a child is attached iff its own hop "
              "direction is one of the working links from the parent's chip "
              "to the child's chip; otherwise the pair is recorded as "
              "broken (no path does neither)",
              construct="copy attach guard", node=cp,
              fail="the copy does not test that the hop's own direction is "
                   "among links_between(parent, child, machine): where two "
                   "different links join the same pair of chips (2xN, 1xN "
                   "tori) a dead link stays on the tree")
    okd = False
    if okc:
        OLD = None
        for st_ in [y for x in alternatives(NN) for y in subterms(x)]:
            if st_[0] == "callv" and st_[1] == ("global", "RoutingTree") \
                    and len(st_[2]) == 1 and st_[2][0][0] == "attr" and \
                    st_[2][0][2] == "chip":
                OLD = st_[2][0][1]
        alive = mk_cmp("In", ("attr", OLD, "chip"), MACH2) if OLD else None
        if OLD is None:
            raise AnalysisError("copy_and_disconnect_tree: where copies of "
                                "nodes are made")
        ROOT = ("param", formals(cp)[0])
        n_new = n_up = 0
        okd = True
        for b_ in C.binds:
            if b_.mode != "assign" or b_.value is None:
                continue
            v = C.term(b_.value, b_.node)
            if v[0] == "callv" and v[1] == ("global", "RoutingTree"):
                if v[2] == (("attr", ROOT, "chip"),):
                    continue        # the root (must be alive) is always kept
                n_new += 1
                okd = okd and (alive, True) in C.all_facts(b_.node)
            elif v == NP and (alive, False) in C.all_facts(b_.node):
                n_up += 1
        reg = [x for x in stores(C) if x[4][0] == "callv" and
               x[4][1] == ("global", "RoutingTree") and
               x[3] == ("attr", x[4], "chip") and
               x[4][2] != (("attr", ROOT, "chip"),)]
        if n_new != 1 or n_up != 1 or len(reg) != 1:
            raise AnalysisError("copy_and_disconnect_tree: the copy / skip "
                                "of a node was not found in the form "
                                "analysed")
        okd = okd and (alive, True) in C.all_facts(reg[0][0])
    rep.check(okd, "C03-R3", qual(cp), "dead chips are dropped from the "
              "copy (their children move up to the parent); only live "
              "chips get nodes", construct="copy dead chips", node=cp)
    okq = False
    if okc:
        q = [x for x in method_calls(C, ("append", "extend"))
             if x[2][0] == "new" and x[3]]
        # the queue may also be created from the root's children
        seeds = [b_ for b_ in C.binds if b_.mode == "assign" and
                 b_.value is not None]
        for n_, c, recv, args in q:
            item = args[0]
            if c.func.attr == "extend":
                built = C.filtered(item)
                if not built or len(built) != 1 or built[0][2]:
                    continue
                it, item = built[0][0], built[0][1]
            E = None
            m = match(("tuple", V("nn"), ("comp", V("E"), 0),
                       ("comp", V("E"), 1)), item)
            if m is not None and m["E"][0] == "elem" and \
                    m["E"][1][0] == "attr" and m["E"][1][2] == "children" \
                    and m["nn"] == NN:
                okq = True
    rep.check(okq, "C03-R3", qual(cp), "every child of every node is "
              "visited with its own direction", construct="copy traversal",
              node=cp)
    rep.floor("C03-R3", 8)


def r5_reconnect(program, rep):
    fn = program.get(NER + ":avoid_dead_links")
    inst = qual(fn)
    T = Terms(fn)
    cfg = T.cfg
    ps = formals(fn)
    cd = calls_in(fn, "copy_and_disconnect_tree")
    if len(cd) != 1:
        raise AnalysisError("avoid_dead_links: copy_and_disconnect_tree")
    COPY = T.term(cd[0])
    ROOT, LOOKUP, BROKEN = [T._comp(COPY, i, 3) for i in range(3)]
    okc = [T.term(a) for a in cd[0].args] == [("param", ps[0]),
                                              ("param", ps[1])]
    rets = [T.term(r.value) for r in returns_of(fn) if r.value is not None]
    okc = okc and rets == [("tuple", ROOT, LOOKUP)]
    PARENT, CHILD = ("comp", ("elem", BROKEN), 0), ("comp", ("elem", BROKEN),
                                                    1)
    SUB = ("item", LOOKUP, CHILD)
    st = calls_in(fn, "a_star")
    ok = len(st) == 1
    EXCL = None
    if ok:
        sn = cfg.node_containing(st[0])
        a = [T.term(x, sn) for x in st[0].args]
        ok = len(a) >= 3 and a[0] == CHILD and a[1] == PARENT
        if ok:
            m = match(("call", ("attr", ("call", ("global", "set"),
                                         (plain(LOOKUP),), ()),
                                "difference"),
                       (V("x"),), ()), plain(a[2]))
            if m is not None:
                EXCLp = m["x"]
                EXCL = a[2][2][0]
            else:
                # set(lookup) - <excluded>
                m = match(("binop", "Sub", ("call", ("global", "set"),
                                            (plain(LOOKUP),), ()), V("x")),
                          plain(a[2]))
                if m is None:
                    raise AnalysisError("avoid_dead_links: the search "
                                        "targets are not set(lookup) less a "
                                        "set of chips; not analysed")
                EXCLp = m["x"]
                EXCL = a[2][3]
    rep.check(ok, "C03-R5", inst, "each orphan is reconnected by a search "
              "from its root towards its former parent, to any node of the "
              "tree except a set of excluded chips",
              construct="a_star arguments", node=fn)
    okx = False
    if ok:
        # (set(<generator>) and the set comprehension are one term)
        want = ("setcomp", ("attr", ("elem", SUB), "chip"), ((SUB, ()),))
        okx = plain(EXCL) == plain(want)
        if not okx:
            # ... or the same set filled by a loop over the sub-tree
            try:
                built_ = T.filtered(EXCL)
            except AnalysisError:
                built_ = None
            if built_ and len(built_) == 1:
                okx = plain(built_[0][0]) == plain(SUB) and \
                    plain(built_[0][1]) == ("attr", ("elem", plain(SUB)),
                                            "chip") and not built_[0][2]
            elif plain(EXCL)[0] not in ("item", "get") and any(
                    st_ == ("elem", BROKEN) for st_ in subterms(EXCL)):
                # (a look-up in a table is a set prepared beforehand: stale)
                # computed for this orphan, in a form not read here
                raise AnalysisError("avoid_dead_links: the chips excluded "
                                    "from the reconnection targets are "
                                    "computed in a form these rules do not "
                                    "read")
    rep.check(okx, "C03-R5", inst, "the excluded chips are the chips of the "
              "orphan's own sub-tree, recomputed from the live tree for "
              "every orphan (earlier repairs may have grafted other orphans "
              "into it)", construct="excluded chips", node=fn,
              fail="the chips excluded from the reconnection targets are "
                   "not recomputed from the live tree for each orphan: "
                   "after one orphan has been grafted into another, the "
                   "second can be reconnected to its own descendant - a "
                   "cycle detached from the root")
    # detach-before-attach of an existing node
    okd = False
    dom = "?"
    attach = [x for x in method_calls(T, "append")
              if x[2][0] == "attr" and x[2][2] == "children" and
              len(x[3]) == 1 and x[3][0][0] == "tuple" and
              len(x[3][0]) == 3 and any(
                  lookup(y) is not None and lookup(y)[0] == LOOKUP
                  for y in alternatives(x[3][0][2]))]
    rms = []
    for c in ast.walk(fn):
        if isinstance(c, ast.Call) and isinstance(c.func, ast.Attribute) \
                and c.func.attr == "remove" and len(c.args) == 1:
            for view in owner_views(T, c):
                rn_in = view.cfg.node_containing(c)
                recv = view.term(c.func.value, rn_in)
                # the statement of avoid_dead_links that performs it
                site = c if view is T else view.call
                rms.append((c, view, recv, site))
    grafts = [x for x in attach if x[3][0][2] != SUB]
    if len(rms) != 1:
        # detached some other way (del x.children[i], pop, a rebuilt list)?
        # then the search is not in the form read here; with no detaching
        # operation at all the report below stands
        other = [n_ for n_ in ast.walk(fn) if (
            isinstance(n_, ast.Delete) and any(
                isinstance(t_, ast.Subscript) and
                isinstance(t_.value, ast.Attribute) and
                t_.value.attr == "children" for t_ in n_.targets)) or (
            isinstance(n_, ast.Call) and
            isinstance(n_.func, ast.Attribute) and
            n_.func.attr in ("pop", "remove", "clear") and
            isinstance(n_.func.value, ast.Attribute) and
            n_.func.value.attr == "children") or (
            isinstance(n_, (ast.Assign, ast.AugAssign)) and any(
                isinstance(t_, ast.Attribute) and t_.attr == "children"
                for t_ in (n_.targets if isinstance(n_, ast.Assign)
                           else [n_.target])))]
        if other or len(rms) > 1:
            raise AnalysisError("avoid_dead_links: a node is detached from "
                                "its previous parent in a form these rules "
                                "do not analyse")
    if len(grafts) == 1 and len(rms) == 1 and EXCL is not None:
        an = grafts[0][0]
        c, view, recv, site = rms[0]
        rn = cfg.node_containing(site)
        dom = show(recv[1][1]) if recv[0] == "attr" and \
            recv[1][0] == "elem" else show(recv)
        whole = recv[0] == "attr" and recv[2] == "children" and \
            recv[1] == ("elem", ("values", LOOKUP))
        CHIP = None
        for t, p_ in T.all_facts(rn):
            if t[0] == "cmp" and t[1] == "In" and t[3] == EXCL and p_:
                CHIP = t[2]
        lp = _loop_of(grafts[0][1])
        okd = whole and CHIP is not None and cfg.reaches(rn, an) and \
            not cfg.reaches(an, rn, avoid=[cfg.loop_head[id(lp)]])
        if okd:
            # what is removed is the edge to the node being grafted
            NEW = ("item", LOOKUP, CHIP)
            item = view.term(c.args[0], view.cfg.node_containing(c))
            edges = [st_ for st_ in subterms(item)
                     if st_[0] == "cmp" and st_[1] in ("Eq", "Is") and
                     NEW in (st_[2], st_[3])]
            if not edges:
                # the list of matching edges filled by a loop instead of a
                # comprehension: the same filter, read off the loop (in the
                # nested helper's own terms when the removal lives there)
                own = T if view is T else view.t
                raw = own.term(c.args[0], own.cfg.node_containing(c))
                for st_ in subterms(raw):
                    if st_[0] != "new":
                        continue
                    built_ = own.filtered(st_)
                    for it__, el__, conds__ in (built_ or []):
                        for c__, p__ in conds__:
                            if view is not T:
                                c__ = view._x(c__)
                            if p__ and c__[0] == "cmp" and \
                                    c__[1] in ("Eq", "Is") and \
                                    NEW in (c__[2], c__[3]):
                                edges.append(c__)
            okd = bool(edges)
    if not okd and dom == "?" and rms:
        # a removal exists but the grafting loop is not in the form read
        # here (one append of the node just resolved, one removal)
        raise AnalysisError("avoid_dead_links: the detour is grafted in a "
                            "form these rules do not read (%d graft site(s), "
                            "%d removal(s))" % (len(grafts), len(rms)))
    rep.check(okd, "C03-R5", inst, "a node of the orphan that the detour "
              "passes through is first detached from its previous parent, "
              "which is searched for among every node of the tree",
              construct="old-parent search over %s" % dom, node=fn,
              fail="the previous parent of a node the detour passes through "
                   "is searched for in '%s' only - not among all nodes of "
                   "the tree: a parent already severed from the orphan "
                   "earlier along the detour is not found, the node keeps "
                   "it and its chip appears twice in the tree" % dom)
    rep.assume("every non-root node of a routing tree has exactly one parent "
               "and every node is registered in the lookup (so the search "
               "over lookup.values() finds it)")
    # new nodes are registered; the orphan root is attached at the end
    okn = False
    if EXCL is not None:
        regs = [x for x in stores(T) if x[2] == LOOKUP and
                x[4][0] == "callv" and x[4][1] == ("global", "RoutingTree")
                and x[4][2] == (x[3],)]
        okn = len(regs) == 1 and (mk_cmp("In", regs[0][3], EXCL), False) in \
            T.all_facts(regs[0][0])
        final = [x for x in attach if x[3][0][2] == SUB]
        okn = okn and len(final) == 1 and not _inside(
            final[0][1], _loop_of(grafts[0][1]) if grafts else None)
    rep.check(okn, "C03-R5", inst, "new detour nodes are registered in the "
              "lookup; the detour ends by attaching the orphan's root",
              construct="detour splice", node=fn)
    rep.check(okc, "C03-R5", inst, "the repair works on the disconnecting "
              "copy and returns its root with its lookup",
              construct="repair frame", node=fn)
    rep.floor("C03-R5", 5)


def _loop_of(node):
    n = getattr(node, "_parent", None)
    while n is not None and not isinstance(n, (ast.For, ast.While)):
        n = getattr(n, "_parent", None)
    return n


def r6_truncation(program, rep):
    fn = program.get(NER + ":ner_net")
    inst = qual(fn)
    T = Terms(fn)
    fl = T.flow
    cfg = T.cfg
    ps = formals(fn)      # source, destinations, width, height, ...
    SRC = ("param", ps[0])
    ldfs = [c for c in calls_in(fn, "longest_dimension_first")]
    if len(ldfs) != 1:
        raise AnalysisError("ner_net: longest_dimension_first")
    LDF0 = T.term(ldfs[0])
    rets = [T.term(r.value) for r in returns_of(fn) if r.value is not None]
    ROUTE = rets[0][2] if len(rets) == 1 and rets[0][0] == "tuple" and \
        len(rets[0]) == 3 else None
    cuts = [b_ for b_ in T.binds if b_.mode == "assign" and
            isinstance(b_.value, ast.Subscript) and
            isinstance(b_.value.slice, ast.Slice) and
            T.term(b_.value.value, b_.node) == LDF0]
    if not cuts and any(
            isinstance(n_, ast.Delete) and any(
                isinstance(t_, ast.Subscript) for t_ in n_.targets)
            for n_ in ast.walk(fn)):
        # the path is trimmed in place (del path[:i + 1]) instead of being
        # re-bound to its tail: that form is not read
        raise AnalysisError("ner_net: the new path is trimmed in place by a "
                            "del statement; which part is kept is not read "
                            "off that form")
    ok = len(cuts) == 1 and ROUTE is not None
    if ok:
        d = cuts[0]
        sl = d.value.slice
        lp = d.node.ast._parent
        while lp is not None and not isinstance(lp, ast.For):
            lp = lp._parent
        ok = lp is not None and sl.upper is None and sl.step is None and \
            sl.lower is not None
    if ok:
        head = cfg.loop_head[id(lp)]
        it = plain(T.term(lp.iter, head))
        LO = T.term(sl.lower, d.node)
        facts = T.all_facts(d.node)
        on_tree = [t[2] for t, p_ in facts if p_ and t[0] == "cmp" and
                   t[1] == "In" and t[3] == ROUTE]
        L0 = plain(LDF0)
        n_len = ("call", ("global", "len"), (L0,), ())
        down = ("call", ("global", "range"),
                (("binop", "Sub", n_len, ("const", 1)), ("const", -1),
                 ("const", -1)), ())
        if it == down:
            # index scan from the far end
            I = T.term(lp.target, head) if isinstance(
                lp.target, ast.Name) else None
            I = ("elem", T.term(lp.iter, head))
            pt = ("comp", ("item", LDF0, I), 1)
            ok = LO in (("binop", "Add", I, ("const", 1)),
                        ("binop", "Add", ("const", 1), I)) and \
                any(plain(x) == plain(pt) for x in on_tree)
        elif it == ("call", ("global", "reversed"), (L0,), ()):
            # element scan from the far end with a position counter
            names = [n.id for n in ast.walk(sl.lower)
                     if isinstance(n, ast.Name)]
            ok = len(names) == 1
            if ok:
                v = names[0]
                lo = fl.sym(sl.lower, d.node)
                ok = lo == fl.symvar(v, d.node) + 1
                # the position counter: starts at len(path), goes down by
                # one per element looked at (`i -= 1` or `i = i - 1`)
                vb = [b_ for b_ in T.binds if b_.var == v and
                      b_.mode in ("assign", "aug")]
                decs = [b_ for b_ in vb if _inside(b_.node.ast, lp)]
                init = [b_ for b_ in vb if not _inside(b_.node.ast, lp)]
                others = [b_ for b_ in T.binds if b_.var == v and
                          b_.mode not in ("assign", "aug")]
                ok = ok and len(decs) == 1 and not others and len(init) == 1
                if ok:
                    dt = plain(T._bind_term(decs[0]))
                    cur = plain(T.term(ast.Name(id=v, ctx=ast.Load()),
                                       decs[0].node))
                    ok = dt == ("binop", "Sub", cur, ("const", 1)) and \
                        cfg.dominates(decs[0].node, d.node) and \
                        plain(T._bind_term(init[0])) == n_len
                E = T._elem(T.term(lp.iter, head))
                ok = ok and any(plain(x) == plain(("comp", E, 1))
                                for x in on_tree)
        else:
            raise AnalysisError("ner_net: the scan for the last point "
                                "already on the tree is written in a form "
                                "this rule does not know")
        brk = [n for n in ast.walk(lp) if isinstance(n, ast.Break)]
        nb = [b_ for b_ in T.binds if b_.mode == "assign" and
              _inside(b_.node.ast, lp) and b_.value is not None and
              any(plain(T.term(b_.value, b_.node)) == plain(x)
                  for x in on_tree)]
        ok = ok and len(brk) == 1 and len(nb) >= 1 and \
            cfg.dominates(d.node, cfg.stmt_node.get(id(brk[0]), d.node)) \
            if brk else False
    rep.check(ok, "C03-R6", inst, "the new path is cut just after its LAST "
              "point already on the tree (scanning from the far end), and "
              "continues from that tree node", construct="truncation",
              node=fn)
    # every retained hop adds a fresh node under the previous one
    okn = False
    site_read = False
    if ROUTE is not None:
        for n_, c, recv, args in method_calls(T, "append"):
            if not (recv[0] == "attr" and recv[2] == "children" and
                    len(args) == 1 and args[0][0] == "tuple" and
                    len(args[0]) == 3):
                continue
            THIS = args[0][2]
            m = match(("callv", ("global", "RoutingTree"),
                       (("comp", V("E"), 1),), (), ANY), THIS)
            if m is None or m["E"][0] != "elem":
                continue
            site_read = True
            E = m["E"]
            hop_ok = plain(args[0][1]) == ("call", ("global", "Routes"),
                                           (("comp", plain(E), 0),), ())
            reg = [x for x in stores(T) if x[2] == ROUTE and x[4] == THIS
                   and x[3] == ("comp", E, 1)]
            LAST = recv[1]
            if LAST[0] not in ("mu", "phi"):
                # the parent of each new node is not a variable carried
                # round the loop (a list of parents made beforehand, ...)
                raise AnalysisError("ner_net: the node each hop hangs from "
                                    "is not carried from hop to hop; not "
                                    "analysed")
            alts = alternatives(LAST)
            starts = [x for x in alts if lookup(x) is not None and
                      lookup(x)[0] == ROUTE]
            okn = hop_ok and len(reg) == 1 and THIS in alts and \
                len(starts) == 1 and all(x in (THIS, starts[0], ("rec",))
                                         for x in alts) and \
                LDF0 in alternatives(E[1]) + [E[1]]
    if ROUTE is not None and not site_read:
        # no `<node>.children.append((Routes(direction), RoutingTree(xy)))`
        # over the hops of the path: the splice is written some other way
        raise AnalysisError("ner_net: the retained hops are spliced into the "
                            "tree in a form this rule does not read")
    rep.check(okn, "C03-R6", inst, "every retained hop adds a fresh node, "
              "registered in the tree's lookup, under the previous node with "
              "the hop's direction", construct="path splice", node=fn)
    okr = ROUTE is not None and rets[0][1] == ("item", ROUTE, SRC)
    if okr:
        init = plain(ROUTE)
        okr = init == ("dict", ((SRC, ("call", ("global", "RoutingTree"),
                                        (SRC,), ())),))
        b_ = bind(ldfs[0], program.get(
            "rig.place_and_route.route.utils:longest_dimension_first"))
        n_ = cfg.node_containing(ldfs[0])
        start = T.term(b_["start"], n_)
        okr = okr and SRC in alternatives(start) and \
            T.term(b_["width"], n_) == ("param", ps[2]) and \
            T.term(b_["height"], n_) == ("param", ps[3])
    rep.check(okr, "C03-R6", inst, "the tree starts at the source; a path "
              "is walked longest-dimension-first from the chosen neighbour; "
              "the fallback neighbour is the source",
              construct="net frame", node=fn)


def r7_raises(program, rep):
    names = set()
    for q, fn in program.functions(NER):
        for r in raises_of(fn):
            if raise_name(r):
                names.add(raise_name(r))
    rep.check(names <= {"MachineHasDisconnectedSubregion"}, "C03-R7", NER,
              "the router's only explicit failure is "
              "MachineHasDisconnectedSubregion", construct="raises %s" %
              sorted(names))
    a = program.get(NER + ":a_star")
    # on every path to the raise no node taken from the queue was one of the
    # permitted targets; on every path to the return one was (whether that is
    # remembered in a variable, by a break, or by the loop's else clause)
    from ..pathstate import Paths, Client
    TA = Terms(a)
    SOURCES = ("param", formals(a)[2])

    class _Found(Client):
        def __init__(self):
            self.at_raise, self.at_ret = set(), set()

        def start(self):
            return ("no target met",)   # else: the target met (a term)

        def step(self, view, n, env, mon):
            if n.kind == "assume":
                try:
                    t, p = view.cond(n.ast, n, n.polarity)
                except AnalysisError:
                    return mon
                if p and t[0] == "cmp" and t[1] == "In" and \
                        t[3] == SOURCES:
                    return t[2]
            if view is not TA:
                return mon      # inside a nested helper
            if n.kind == "stmt" and isinstance(n.ast, ast.Raise):
                self.at_raise.add(mon != self.start())
            if n.kind == "stmt" and isinstance(n.ast, ast.Return):
                self.at_ret.add(mon != self.start())
            return mon

        def tag(self, view, node, term, env, mon):
            # a member of the target set is a chip coordinate, not None
            return "NN" if mon != self.start() and term == mon else None
    cl = _Found()
    Paths(TA, cl).run(TA, TA.cfg.entry, {}, cl.start())
    if not cl.at_raise or not cl.at_ret:
        raise AnalysisError("a_star: raise / return not reached in the "
                            "exploration")
    ok = cl.at_raise == {False} and cl.at_ret == {True}
    rep.assume("the permitted targets of a_star are chip coordinates (None "
               "is not among them)")
    rep.check(ok, "C03-R7", qual(a), "it is raised only when the search "
              "exhausted every reachable chip without meeting the tree",
              construct="disconnected condition", node=a)


r3_copy.helper_aware = True

def check(program, rep):
    program.module(NER)
    rep.guard("C03-R1", r1_leaves, program, rep)
    rep.guard("C03-R2", r2_repair, program, rep)
    rep.guard("C03-R1", r1_neighbour, program, rep)
    rep.guard(["C03-R3", "C03-R4"], r3_growth, program, rep)
    rep.guard("C03-R3", r3_copy, program, rep)
    rep.guard("C03-R5", r5_reconnect, program, rep)
    rep.guard("C03-R6", r6_truncation, program, rep)
    rep.guard("C03-R7", r7_raises, program, rep)
    # a tree shared between nets collects the leaves of both (C01-R3)
    from . import C01
    rep.guard("C01-R3", C01.tree_per_net, program, rep)
    # the hops added for a destination follow the vector from the chip the
    # walk starts at (C11-R5)
    from . import C11
    rep.guard("C11-R5", C11.r5_walk_vector, program, rep)
    # ... and the walk itself lands on the chips the links lead to, wrapped
    # per axis, and the search rings are the chips at that distance (C11-R2):
    # a walk that lands elsewhere leaves the tree disconnected
    from ..constfold import Folder as _Folder
    rep.guard("C11-R2", C11.r2_walk, program, _Folder(program), rep)
    # arguments handed to package functions under the wrong name / same-
    # named optional parameters not passed on (NAMELINK, DESIGN.md 9.13)
    from .. import namelink as _nl
    rep.guard("C03-R7", _nl.rule, program, rep, "C03-R7",
              [m for m in sorted(program.modules) if m.startswith("rig.place_and_route")])
    return finish(rep, program, EXPLANATION, NOT_DECIDED,
                  trusted=["link vectors and opposites as verified by C11"])
