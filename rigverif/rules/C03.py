"""C03 - routing trees are loop-free, connected and use only live hardware.

R1 leaf attachment in route()
R2 the repair is used whenever a dead link is on the tree
R3 liveness-guarded growth (A* and the disconnecting copy)
R4 hop consistency (neighbour arithmetic modulo the right dimension)
R5 no self-reconnection; an existing node is detached before it is
   re-attached
R6 truncation at first contact; fresh nodes registered
R7 only the documented failure
"""
import ast

from ..core import AnalysisError, finish, unparse
from ..dataflow import Flow, chain, call_name
from ..poly import Poly
from ..util import calls_in, qual, formals, returns_of, raises_of, \
    raise_name, has_fact

NER = "rig.place_and_route.route.ner"

EXPLANATION = (
    "Dominance, must-pass-through and def-use facts over ner.route, "
    "ner_net, a_star, copy_and_disconnect_tree and avoid_dead_links: the "
    "node a leaf is attached to is looked up in the lookup table that "
    "belongs to the final tree (root and lookup are rebound together); the "
    "repair runs whenever route_has_dead_links is true, which it is for "
    "every tree hop not in the machine; A* extends only over a link that is "
    "in the machine at the neighbour's end and to unvisited chips, and its "
    "neighbour coordinates are (node + vector of the opposite link) modulo "
    "(width, height) - symbolic normal forms; the copy attaches a child only "
    "if its own direction is among the working links between the two chips "
    "and otherwise records the broken pair; the reconnection targets "
    "exclude the current orphan's chips, recomputed from the live tree for "
    "every orphan; an existing node must be detached from its old parent on "
    "every path before it is attached to a new one.")
NOT_DECIDED = [
    "global acyclicity / connectivity after several repairs interact "
    "(depends on the contents of the trees)",
    "completeness: success whenever the machine is connected",
    "optimality of the routes",
]


def _inside(node, anc):
    n = node
    while n is not None:
        if n is anc:
            return True
        n = getattr(n, "_parent", None)
    return False


def r1_leaves(program, rep):
    fn = program.get(NER + ":route")
    inst = qual(fn)
    fl = Flow(fn)
    cfg = fl.cfg
    nl = [n for n in ast.walk(fn) if isinstance(n, ast.For) and
          unparse(n.iter) == "nets"]
    if len(nl) != 1:
        raise AnalysisError("route: per-net loop")
    net_loop = nl[0]
    nn = calls_in(fn, "ner_net")
    ok = len(nn) == 1 and [unparse(a) for a in nn[0].args] == [
        "placements[net.source]",
        "set((placements[sink] for sink in net.sinks))", "machine.width",
        "machine.height", "wrap_around", "radius"]
    rep.check(ok, "C03-R1", inst, "the tree of a net is grown from the chip "
              "of its source to the chips of its sinks, on this machine's "
              "dimensions", construct="ner_net arguments", node=fn)
    # root / lookup rebound together
    pairs = []
    for d in fl.defs:
        if d.var in ("root", "lookup") and d.mode == "unpack":
            pairs.append((d.var, d.node.id, unparse(d.value.func)))
    by_node = {}
    for v, nid, f in pairs:
        by_node.setdefault(nid, set()).add(v)
    ok = len(by_node) == 2 and all(s == {"root", "lookup"}
                                   for s in by_node.values())
    rep.check(ok, "C03-R1", inst, "root and lookup are always (re)bound "
              "together from one call, so the lookup used for leaves "
              "belongs to the tree returned", construct="root/lookup pair",
              node=fn,
              fail="root and lookup are not rebound together: leaves can be "
                   "attached to nodes of a tree that is not the one "
                   "returned")
    sl = [n for n in ast.walk(net_loop) if isinstance(n, ast.For) and
          unparse(n.iter) == "net.sinks"]
    ok = len(sl) == 1
    if ok:
        tn = [d for d in fl.defs if d.var == "tree_node"]
        ok = len(tn) == 1 and unparse(tn[0].value) == \
            "lookup[placements[sink]]" and _inside(tn[0].node.ast, sl[0])
    rep.check(ok, "C03-R1", inst, "each sink's leaf hangs on the tree node "
              "of the chip the sink was placed on",
              construct="leaf node lookup", node=fn)
    aps = [c for c in calls_in(fn, "append")
           if unparse(call_name(c)[1]) == "tree_node.children"]
    forms = {}
    for c in aps:
        f = fl.facts(cfg.node_containing(c))
        key = tuple(sorted((unparse(x), p) for x, p, _ in f
                           if "route_to_endpoint" in unparse(x) or
                           "cores" in unparse(x)))
        forms[key] = unparse(c.args[0])
    ok = forms.get((("sink in route_to_endpoint", True),)) == \
        "(route_to_endpoint[sink], sink)" and \
        forms.get((("cores is not None", True),
                   ("sink in route_to_endpoint", False))) == \
        "(Routes.core(core), sink)" and \
        forms.get((("cores is not None", False),
                   ("sink in route_to_endpoint", False))) == "(None, sink)"
    rep.check(ok, "C03-R1", inst, "leaf route = the endpoint constraint's "
              "route if there is one, else one core route per allocated "
              "core, else none", construct="leaf routes %s" % sorted(
                  forms.values()), node=fn)
    cl = [n for n in ast.walk(net_loop) if isinstance(n, ast.For) and
          unparse(n.iter) == "range(cores.start, cores.stop)"]
    cd = [d for d in fl.defs if d.var == "cores"]
    ok = len(cl) == 1 and len(cd) == 1 and unparse(cd[0].value) == \
        "allocations.get(sink, {}).get(core_resource, None)"
    rep.check(ok, "C03-R1", inst, "core routes cover exactly [cores.start, "
              "cores.stop) of the sink's own allocation",
              construct="core range", node=fn)
    st = [s for s in ast.walk(net_loop) if isinstance(s, ast.Assign) and
          unparse(s.targets[0]) == "routes[net]"]
    ok = len(st) == 1 and unparse(st[0].value) == "root"
    rets = returns_of(fn)
    ok = ok and len(rets) == 1 and unparse(rets[0].value) == "routes"
    ep = [s for s in ast.walk(fn) if isinstance(s, ast.Assign) and
          unparse(s.targets[0]) == "route_to_endpoint[constraint.vertex]"]
    ok = ok and len(ep) == 1 and unparse(ep[0].value) == "constraint.route"
    rep.check(ok, "C03-R1", inst, "routes[net] is that net's root; endpoint "
              "routes come from the vertex's RouteEndpointConstraint",
              construct="result map", node=fn)
    rep.floor("C03-R1", 6)


def r2_repair(program, rep):
    fn = program.get(NER + ":route")
    fl = Flow(fn)
    cfg = fl.cfg
    av = calls_in(fn, "avoid_dead_links")
    ok = len(av) == 1 and [unparse(a) for a in av[0].args] == [
        "root", "machine", "wrap_around"]
    if ok:
        f = fl.facts(cfg.node_containing(av[0]))
        ok = has_fact(f, "route_has_dead_links(root, machine)", True)
        # and nothing but that test decides: the false edge skips only the
        # repair
    rep.check(ok, "C03-R2", qual(fn), "a tree with a dead link is repaired "
              "(avoid_dead_links on the same root and machine) before "
              "leaves are attached", construct="repair call", node=fn)
    rh = program.get(NER + ":route_has_dead_links")
    rfl = Flow(rh)
    trues = [r for r in returns_of(rh) if isinstance(r.value, ast.Constant)
             and r.value.value is True]
    ok = len(trues) == 1
    if ok:
        f = rfl.facts(rfl.cfg.node_of(trues[0]))
        lps = [n for n in ast.walk(rh) if isinstance(n, ast.For)]
        ok = has_fact(f, "(x, y, route) not in machine", True) and \
            len(lps) == 2 and unparse(lps[0].iter) == "root.traverse()" and \
            unparse(lps[0].target) == "(direction, (x, y), routes)" and \
            unparse(lps[1].iter) == "routes" and \
            not any(isinstance(n, (ast.Break, ast.Continue))
                    for n in ast.walk(rh))
    rep.check(ok, "C03-R2", qual(rh), "route_has_dead_links is true for "
              "every (chip, out direction) of the tree that is not in the "
              "machine (all nodes, all directions)",
              construct="dead link detection", node=rh)


def r3_growth(program, rep):
    fn = program.get(NER + ":a_star")
    inst = qual(fn)
    fl = Flow(fn)
    cfg = fl.cfg
    st = [s for s in ast.walk(fn) if isinstance(s, ast.Assign) and
          isinstance(s.targets[0], ast.Subscript) and
          chain(s.targets[0].value) == "visited" and
          chain(s.targets[0].slice) == "neighbour"]
    ok = len(st) == 1
    if ok:
        node = cfg.node_of(st[0])
        f = fl.facts(node)
        ok = has_fact(f, "(neighbour[0], neighbour[1], neighbour_link) not "
                         "in machine", False) and \
            has_fact(f, "neighbour in visited", False)
    rep.check(ok, "C03-R3", inst, "A* extends to a neighbour only over a "
              "link that is in the machine at the neighbour's end (the "
              "direction packets will travel) and only to unvisited chips",
              construct="A* growth guard", node=fn)
    ok2 = ok and unparse(st[0].value) == "(neighbour_link, node)"
    hp = calls_in(fn, "heappush")
    ok2 = ok2 and len(hp) == 1 and \
        cfg.dominates(cfg.node_of(st[0]), cfg.node_containing(hp[0])) and \
        unparse(hp[0].args[1]) == "(heuristic(neighbour), neighbour)"
    rep.check(ok2, "C03-R3", inst, "the hop recorded for the neighbour is "
              "(the tested link, the node it leads to)",
              construct="A* recorded hop", node=fn)
    # R4: neighbour arithmetic
    nd = [d for d in fl.defs if d.var == "neighbour" and d.mode == "assign"]
    vd = [d for d in fl.defs if d.var == "vector" and d.mode == "assign"]
    ok4 = len(nd) == 1 and len(vd) == 1 and isinstance(nd[0].value,
                                                       ast.Tuple)
    detail = ""
    if ok4:
        e0, e1 = nd[0].value.elts
        n0 = nd[0].node
        x = fl.sym(e0, n0)
        y = fl.sym(e1, n0)

        def s(t):
            return fl.sym(ast.parse(t, mode="eval").body, n0)
        wx = fl.mod(s("node[0]") + s("vector[0]"), s("machine.width"))
        wy = fl.mod(s("node[1]") + s("vector[1]"), s("machine.height"))
        detail = "(%r, %r)" % (x, y)
        ok4 = x == wx and y == wy and unparse(vd[0].value) == \
            "neighbour_link.opposite.to_vector()"
    rep.check(ok4, "C03-R4", inst, "neighbour = (node + vector of the "
              "opposite link) taken modulo (width, height) respectively - "
              "the chip from which `neighbour_link` leads to `node`",
              construct="A* neighbour %s" % detail, node=fn,
              fail="the neighbour coordinate is %s: not (node + "
                   "opposite-link vector) modulo (machine.width, "
                   "machine.height); on a non-square machine hops between "
                   "non-adjacent chips are produced" % detail)
    lp = [n for n in ast.walk(fn) if isinstance(n, ast.For) and
          unparse(n.iter) == "Links"]
    rep.check(len(lp) == 1 and chain(lp[0].target) == "neighbour_link",
              "C03-R3", inst, "all six links are tried from every node",
              construct="A* link loop", node=fn)
    # path reconstruction follows the recorded hops back to the sink
    t = unparse(fn)
    okp = "path = [(Routes(visited[selected_source][0]), selected_source)]" \
        in t and "while visited[path[-1][1]][1] != sink" in t and \
        "path.append((direction, node))" in t
    rep.check(okp, "C03-R3", inst, "the path returned follows the recorded "
              "hops from the selected source back to the sink",
              construct="A* path", node=fn)
    sel = [d for d in fl.defs if d.var == "selected_source" and
           unparse(d.value) == "node"]
    oks = len(sel) == 1 and has_fact(fl.facts(sel[0].node),
                                     "node in sources", True)
    rep.check(oks, "C03-R3", inst, "the search stops only at a chip of the "
              "permitted target set", construct="A* termination", node=fn)
    # copy_and_disconnect_tree
    cp = program.get(NER + ":copy_and_disconnect_tree")
    cfl = Flow(cp)
    ccfg = cfl.cfg
    ap = [c for c in calls_in(cp, "append")
          if unparse(call_name(c)[1]) == "new_parent.children"]
    ad = [c for c in calls_in(cp, "add")
          if chain(call_name(c)[1]) == "broken_links"]
    okc = len(ap) == 1 and len(ad) == 1
    if okc:
        g = "direction in links_between(new_parent.chip, new_node.chip, " \
            "machine)"
        fa = cfl.facts(ccfg.node_containing(ap[0]))
        fb = cfl.facts(ccfg.node_containing(ad[0]))
        okc = has_fact(fa, g, True) and has_fact(fb, g, False) and \
            unparse(ap[0].args[0]) == "(direction, new_node)" and \
            unparse(ad[0].args[0]) == "(new_parent.chip, new_node.chip)"
    rep.check(okc, "C03-R3", qual(cp), "a child is attached iff its own hop "
              "direction is one of the working links from the parent's chip "
              "to the child's chip; otherwise the pair is recorded as "
              "broken (no path does neither)",
              construct="copy attach guard", node=cp,
              fail="the copy does not test that the hop's own direction is "
                   "among links_between(parent, child, machine): where two "
                   "different links join the same pair of chips (2xN, 1xN "
                   "tori) a dead link stays on the tree")
    nn = [d for d in cfl.defs if d.var == "new_node" and d.mode == "assign"]
    okd = len(nn) == 2
    for d in nn:
        f = cfl.facts(d.node)
        if unparse(d.value) == "RoutingTree(old_node.chip)":
            okd = okd and has_fact(f, "old_node.chip in machine", True)
        elif unparse(d.value) == "new_parent":
            okd = okd and has_fact(f, "old_node.chip in machine", False)
        else:
            okd = False
    reg = [s for s in ast.walk(cp) if isinstance(s, ast.Assign) and
           unparse(s.targets[0]) == "new_lookup[new_node.chip]"]
    okd = okd and len(reg) == 1 and has_fact(
        cfl.facts(ccfg.node_of(reg[0])), "old_node.chip in machine", True)
    rep.check(okd, "C03-R3", qual(cp), "dead chips are dropped from the "
              "copy (their children move up to the parent); only live "
              "chips get nodes", construct="copy dead chips", node=cp)
    q = [c for c in calls_in(cp, "append")
         if chain(call_name(c)[1]) == "to_visit"]
    okq = len(q) == 1 and unparse(q[0].args[0]) == \
        "(new_node, child_direction, child)" and \
        "for child_direction, child in old_node.children" in unparse(cp)
    rep.check(okq, "C03-R3", qual(cp), "every child of every node is "
              "visited with its own direction", construct="copy traversal",
              node=cp)
    rep.floor("C03-R3", 8)


def r5_reconnect(program, rep):
    fn = program.get(NER + ":avoid_dead_links")
    inst = qual(fn)
    fl = Flow(fn)
    cfg = fl.cfg
    lps = [n for n in ast.walk(fn) if isinstance(n, ast.For) and
           unparse(n.iter) == "broken_links"]
    if len(lps) != 1:
        raise AnalysisError("avoid_dead_links: orphan loop")
    lp = lps[0]
    child = chain(lp.target.elts[1])
    st = calls_in(fn, "a_star")
    ok = len(st) == 1
    tgt = None
    if ok:
        a = st[0].args
        ok = chain(a[0]) == child and chain(a[1]) == chain(lp.target.elts[0])
        t = a[2]
        if isinstance(t, ast.Call) and call_name(t)[0] == "difference" and \
                unparse(call_name(t)[1]) == "set(lookup)":
            tgt = chain(t.args[0])
        ok = ok and tgt is not None
    rep.check(ok, "C03-R5", inst, "each orphan is reconnected by a search "
              "from its root towards its former parent, to any node of the "
              "tree except a set of excluded chips",
              construct="a_star arguments", node=fn)
    okx = False
    if tgt:
        ds = [d for d in fl.defs if d.var == tgt and d.mode == "assign"]
        n_star = cfg.node_containing(st[0])
        okx = len(ds) == 1 and _inside(ds[0].node.ast, lp) and \
            unparse(ds[0].value) == "set((c.chip for c in lookup[%s]))" % \
            child and [d.id for d in fl.reaching(tgt, n_star)] == [ds[0].id]
    rep.check(okx, "C03-R5", inst, "the excluded chips are the chips of the "
              "orphan's own sub-tree, recomputed from the live tree for "
              "every orphan (earlier repairs may have grafted other orphans "
              "into it)", construct="excluded chips", node=fn,
              fail="the chips excluded from the reconnection targets are "
                   "not recomputed from the live tree for each orphan: "
                   "after one orphan has been grafted into another, the "
                   "second can be reconnected to its own descendant - a "
                   "cycle detached from the root")
    # detach-before-attach of an existing node: its old parent is looked for
    # among ALL nodes of the tree (the parent may itself already have been
    # severed from the orphan earlier along the same detour), removed and the
    # search stops; only then is the node attached to the detour
    aps = [c for c in calls_in(lp, "append")
           if unparse(call_name(c)[1]) == "last_node.children" and
           "new_node" in unparse(c.args[0])]
    rms = [c for c in calls_in(lp, "remove")]
    okd = len(aps) == 1 and len(rms) == 1
    dom = ""
    if okd:
        an = cfg.node_containing(aps[0])
        rn = cfg.node_containing(rms[0])
        sl = rms[0]._parent
        while sl is not None and not isinstance(sl, ast.For):
            sl = sl._parent
        dom = unparse(sl.iter) if sl is not None else ""
        whole = dom in ("lookup.values()", "itervalues(lookup)",
                        "six.itervalues(lookup)", "list(lookup.values())")
        f = fl.facts(rn)
        found = any(p and chain(c) is not None for c, p, _ in f)
        ex = [n for n in cfg.nodes if n.kind == "assume" and
              unparse(n.ast) == "(x, y) not in %s" % tgt and not n.polarity]
        okd = whole and found and len(ex) == 1 and \
            cfg.dominates(ex[0], rn) and cfg.reaches(rn, an) and \
            not cfg.reaches(an, rn, avoid=[cfg.loop_head[id(
                _loop_of(aps[0]))]]) and \
            unparse(rms[0]) == "node.children.remove(dn[0])"
    rep.check(okd, "C03-R5", inst, "a node of the orphan that the detour "
              "passes through is first detached from its previous parent, "
              "which is searched for among every node of the tree",
              construct="old-parent search over %s" % dom, node=fn,
              fail="the previous parent of a node the detour passes through "
                   "is searched for in '%s' only - not among all nodes of "
                   "the tree: a parent already severed from the orphan "
                   "earlier along the detour is not found, the node keeps "
                   "it and its chip appears twice in the tree" % dom)
    rep.assume("every non-root node of a routing tree has exactly one parent "
               "and every node is registered in the lookup (so the search "
               "over lookup.values() finds it)")
    # new nodes are registered; the orphan root is attached at the end
    t = unparse(fn)
    okn = "lookup[x, y] = new_node" in t and \
        "last_node.children.append((last_direction, lookup[%s]))" % child \
        in t and "last_node = lookup[path[0][1]]" in t
    rep.check(okn, "C03-R5", inst, "new detour nodes are registered in the "
              "lookup; the detour starts at the reached tree node and ends "
              "by attaching the orphan's root", construct="detour splice",
              node=fn)
    cd = calls_in(fn, "copy_and_disconnect_tree")
    okc = len(cd) == 1 and [unparse(a) for a in cd[0].args] == [
        "root", "machine"] and unparse(cd[0]._parent.targets[0]) == \
        "(root, lookup, broken_links)"
    rets = returns_of(fn)
    okc = okc and len(rets) == 1 and unparse(rets[0].value) == \
        "(root, lookup)"
    rep.check(okc, "C03-R5", inst, "the repair works on the disconnecting "
              "copy and returns its root with its lookup",
              construct="repair frame", node=fn)
    rep.floor("C03-R5", 5)


def _loop_of(node):
    n = getattr(node, "_parent", None)
    while n is not None and not isinstance(n, (ast.For, ast.While)):
        n = getattr(n, "_parent", None)
    return n


def r6_truncation(program, rep):
    fn = program.get(NER + ":ner_net")
    inst = qual(fn)
    fl = Flow(fn)
    cfg = fl.cfg
    cut = [d for d in fl.defs if d.var == "ldf" and d.mode == "assign" and
           isinstance(d.value, ast.Subscript)]
    ok = len(cut) == 1
    if ok:
        d = cut[0]
        f = fl.facts(d.node)
        lo = fl.sym(d.value.slice.lower, d.node)
        I = fl.symvar("i", d.node)
        ok = has_fact(f, "(x, y) in route", True) and lo == I + 1 and \
            d.value.slice.upper is None
        lp = d.node.ast._parent
        while lp is not None and not isinstance(lp, ast.For):
            lp = lp._parent
        ok = ok and lp is not None and \
            unparse(lp.iter) == "reversed(ldf)" and \
            unparse(lp.target) == "(direction, (x, y))"
        decs = [x for x in fl.defs if x.var == "i" and x.mode == "aug" and
                _inside(x.node.ast, lp)]
        init = [x for x in fl.defs if x.var == "i" and x.mode == "assign"]
        ok = ok and len(decs) == 1 and unparse(decs[0].value) == "i -= 1" \
            and cfg.dominates(decs[0].node, d.node) and len(init) == 1 and \
            unparse(init[0].value) == "len(ldf)"
        nb = [x for x in fl.defs if x.var == "neighbour" and
              unparse(x.value) == "(x, y)" and _inside(x.node.ast, lp)]
        brk = [n for n in ast.walk(lp) if isinstance(n, ast.Break)]
        ok = ok and len(nb) == 1 and len(brk) == 1
    rep.check(ok, "C03-R6", inst, "the new path is cut just after its LAST "
              "point already on the tree (scanning from the far end), and "
              "continues from that tree node", construct="truncation",
              node=fn)
    t = unparse(fn)
    okn = "this_node = RoutingTree((x, y))" in t and \
        "route[x, y] = this_node" in t and \
        "last_node.children.append((Routes(direction), this_node))" in t and\
        "last_node = route[neighbour]" in t and "last_node = this_node" in t
    rep.check(okn, "C03-R6", inst, "every retained hop adds a fresh node, "
              "registered in the tree's lookup, under the previous node with "
              "the hop's direction", construct="path splice", node=fn)
    okr = "route = {source: RoutingTree(source)}" in t and \
        "return (route[source], route)" in t and \
        "ldf = longest_dimension_first(vector, neighbour, width, height)" \
        in t and "neighbour = source" in t
    rep.check(okr, "C03-R6", inst, "the tree starts at the source; a path "
              "is walked longest-dimension-first from the chosen neighbour; "
              "the fallback neighbour is the source",
              construct="net frame", node=fn)


def r7_raises(program, rep):
    names = set()
    for q, fn in program.functions(NER):
        for r in raises_of(fn):
            if raise_name(r):
                names.add(raise_name(r))
    rep.check(names <= {"MachineHasDisconnectedSubregion"}, "C03-R7", NER,
              "the router's only explicit failure is "
              "MachineHasDisconnectedSubregion", construct="raises %s" %
              sorted(names))
    a = program.get(NER + ":a_star")
    fl = Flow(a)
    ok = False
    for r in raises_of(a):
        ok = has_fact(fl.facts(fl.cfg.node_of(r)),
                      "selected_source is None", True)
    rep.check(ok, "C03-R7", qual(a), "it is raised only when the search "
              "exhausted every reachable chip without meeting the tree",
              construct="disconnected condition", node=a)


def check(program, rep):
    program.module(NER)
    rep.guard("C03-R1", r1_leaves, program, rep)
    rep.guard("C03-R2", r2_repair, program, rep)
    rep.guard("C03-R3", r3_growth, program, rep)
    rep.guard("C03-R5", r5_reconnect, program, rep)
    rep.guard("C03-R6", r6_truncation, program, rep)
    rep.guard("C03-R7", r7_raises, program, rep)
    return finish(rep, program, EXPLANATION, NOT_DECIDED,
                  trusted=["link vectors and opposites as verified by C11"])
