"""C15 - SDP/SCP packets encode to the documented wire layout and decode back.

R1 header layout (bit provenance of the packed expressions vs. the documented
   table kept here)
R2 decoder is the inverse of the encoder (same format, same slot -> field
   map, complementary bit pieces, payload offset = size of the format)
R3 SCP part: encoder order cmd_rc, seq, arg1..3 (present ones), payload;
   decoder reads argument k at offset 4(k-1) only when the caller allows k
   arguments and the data holds them - no more (struct.error) and no fewer
R4 constants agree across modules
"""
import ast

from ..core import AnalysisError, finish, unparse
from ..constfold import Folder, FoldError
from ..bits import provenance, parse_format, BitsError
from ..dataflow import Flow, chain, call_name
from ..absint import Interp
from ..poly import Poly, le, lt, eq, entails
from ..util import formals, calls_in, qual, returns_of, has_fact
from ..terms import subterms, Terms, reify, plain, is_none, mk_cmp, show, match, V, ANY, \
    decide_ites

MOD = "rig.machine_control.packets"

# Documented SDP header (SpiNNaker AppNote 4 "SDP", and the property text):
# byte offset in the datagram -> {field: (field bits lo, n, byte bits lo)}
SDP_LAYOUT = {
    2: {"flags": (0, 8, 0)},
    3: {"tag": (0, 8, 0)},
    4: {"dest_port": (0, 3, 5), "dest_cpu": (0, 5, 0)},
    5: {"src_port": (0, 3, 5), "src_cpu": (0, 5, 0)},
    6: {"dest_y": (0, 8, 0)},
    7: {"dest_x": (0, 8, 0)},
    8: {"src_y": (0, 8, 0)},
    9: {"src_x": (0, 8, 0)},
}
FLAGS = {True: 0x87, False: 0x07}

EXPLANATION = (
    "BITS provenance analysis derives, for each byte struct.pack('<2x8B', "
    "...) writes, which bits of which packet field land where, and compares "
    "it with the documented SDP header table (kept in the checker); the "
    "decoder's slot->field map and its &/>> extractions are derived the same "
    "way and must be the exact inverse. The SCP argument decoder is analysed "
    "with the linear-constraint interpreter: each unpack_from('<I', data, "
    "offset) must lie inside the data, at offset 4(k-1), under exactly the "
    "condition n_args >= k and len >= 4k; the remaining payload starts at 4 x "
    "(arguments read). Encoder order is a CFG-dominance fact.")
EXPLANATION += (
    " R1 compares by absolute byte offsets (constant zero padding in front "
    "of the packed header, unpack_from offset) and reads range tests of "
    "SDPPacket.__init__ against the field widths.")
NOT_DECIDED = [
    "values wider than their field are the caller's responsibility (struct "
    "raises for bytes; port/cpu are masked)",
]


def _folder_const(folder, mod):
    env = folder.module_env(MOD)

    def const_of(e):
        try:
            v = folder.eval(e, env, mod)
        except AnalysisError:
            return None
        if isinstance(v, bool) or not isinstance(v, int):
            return None
        return v
    return const_of


def _pack_call(fn, fname="pack"):
    cs = [c for c in calls_in(fn, fname)
          if chain(call_name(c)[1]) == "struct"]
    return cs


def _name_of(e):
    t = unparse(e)
    return t[5:] if t.startswith("self.") else t


def r1_encoder(program, folder, rep):
    fn = program.get(MOD + ":SDPPacket.bytestring")
    inst = qual(fn)
    mod = fn._module
    const_of = _folder_const(folder, mod)
    T = Terms(fn)
    packs = _pack_call(fn)
    if len(packs) != 1:
        raise AnalysisError("SDPPacket.bytestring: expected one struct.pack")
    call = packs[0]
    node = T.cfg.node_containing(call)
    fmt = const_of_str(folder, reify(T.term(call.args[0], node)), mod)
    endian, slots, size = parse_format(fmt)
    SELF = ("param", "self")
    # what is returned: [constant padding +] pack(...) + packed_data
    rets = [T.term(r.value) for r in returns_of(fn) if r.value is not None]

    def summands(t):
        if t[0] == "binop" and t[1] == "Add":
            return summands(t[2]) + summands(t[3])
        return [t]
    parts = summands(rets[0]) if len(rets) == 1 else []
    PACKED = T.term(call, node)
    base = 0
    if PACKED in parts:
        for x in parts[:parts.index(PACKED)]:
            if not (x[0] == "const" and isinstance(x[1], bytes)):
                raise AnalysisError("SDPPacket.bytestring: the header is "
                                    "preceded by something other than "
                                    "constant bytes; not analysed")
            if any(x[1]):
                raise AnalysisError("SDPPacket.bytestring: non-zero bytes in "
                                    "front of the header; not analysed")
            base += len(x[1])
        slots = [(off + base, sz, code) for off, sz, code in slots]
        size += base
    args = call.args[1:]
    if any(isinstance(a, ast.Starred) for a in call.args) or call.keywords:
        raise AnalysisError("SDPPacket.bytestring: some of the values packed "
                            "are passed as an unpacked sequence; the slot-"
                            "by-slot rule does not read that form")
    if len(slots) != len(args):
        rep.bad("C15-R1", inst, "pack arity", "struct.pack(%r) has %d slots "
                "but %d values" % (fmt, len(slots), len(args)), call)
        return None
    enc = {}    # field -> (byte offset, field lo, n, byte lo)
    for (off, sz, code), a in zip(slots, args):
        want = SDP_LAYOUT.get(off)
        if sz != 1 or want is None:
            rep.bad("C15-R1", inst, "slot at byte %d" % off,
                    "the header has a %d-byte slot at offset %d which is not "
                    "in the documented SDP header" % (sz, off), a)
            continue
        if "flags" in want:
            ok = True
            for val in (True, False):
                H = T.under((("attr", SELF, "reply_expected"), val))
                v = const_of(reify(H.term(a, node)))
                ok = ok and v == FLAGS[val]
            rep.check(ok, "C15-R1", inst,
                      "byte %d = flags: 0x87 if a reply is expected else "
                      "0x07" % off, construct="flags byte", node=a)
            enc["flags"] = (off, 0, 8, 0)
            continue
        lay = provenance(reify(T.term(a, node)), const_of, _name_of)
        got = {}
        for p in lay.pieces:
            n = p.n
            if n is None:
                n = 8 - p.dst_lo      # the byte clips it
            got[p.src] = (p.src_lo, n, p.dst_lo)
        ov = lay.overlaps()
        ok = (got == want and not ov and lay.const == 0)
        rep.check(ok, "C15-R1", inst,
                  "byte %d carries %s" % (off, _fmt_fields(want)),
                  construct="byte %d = %r" % (off, lay), node=a,
                  fail="byte %d is packed as %r; the documented SDP header "
                       "has %s there%s" % (off, lay, _fmt_fields(want),
                                           "; pieces overlap" if ov else ""))
        for name, v in got.items():
            enc[name] = (off,) + v
    missing = set(SDP_LAYOUT) - set(off for off, _, _ in slots)
    rep.check(not missing and size == 10 and endian == "little", "C15-R1",
              inst, "the header is 2 pad bytes + 8 single-byte fields (10 "
              "bytes)", construct="header format %r" % fmt, node=call)
    # header is followed by packed_data
    ok = PACKED in parts and parts[parts.index(PACKED) + 1:] == [
        ("attr", SELF, "packed_data")]
    rep.check(ok, "C15-R1", inst, "the header is followed by packed_data",
              construct="header + packed_data", node=call)
    rep.floor("C15-R1", 9)
    return (endian, slots, size), enc


def const_of_str(folder, e, mod):
    try:
        v = folder.eval(e, folder.module_env(mod.name), mod)
    except AnalysisError:
        v = None
    if not isinstance(v, (str, bytes)):
        raise AnalysisError("struct format %s does not fold" % unparse(e))
    return v


def _fmt_fields(want):
    return ", ".join("%s[%d:%d] at bits %d:%d" % (
        f, lo + n - 1, lo, b + n - 1, b) for f, (lo, n, b) in
        sorted(want.items(), key=lambda kv: -kv[1][2]))


def r2_decoder(program, folder, rep, fmt, enc):
    fn = program.get(MOD + ":_unpack_sdp_into_packet")
    inst = qual(fn)
    mod = fn._module
    const_of = _folder_const(folder, mod)
    # (loops over a literal tuple - ("dest", ..), ("src", ..) - are read as
    # the statements they stand for)
    from ..util import unroll_literal_loops
    fn_u, n_unrolled = unroll_literal_loops(fn)
    if n_unrolled:
        fn_u._module, fn_u._qualname = fn._module, fn._qualname
        for x_ in ast.walk(fn_u):
            for y_ in ast.iter_child_nodes(x_):
                y_._parent = x_
        fn = fn_u
    T = Terms(fn)
    pkt, raw = [a.arg for a in fn.args.args][:2]
    ups = [c for c in calls_in(fn, "unpack_from")
           if chain(call_name(c)[1]) == "struct"]
    if len(ups) != 1:
        raise AnalysisError("_unpack_sdp_into_packet: expected one "
                            "struct.unpack_from")
    call = ups[0]
    cn = T.cfg.node_containing(call)
    dfmt = const_of_str(folder, reify(T.term(call.args[0], cn)), mod)
    endian, slots, size = parse_format(dfmt)
    # where in the datagram the format is applied
    dbase = 0
    if len(call.args) > 2 or call.keywords:
        kw_ = {k.arg: k.value for k in call.keywords}
        oe = call.args[2] if len(call.args) > 2 else kw_.get("offset")
        dbase = const_of(reify(T.term(oe, cn))) if oe is not None else None
        if not isinstance(dbase, int) or dbase < 0:
            raise AnalysisError("_unpack_sdp_into_packet: the offset the "
                                "header is decoded from does not fold")
    slots = [(off + dbase, sz, code) for off, sz, code in slots]
    size += dbase
    rep.check((endian, slots, size) == fmt, "C15-R2", inst,
              "decoder reads the slots the encoder writes (%d bytes: %s)" % (
                  fmt[2], ", ".join("%s@%d" % (c, o) for o, _, c in fmt[1])),
              construct="decoder format %r at offset %d" % (dfmt, dbase),
              node=call,
              fail="the decoder applies %r at offset %d of the datagram, "
                   "which is not the layout the encoder writes (%s)" % (
                       dfmt, dbase, ", ".join("%s@%d" % (c, o)
                                              for o, _, c in fmt[1])))
    rep.check(len(call.args) >= 2 and
              T.term(call.args[1], cn) == ("param", raw),
              "C15-R2", inst, "the header is decoded from the datagram "
              "received", construct="decode source", node=call)
    U = T.term(call, cn)
    # the value of slot i is ("comp", U, i)
    slot_name = {}
    for i, (off, sz, code) in enumerate(slots):
        slot_name[unparse(reify(("comp", U, i)))] = off
    dec = {}
    n_fields = 0
    # the fields stored into the packet: packet.f = v, or setattr(packet,
    # <name that folds to a constant>, v)
    from ..terms import fold_consts

    class _Store(object):
        def __init__(self, field, term, node_ast):
            self.field, self.term, self.ast = field, term, node_ast
    stored = []
    for b_ in T.binds:
        if not b_.var.startswith(pkt + ".") or b_.mode not in (
                "assign",) or b_.value is None:
            continue
        stored.append(_Store(b_.var[len(pkt) + 1:], T._bind_term(b_),
                             b_.node.ast))
    for c_ in calls_in(fn, "setattr"):
        if len(c_.args) != 3:
            continue
        cn_ = T.cfg.node_containing(c_)
        if T.term(c_.args[0], cn_) != ("param", pkt):
            continue
        nm_ = fold_consts(plain(T.term(c_.args[1], cn_)), const_of)
        if nm_[0] != "const" or not isinstance(nm_[1], str):
            raise AnalysisError("_unpack_sdp_into_packet: a field is stored "
                                "with setattr under a name that does not "
                                "fold to a constant")
        stored.append(_Store(nm_[1], T.term(c_.args[2], cn_), c_))
    for st_ in stored:
        field = st_.field
        if field == "data":
            continue
        n_fields += 1
        t = st_.term
        def _only_items(x_, parent=None):
            # U may occur only as the tuple a component is taken from
            if x_ == U:
                return parent is not None and parent[0] == "comp" and \
                    parent[1] == U
            if not isinstance(x_, tuple) or not x_ or x_[0] == "const":
                return True
            return all(_only_items(y_, x_) for y_ in x_
                       if isinstance(y_, tuple))
        if not any(x_ == U for x_ in subterms(t)) or not _only_items(t):
            # the value does not come straight out of the unpacked header
            # (an iterator over it consumed with next(), a helper ...)
            raise AnalysisError("_unpack_sdp_into_packet: %s is not taken "
                                "from the items of the unpacked header "
                                "directly; that form is not analysed" %
                                field)

        class b_(object):        # (the node the reports point at)
            class node(object):
                ast = st_.ast
        if field == "reply_expected":
            ok = False
            if t[0] == "cmp" and t[1] == "Eq":
                for x, y in ((t[2], t[3]), (t[3], t[2])):
                    if x == ("comp", U, 0) and slots[0][0] == 2 and \
                            const_of(reify(y)) == FLAGS[True]:
                        ok = True
            rep.check(ok, "C15-R2", inst, "reply_expected is decoded as "
                      "(flags byte == 0x87)", construct="flags decode",
                      node=b_.node.ast)
            dec["flags"] = (2, 0, 8, 0)
            continue
        if any(x_[0] == "item" and x_[1][0] == "global" and any(
                y_ == U for y_ in subterms(x_[2])) for x_ in subterms(t)):
            # TABLE[<header byte>]: the bits are taken out by a table made
            # elsewhere
            raise AnalysisError("_unpack_sdp_into_packet: %s is decoded "
                                "through a module-level lookup table; not "
                                "analysed" % field)
        lay = provenance(reify(t), const_of)
        if len(lay.pieces) != 1 or lay.const:
            rep.bad("C15-R2", inst, "decode of %s" % field,
                    "%s is decoded by %s which is not a single bit-field "
                    "extraction" % (field, show(t)), b_.node.ast)
            continue
        p = lay.pieces[0]
        off = slot_name.get(p.src)
        if off is None:
            rep.bad("C15-R2", inst, "decode of %s" % field,
                    "%s is decoded from %s which is not a header slot" % (
                        field, p.src), b_.node.ast)
            continue
        n = p.n if p.n is not None else 8 - p.src_lo
        # decoder: field bits [dst_lo, +n) come from byte bits [src_lo, +n)
        dec[field] = (off, p.dst_lo, n, p.src_lo)
    for field in sorted(set(enc) | set(dec)):
        e, d = enc.get(field), dec.get(field)
        rep.check(e == d, "C15-R2", inst,
                  "%s: decoder reads exactly the bits the encoder writes "
                  "(byte %s)" % (field, e[0] if e else "?"),
                  construct="field %s enc=%s dec=%s" % (field, e, d),
                  fail="field %s is encoded at (byte, field-lo, bits, "
                       "byte-lo)=%s but decoded from %s" % (field, e, d))
    # payload offset
    for b_ in T.binds:
        if b_.var == pkt + ".data" and b_.mode == "assign":
            t = T._bind_term(b_)
            ok = t[0] == "item" and t[1] == ("param", raw) and \
                t[2][0] == "slice" and t[2][2] == ("const", None) and \
                t[2][3] == ("const", None) and \
                const_of(reify(t[2][1])) == size
            rep.check(ok, "C15-R2", inst, "payload = datagram[%d:] (size of "
                      "the header format)" % size,
                      construct="payload slice %s" % show(t), node=b_.node.ast)
    rep.floor("C15-R2", 12)


def _fields(packs):
    """[(byte order, code, value term)] of a sequence of (format, values)
    packs, repeat counts expanded; AnalysisError for formats with pad bytes
    or strings (their counts are lengths)."""
    import re
    out = []
    for fmt, vals in packs:
        order = fmt[0] if fmt and fmt[0] in "@=<>!" else "@"
        body = fmt[1:] if fmt and fmt[0] in "@=<>!" else fmt
        codes = []
        for cnt, code in re.findall(r"(\d*)([A-Za-z?])", body):
            if code in "spx":
                raise AnalysisError("struct format %r: not field-wise" % fmt)
            # (standard sizes: L is I and l is i - four bytes either way)
            if order in "=<>!":
                code = {"L": "I", "l": "i"}.get(code, code)
            codes.extend([code] * (int(cnt) if cnt else 1))
        if order == "!":
            order = ">"
        if len(codes) != len(vals):
            raise AnalysisError("struct format %r does not match %d values"
                                % (fmt, len(vals)))
        out.extend((order, c, v) for c, v in zip(codes, vals))
    return out


def r3_scp(program, folder, rep):
    # --- encoder -----------------------------------------------------------
    fn = program.get(MOD + ":SCPPacket.packed_data")
    inst = qual(fn)
    mod = fn._module
    const_of = _folder_const(folder, mod)
    from ..util import unroll_literal_loops
    orig_fn = fn
    fn, n_unrolled = unroll_literal_loops(fn)
    if any(isinstance(n, (ast.For, ast.While)) for n in ast.walk(fn)):
        raise AnalysisError("SCPPacket.packed_data builds the header in a "
                            "loop that cannot be unrolled: the part-by-part "
                            "rule only reads straight-line code")
    T = Terms(fn)
    SELF = ("param", "self")
    rets = [r for r in returns_of(fn) if r.value is not None]
    if len(rets) != 1:
        raise AnalysisError("SCPPacket.packed_data: one return expected")
    rn = T.cfg.node_of(rets[0])
    from ..terms import method_calls as _mc

    def flat(t, H=None):
        if t[0] == "binop" and t[1] == "Add":
            return flat(t[2], H) + flat(t[3], H)
        # b"".join(<list built here>): the elements in the order appended
        if t[0] in ("call", "callv") and t[1][0] == "attr" and \
                t[1][2] == "join" and t[1][1] == ("const", b"") and \
                len(t[2]) == 1 and t[2][0][0] in ("listcomp", "genexp"):
            raise AnalysisError("SCPPacket.packed_data joins parts made by "
                                "a comprehension: the part-by-part rule "
                                "only reads straight-line code")
        if t[0] in ("call", "callv") and t[1][0] == "attr" and \
                t[1][2] == "join" and t[1][1] == ("const", b"") and \
                len(t[2]) == 1 and t[2][0][0] == "new" and H is not None:
            L = t[2][0]
            if L[2][0] in ("listcomp", "genexp"):
                raise AnalysisError("SCPPacket.packed_data joins parts made "
                                    "by a comprehension: the part-by-part "
                                    "rule only reads straight-line code")
            if L[2][0] != "list":
                return [t]
            parts = list(L[2][1:])
            apps = [x for x in _mc(H, ("append", "extend", "insert"))
                    if x[2] == L and H.live(x[0])]
            apps.sort(key=lambda x: len(H.doms(x[0])))
            for n_, c_, recv, args in apps:
                if c_.func.attr != "append" or len(args) != 1 or \
                        n_.id not in H.doms(rn):
                    # an element that is only sometimes added under this
                    # case's hypotheses
                    parts.append(("opaque", "conditional append"))
                else:
                    parts.append(args[0])
            out = []
            for p_ in parts:
                out.extend(flat(p_, H))
            return out
        return [t]

    def packed(t):
        """(format, [value terms]) of a struct.pack(...) term."""
        t = plain(t)
        if t[0] == "call" and t[1] == ("attr", ("global", "struct"),
                                       "pack") and t[2]:
            f = const_of_str(folder, reify(t[2][0]), mod)
            return f.replace(" ", ""), list(t[2][1:])
        return None
    import itertools
    n_case = 0
    for present in itertools.product((True, False), repeat=3):
        hyps = [(is_none(("attr", SELF, "arg%d" % (k + 1))), not pr)
                for k, pr in enumerate(present)]
        H = T.under(*hyps)
        parts = flat(decide_ites(H.term(rets[0].value, rn), hyps), H)
        want = [("<2H", [("attr", SELF, "cmd_rc"), ("attr", SELF, "seq")])]
        for k, pr in enumerate(present):
            if pr:
                want.append(("<I", [("attr", SELF, "arg%d" % (k + 1))]))
        got = [packed(x) for x in parts[:-1]]
        # compared field by field: '<2H' and '<HH' (or two packs of '<H')
        # lay down the same bytes
        ok = None not in got and _fields(got) == _fields(want) and \
            parts[-1] == ("attr", SELF, "data")
        n_case += 1
        names = [("arg%d" % (k + 1)) for k, pr in enumerate(present) if pr]
        rep.check(ok, "C15-R3", inst, "with arguments %s present the packed "
                  "data is pack('<2H', cmd_rc, seq) + %s + data" % (
                      names or "none", " + ".join(
                          "pack('<I', %s)" % n for n in names) or "nothing"),
                  construct="scp encoding, present %s" % (names,), node=fn,
                  fail="with arguments %s present the SCP body is not "
                       "cmd_rc, seq, those arguments in order, then the "
                       "data: got %s" % (names, [show(x)[:60]
                                                 for x in parts]))
    rep.floor("C15-R3", 8)


def r3_scp_decoder(program, folder, rep):
    fn = program.get(MOD + ":SCPPacket.from_bytestring")
    inst = qual(fn)
    mod = fn._module
    const_of = _folder_const(folder, mod)
    if any(isinstance(n, (ast.For, ast.While)) for n in ast.walk(fn)) or \
            any(isinstance(n, (ast.ListComp, ast.GeneratorExp, ast.SetComp,
                               ast.DictComp)) and
                any(isinstance(c, ast.Call) and
                    call_name(c)[0] in ("unpack_from", "unpack")
                    for c in ast.walk(n)) for n in ast.walk(fn)):
        raise AnalysisError("SCPPacket.from_bytestring reads the arguments "
                            "in a loop: the argument-by-argument rule only "
                            "reads straight-line code")
    ps = [a.arg for a in fn.args.args]
    if len(ps) != 3:
        raise AnalysisError("SCPPacket.from_bytestring signature changed")
    n_args = Poly.atom(ps[2])
    it = Interp(fn)
    fl = it.flow
    ups = [c for c in calls_in(fn, "unpack_from")
           if chain(call_name(c)[1]) == "struct"]
    # the data variable: X = packet.data[4:]
    data_var = None
    for d in fl.defs:
        if d.mode == "assign" and isinstance(d.value, ast.Subscript) and \
                isinstance(d.value.slice, ast.Slice) and \
                chain(d.value.value) is not None and \
                chain(d.value.value).endswith(".data") and \
                d.value.slice.upper is None:
            lo = const_of(d.value.slice.lower) if d.value.slice.lower \
                else 0
            if "." not in d.var:
                data_var = d.var
                rep.check(lo == 4, "C15-R3", inst,
                          "arguments/payload start after the 4-byte cmd_rc/"
                          "seq header", construct="scp body offset %s" % lo,
                          node=d.value)
    if data_var is None:
        raise AnalysisError("SCP decoder: cannot find the body slice")
    L = it.flow._composite("len(%s)" % data_var, [Poly.atom(data_var)],
                           ("len", Poly.atom(data_var)))
    # goal-shaped candidate invariants for the joins: payload offset <= len
    cands = []
    for d in fl.defs:
        if d.var.endswith(".data") and d.mode == "assign" and \
                isinstance(d.value, ast.Subscript) and \
                chain(d.value.value) == data_var and \
                isinstance(d.value.slice, ast.Slice) and \
                d.value.slice.lower is not None:
            o = it.sym(d.value.slice.lower, d.node)
            cands += [le(o, L), le(0, o), le(o, 12)]
    it = Interp(fn, candidates=cands)
    fl = it.flow
    L = it.flow._composite("len(%s)" % data_var, [Poly.atom(data_var)],
                           ("len", Poly.atom(data_var)))
    seen = {}
    # which packet field takes which item of which unpack: read off the
    # value terms (a tuple target, an indexed temporary, [0] ... alike)
    from .C20 import _fmt_norm
    TT = Terms(fn)
    pkt_fields = {}
    for b_ in TT.binds:
        if "." in b_.var and b_.mode in ("assign", "unpack") and \
                b_.var.split(".")[-1] in ("cmd_rc", "seq", "arg1", "arg2",
                                          "arg3"):
            try:
                vt = TT._bind_term(b_)
            except AnalysisError:
                continue
            pkt_fields.setdefault(b_.var.split(".")[-1], []).append(vt)
    for c in ups:
        fmt = const_of_str(folder, c.args[0], mod).replace(" ", "")
        node = it.cfg.node_containing(c)
        tc = TT.term(c, TT.cfg.node_containing(c))
        by_index = {}
        for fname, vts in pkt_fields.items():
            for vt in vts:
                if vt[0] == "comp" and vt[1] == tc:
                    by_index[vt[2]] = fname
        fields = [by_index[i] for i in sorted(by_index)]
        if _fmt_norm(fmt) == _fmt_norm("<2H"):
            ok = fields == ["cmd_rc", "seq"] and len(c.args) == 2 and \
                chain(c.args[1]).endswith(".data")
            rep.check(ok, "C15-R3", inst, "cmd_rc, seq are decoded with "
                      "'<2H' from the start of the SDP payload",
                      construct="cmd_rc/seq decode %s" % fields, node=c)
            continue
        if _fmt_norm(fmt) != _fmt_norm("<I") or len(fields) != 1 or \
                fields[0] not in ("arg1", "arg2", "arg3"):
            rep.bad("C15-R3", inst, "unexpected unpack %r -> %s" % (fmt,
                                                                     fields),
                    "unexpected decode %s" % unparse(c), c)
            continue
        k = int(fields[0][3])
        seen[k] = c
        if len(c.args) < 2 or chain(c.args[1]) != data_var:
            rep.bad("C15-R3", inst, "arg%d source" % k,
                    "arg%d is not decoded from the body at an explicit "
                    "offset" % k, c)
            continue
        off_e = c.args[2] if len(c.args) > 2 else ast.copy_location(
            ast.Constant(value=0), c)
        off = it.sym(off_e, node)
        st = it.describe(node)
        if not it.holds_at(node, eq(off, 4 * (k - 1))) and \
                isinstance(off_e, ast.Name):
            fl_ = Flow(fn)
            ds_ = fl_.reaching(off_e.id, fl_.cfg.node_containing(c))
            if len(ds_) > 1:
                # a running offset advanced under earlier tests: its value
                # here depends on which of them passed, which the interval
                # state does not keep
                raise AnalysisError("SCP decoder: arg%d is read at a "
                                    "running offset (%s) whose value depends "
                                    "on the earlier tests; not followed" %
                                    (k, off_e.id))
        rep.check(it.holds_at(node, eq(off, 4 * (k - 1))), "C15-R3", inst,
                  "arg%d is read at body offset %d" % (k, 4 * (k - 1)),
                  construct="arg%d offset" % k, node=c,
                  fail="arg%d is read at offset %r, not %d; state: %s" % (
                      k, off, 4 * (k - 1), st))
        rep.check(it.holds_at(node, [le(off + 4, L)]), "C15-R3", inst,
                  "arg%d is only read when the body holds it (offset + 4 <= "
                  "len)" % k, construct="arg%d within data" % k, node=c,
                  fail="arg%d may be read beyond the end of the data "
                       "(struct.error): cannot show %r + 4 <= len; state: "
                       "%s" % (k, off, st))
        rep.check(it.holds_at(node, [le(k, n_args)]), "C15-R3", inst,
                  "arg%d is only read when the caller allows %d arguments"
                  % (k, k), construct="arg%d allowed" % k, node=c)
        # not stricter than the specification: every guard fact follows
        # from  n_args >= k  and  len >= 4k
        spec = [le(k, n_args), le(4 * k, L)]
        # express the facts over current-value atoms: data_len = len(data)
        defs_eq = []
        for d in fl.defs:
            if d.mode == "assign" and isinstance(d.value, ast.Call) and \
                    call_name(d.value)[0] == "len" and d.value.args and \
                    chain(d.value.args[0]) == data_var:
                defs_eq += eq(Poly.atom(d.var), L)
        # ... and temporaries computed from it (len(data) // 4), with the
        # axioms of the operations they are made of
        for d in fl.defs:
            if d.mode == "assign" and d.value is not None and \
                    not (isinstance(d.value, ast.Call) and
                         call_name(d.value)[0] == "len") and \
                    isinstance(d.var, str) and "." not in d.var and any(
                        isinstance(x, ast.Call) and
                        call_name(x)[0] == "len" and x.args and
                        chain(x.args[0]) == data_var
                        for x in ast.walk(d.value)):
                try:
                    defs_eq += eq(Poly.atom(d.var), fl.sym(d.value, d.node))
                except AnalysisError:
                    pass
        strict = []
        for cond, pol, a in fl.facts(node):
            for con in fl.cond_constraints(cond, pol, a):
                ax_, splits_ = fl.axioms([con.p] + [c_.p for c_ in defs_eq])
                import itertools as _it
                combos = list(_it.product(*splits_)) if splits_ and \
                    len(splits_) <= 4 else [()]
                if not all(entails(spec + defs_eq + ax_ + [le(0, L)] +
                                   [c_ for alt_ in combo for c_ in alt_],
                                   con) for combo in combos):
                    strict.append(unparse(cond))
        rep.check(not strict, "C15-R3", inst,
                  "arg%d is read whenever n_args >= %d and the body has %d "
                  "bytes (the guard is no stricter)" % (k, k, 4 * k),
                  construct="arg%d guard strictness %s" % (k, strict),
                  node=c,
                  fail="arg%d is skipped in cases the format allows: guard "
                       "%s does not follow from n_args >= %d and len >= %d"
                       % (k, strict, k, 4 * k))
    for k in (1, 2, 3):
        if k not in seen:
            rep.bad("C15-R3", inst, "arg%d not decoded" % k,
                    "the decoder never reads arg%d" % k, fn)
    # payload: packet.data = data[offset:] with offset = 4 * (#args read)
    for d in fl.defs:
        if d.var.endswith(".data") and d.mode == "assign" and \
                isinstance(d.value, ast.Subscript) and \
                chain(d.value.value) == data_var:
            sl = d.value.slice
            if not (isinstance(sl, ast.Slice) and sl.upper is None and
                    sl.lower is not None):
                rep.bad("C15-R3", inst, "payload slice", "payload is not "
                        "body[offset:]", d.value)
                continue
            off = it.sym(sl.lower, d.node)
            # offset is 0 / 4 / 8 / 12 and equals 4 x number of args read:
            # provable as: 0 <= off <= 12, off <= 4*n_args (when n_args>=0),
            # off <= len; plus the maximality below
            ok = it.holds_at(d.node, [le(0, off), le(off, 12), le(off, L)])
            rep.check(ok, "C15-R3", inst, "payload starts inside the body "
                      "at an offset in [0, 12]",
                      construct="payload offset range", node=d.value,
                      fail="payload offset %r not provably within [0, "
                           "min(12, len)]; state: %s" % (
                               off, it.describe(d.node)))
    rep.floor("C15-R3", 14)


def r3_scp_payload(program, folder, rep):
    """Whatever way the arguments are read: the payload handed on is
    body[off:] with 0 <= off <= len(body) (no byte of the body is dropped
    because the offset overshoots)."""
    fn = program.get(MOD + ":SCPPacket.from_bytestring")
    if any(getattr(h, "_virtual", False) for h in ast.walk(fn)):
        raise AnalysisError("SCPPacket.from_bytestring counts the argument "
                            "words in a helper the reference tree did not "
                            "have: the interpreter does not follow it")
    inst = qual(fn)
    it0 = Interp(fn)
    fl0 = it0.flow
    # struct.iter_unpack raises unless the buffer is a whole number of items:
    # the body of a reply is as long as the sender made it
    for c in calls_in(fn, "iter_unpack"):
        if len(c.args) != 2:
            continue
        node = fl0.cfg.node_containing(c)
        tested = any(
            isinstance(x, ast.BinOp) and isinstance(x.op, (ast.Mod,
                                                           ast.BitAnd))
            for cnd, pol, at in fl0.facts(node) for x in ast.walk(cnd))
        buf = c.args[1]
        while isinstance(buf, ast.Subscript) and isinstance(buf.slice,
                                                            ast.Slice):
            whole = buf
            buf = buf.value
        src = chain(buf)
        ds = fl0.reaching(src, node) if src else []
        from_reply = src is not None and (
            src in formals(fn) or any(
                d.value is not None and any(
                    chain(y) in formals(fn) or (
                        chain(y) or "").endswith(".data")
                    for y in ast.walk(d.value)) for d in ds))
        divided = any(isinstance(x, ast.BinOp) and isinstance(
            x.op, (ast.FloorDiv, ast.Mod, ast.BitAnd, ast.RShift))
            for a_ in c.args[1:] for x in ast.walk(a_))
        if from_reply and not tested and not divided:
            rep.bad("C15-R3", inst, "iter_unpack over the body",
                    "struct.iter_unpack is applied to (a slice of) the "
                    "reply body, whose length nothing makes a whole number "
                    "of items: a reply whose body is not a multiple of the "
                    "item size raises struct.error instead of being decoded",
                    c)
        elif from_reply:
            raise AnalysisError("SCPPacket.from_bytestring decodes with "
                                "iter_unpack over a computed part of the "
                                "body; whether that is a whole number of "
                                "items is not decided")
    found = 0
    for d in fl0.defs:
        if not (d.var.endswith(".data") and d.mode == "assign" and
                isinstance(d.value, ast.Subscript) and
                isinstance(d.value.slice, ast.Slice) and
                isinstance(d.value.value, ast.Name) and
                d.value.slice.upper is None and
                d.value.slice.lower is not None):
            continue
        body = d.value.value.id
        lower = d.value.slice.lower
        L0 = fl0._composite("len(%s)" % body, [Poly.atom(body)],
                            ("len", Poly.atom(body)))
        o0 = it0.sym(lower, d.node)
        it = Interp(fn, candidates=[le(o0, L0), le(0, o0)])
        node = it.cfg.node_of(d.node.ast)
        L = it.flow._composite("len(%s)" % body, [Poly.atom(body)],
                               ("len", Poly.atom(body)))
        off = it.sym(lower, node)
        ok = it.holds_at(node, [le(0, off), le(off, L)])
        found += 1
        if not ok:
            names = [n.id for n in ast.walk(lower)
                     if isinstance(n, ast.Name)]
            loops = [lp for lp in ast.walk(fn)
                     if isinstance(lp, (ast.For, ast.While))]
            in_loop = any(x.var in names and x.node.ast is not None and
                          any(_within(x.node.ast, lp) for lp in loops)
                          for x in it.flow.defs)
            if in_loop:
                raise AnalysisError("the payload offset is accumulated in a "
                                    "loop whose invariant this rule cannot "
                                    "infer")
            counted = any(isinstance(c, ast.Call) and
                          call_name(c)[0] in ("len", "sum")
                          for c in ast.walk(lower)) or any(
                x.var in names and (isinstance(x.value, (
                    ast.ListComp, ast.GeneratorExp)) or (
                        isinstance(x.value, ast.Call) and
                        call_name(x.value)[0] in ("len", "sum", "list",
                                                  "tuple")))
                for x in it.flow.defs)
            if counted:
                raise AnalysisError("the payload offset is derived from the "
                                    "size of a collection of the words read; "
                                    "how many there can be is not inferred")
        rep.check(ok, "C15-R3", inst, "the payload is the body from an "
                  "offset within the body (0 <= offset <= len)",
                  construct="payload offset within body", node=d.value,
                  fail="the payload is body[%s:] but %s is not provably "
                       "within [0, len(body)]: when fewer argument words "
                       "are present than asked for, payload bytes are "
                       "dropped; state: %s" % (unparse(lower), unparse(
                           lower), it.describe(node)))
    if not found:
        raise AnalysisError("SCP decoder: payload slice not found")


def _within(node, anc):
    p = node
    while p is not None:
        if p is anc:
            return True
        p = getattr(p, "_parent", None)
    return False


def r4_constants(program, folder, rep):
    hl = folder.name("rig.machine_control.consts", "SDP_HEADER_LENGTH")
    import struct
    rep.check(hl + 2 == struct.calcsize("<2x8B"), "C15-R4",
              "rig.machine_control.consts:SDP_HEADER_LENGTH",
              "SDP_HEADER_LENGTH + 2 pad bytes == size of the header format",
              construct="SDP_HEADER_LENGTH %r" % hl)
    fr = folder.name(MOD, "FLAG_REPLY")
    fn = folder.name(MOD, "FLAG_NO_REPLY")
    rep.check(fr == 0x87 and fn == 0x07, "C15-R4", MOD + ":FLAG_REPLY",
              "flag constants are 0x87 / 0x07",
              construct="flags %r %r" % (fr, fn))


def r1_constructor_range(program, folder, rep):
    """A packet can be built for every value its header field carries: a
    range test in SDPPacket.__init__ that refuses values below the top of
    the field (e.g. cores 18..31 of the 5-bit core field: the host-side
    'core' 31 is one of them) makes packets the decoder produces impossible
    to rebuild and to send."""
    from ..util import unroll_literal_loops
    fn0 = program.get(MOD + ":SDPPacket.__init__")
    if not raises_in(fn0):
        rep.ok("C15-R1", qual(fn0), "the constructor refuses no field "
               "value", fn0)
        return
    fn, _ = unroll_literal_loops(fn0)
    fn._module = fn0._module
    fn._qualname = fn0._qualname
    for x in ast.walk(fn):
        for y in ast.iter_child_nodes(x):
            y._parent = x
    T = Terms(fn)
    widths = {}
    for lay in SDP_LAYOUT.values():
        for f_, (lo, n, b) in lay.items():
            widths[f_] = n
    n_checked = 0
    for r in raises_in(fn):
        rn = T.cfg.node_of(r)
        tops = []
        for t, p in T.all_facts(rn):
            t = plain(t)
            if t[0] == "cmp" and t[1] in ("Lt", "LtE") and p:
                # raised with  const < field / const <= field
                a, b = t[2], t[3]
                if b[0] == "param" and b[1] in widths and \
                        a[0] == "const" and isinstance(a[1], int):
                    tops.append((b, a[1] if t[1] == "Lt" else a[1] - 1))
            elif t[0] == "and" and not p:
                # raised unless all of  ... field <= const ...  hold
                for c in t[1:]:
                    if c[0] == "cmp" and c[1] in ("Lt", "LtE") and \
                            c[2][0] == "param" and c[2][1] in widths and \
                            c[3][0] == "const" and isinstance(c[3][1], int):
                        tops.append((c[2], c[3][1] if c[1] == "LtE"
                                     else c[3][1] - 1))
        for b, top in tops:
            if top is not None:
                n_checked += 1
                full = (1 << widths[b[1]]) - 1
                rep.check(top >= full, "C15-R1", qual(fn0),
                          "%s is refused only above %d, the top of its "
                          "%d-bit header field" % (b[1], full, widths[b[1]]),
                          construct="accepted maximum of %s = %d" % (b[1],
                                                                     top),
                          node=r,
                          fail="SDPPacket.__init__ refuses %s above %d, but "
                               "its header field is %d bits wide (0..%d): "
                               "packets for the values in between, which "
                               "the decoder produces and the machine uses, "
                               "can no longer be built or sent" % (
                                   b[1], top, widths[b[1]], full))
    if not n_checked:
        raise AnalysisError("SDPPacket.__init__ raises under conditions "
                            "these rules do not read")


def r2_length_guards(program, folder, rep):
    """A 'too short' test in front of the decoder may refuse only datagrams
    shorter than the header it is about to decode: one with an empty payload
    (SDP: 10 bytes; SCP: 14, cmd_rc and seq included) is a whole packet."""
    n = 0
    for q, need in (("SDPPacket.from_bytestring", 10),
                    ("SCPPacket.from_bytestring", 14)):
        fn = program.get(MOD + ":" + q)
        if not raises_in(fn):
            continue
        T = Terms(fn)
        const_of = _folder_const(folder, fn._module)
        for r in raises_in(fn):
            rn = T.cfg.node_of(r)
            for t, p in T.all_facts(rn):
                t = plain(t)
                if not (p and t[0] == "cmp" and t[1] in ("Lt", "LtE") and
                        t[2][0] == "call" and t[2][1] == ("global", "len")
                        and len(t[2][2]) == 1 and
                        t[2][2][0][0] == "param"):
                    continue
                k = const_of(reify(t[3]))
                if not isinstance(k, int):
                    continue
                # raised when len < k (Lt) / len <= k (LtE)
                shortest_ok = k if t[1] == "Lt" else k + 1
                n += 1
                rep.check(shortest_ok <= need, "C15-R2", qual(fn),
                          "a datagram of %d bytes (whole header, empty "
                          "payload) is decoded, not refused" % need,
                          construct="shortest datagram accepted %d" %
                          shortest_ok, node=r,
                          fail="%s refuses datagrams shorter than %d bytes, "
                               "but a whole packet with an empty payload "
                               "is %d bytes long: valid packets can no "
                               "longer be decoded" % (q, shortest_ok, need))
    if n == 0:
        rep.ok("C15-R2", MOD, "no length guard refuses a datagram before "
               "it is decoded")


def raises_in(fn):
    return [r for r in ast.walk(fn) if isinstance(r, ast.Raise)]


def r1_forwarding(program, rep):
    """SCPPacket.__init__ hands its SDP-level arguments to SDPPacket.__init__
    each under the parameter of the same name."""
    sub = program.get(MOD + ":SCPPacket.__init__")
    sup = program.get(MOD + ":SDPPacket.__init__")
    cs = [c for c in ast.walk(sub) if isinstance(c, ast.Call) and
          isinstance(c.func, ast.Attribute) and c.func.attr == "__init__"]
    if len(cs) != 1:
        raise AnalysisError("SCPPacket.__init__: the call of the base "
                            "constructor")
    T = Terms(sub)
    n = T.cfg.node_containing(cs[0])
    names = [a.arg for a in sup.args.args][1:]
    own = set(a.arg for a in sub.args.args)
    bound = {}
    for i, a in enumerate(cs[0].args):
        if i < len(names):
            bound[names[i]] = T.term(a, n)
    for k in cs[0].keywords:
        if k.arg:
            bound[k.arg] = T.term(k.value, n)
    bad = sorted(k for k, v in bound.items()
                 if v[0] == "param" and v[1] in names and v[1] != k)
    missing = sorted(k for k in names if k in own and k not in bound)
    rep.check(not bad and not missing, "C15-R1", qual(sub),
              "every SDP field given to SCPPacket is passed to the base "
              "constructor under its own name", construct="base constructor "
              "arguments", node=cs[0],
              fail="SCPPacket.__init__ passes %s to SDPPacket.__init__: the "
                   "fields are exchanged in every SCP packet built through "
                   "the constructor" % ", ".join(
                       "%s as %s" % (bound[k][1], k) for k in bad))


def r1_payload(program, rep):
    """What follows the header of a plain SDP packet is the packet's data,
    byte for byte: the decoder takes everything after the header as the
    data, so padding or trimming it on the way out does not round-trip."""
    fn = program.get(MOD + ":SDPPacket.packed_data")
    T = Terms(fn)
    SELF = ("param", "self")
    rets = [plain(T.term(r.value, T.cfg.node_of(r)))
            for r in returns_of(fn) if r.value is not None]
    if not rets:
        raise AnalysisError("SDPPacket.packed_data returns nothing")
    DATA = ("attr", SELF, "data")
    for t in rets:
        if t == DATA or t in (("call", ("global", "bytes"), (DATA,), ()),):
            ok, why = True, ""
        elif any(st == DATA for st in subterms(t)) and t[0] in (
                "binop", "item", "call"):
            ok = False
            why = "the payload written is %s, not the data itself" % \
                show(t)[:70]
        else:
            raise AnalysisError("SDPPacket.packed_data: the payload is not "
                                "read")
        rep.check(ok, "C15-R1", qual(fn), "the payload of an SDP packet is "
                  "its data, unchanged", construct="sdp payload", node=fn,
                  fail=why + ": bytes are added, dropped or altered on the "
                       "way out, and decoding what was sent does not give "
                       "back the data")


def r1_falsy_fields(program, rep):
    """A packet built with a field value of 0 (tag 0, port 0, core 0, chip
    (0, 0), argument word 0) carries that 0: a default chosen by a truth
    test in the constructors would replace it (FALSY, falsy.py; the domain
    of every header / argument field is an unsigned integer)."""
    from .. import falsy
    domains = {}
    for cls in ("SDPPacket", "SCPPacket"):
        fn = program.get(MOD + ":%s.__init__" % cls)
        for p in formals(fn)[1:]:
            if p in ("data", "reply_expected"):
                continue
            domains[("%s:%s.__init__" % (MOD, cls), p)] = \
                "%s is an unsigned integer field of the packet: 0 is one " \
                "of its values" % p
    falsy.rule(program, rep, "C15-R1", [MOD], domains)


def check(program, rep):
    program.module(MOD)
    folder = Folder(program)
    rep.guard("C15-R1", r1_constructor_range, program, folder, rep)
    rep.guard("C15-R2", r2_length_guards, program, folder, rep)
    res = rep.guard("C15-R1", r1_encoder, program, folder, rep)
    rep.guard("C15-R1", r1_forwarding, program, rep)
    rep.guard("C15-R1", r1_falsy_fields, program, rep)
    rep.guard("C15-R1", r1_payload, program, rep)
    if res:
        rep.guard("C15-R2", r2_decoder, program, folder, rep, *res)
    rep.guard("C15-R3", r3_scp, program, folder, rep)
    rep.guard("C15-R3", r3_scp_decoder, program, folder, rep)
    rep.guard("C15-R3", r3_scp_payload, program, folder, rep)
    rep.guard("C15-R4", r4_constants, program, folder, rep)
    # the slips that are visible wherever they occur (NAMELINK, FALSY, STALE,
    # NOEFFECT, SLIPS - DESIGN.md 9.13-9.15), over the property's modules
    from .. import namelink as _nl
    rep.guard("C15-R5", _nl.rule, program, rep, "C15-R5",
              ['rig.machine_control.packets'], floor=0)
    return finish(rep, program, EXPLANATION, NOT_DECIDED,
                  trusted=["the documented SDP header table SDP_LAYOUT in "
                           "rules/C15.py", "struct format semantics "
                           "(standard sizes, as parsed by bits.parse_format "
                           "and cross-checked with struct.calcsize)"])
