"""C11 - hexagonal mesh and torus path functions.

R1 link tables mutually consistent (exhaustive, folded); from_vector folds
   every wrapped component back into {-1, 0, 1}
R2 walk consistency: per-dimension unit steps, labels of the step actually
   taken, the hexagon ring directions
R3 unrolled comparison code equals its stated closed form on every weak
   ordering of its operands; the torus candidates agree between the length
   and the vector function; spiral bound is the truncated quotient
"""
import ast

from ..core import AnalysisError, finish, unparse
from ..constfold import Folder, EnumMember
from ..dataflow import Flow, chain, call_name
from ..absint import Interp
from ..ordtype import weak_orderings, Ordering, Evaluator, OrdError
from ..poly import Poly, le, lt
from ..util import calls_in, qual, formals, returns_of, has_fact, parse_expr

GEO = "rig.geometry"
LNK = "rig.links"
RU = "rig.place_and_route.route.utils"

# SpiNNaker link directions (datasheet): E, NE, N, W, SW, S
VEC = {"east": (1, 0), "north_east": (1, 1), "north": (0, 1),
       "west": (-1, 0), "south_west": (-1, -1), "south": (0, -1)}
ORDER = ["east", "north_east", "north", "west", "south_west", "south"]

EXPLANATION = (
    "R1: links.py is folded in statement order: from_vector's table holds "
    "the six canonical unit vectors plus the two 2xN 'spiral' entries, "
    "to_vector's table is its inverse on exactly the six (built before the "
    "spiral entries), opposite is the vector negation, Links and Routes "
    "agree numerically; the linear-constraint interpreter proves the "
    "components looked up are within [-1, 1] for every input vector and that "
    "a wrapped component flips sign. R2: dominance facts give the per-"
    "dimension step (s,0)/(0,s)/(-s,-s), the label is from_vector of the "
    "step just added, ring directions fold to the six links in rotation "
    "order summing to zero. R3: shortest_mesh_path_length, minimise_xyz and "
    "shortest_torus_path_length are evaluated abstractly on all weak "
    "orderings of their operands (13 / 13 / 4683) and equal max-min, "
    "subtract-the-median and min(max(x,y), w-x+y, x+h-y, max(w-x,h-y)); "
    "shortest_torus_path's four (length, vector) candidates have those same "
    "lengths and the matching vectors.")
NOT_DECIDED = [
    "that the closed forms equal graph distance in the hexagonal mesh / "
    "torus for all sizes (a mathematical fact about the formula; needs a "
    "distance oracle, i.e. a runtime technique)",
    "the random spiral adjustment preserves the hop count (only the bound's "
    "formula is compared with the truncated quotient)",
    "concentric_hexagons yields each chip exactly once (only ring geometry "
    "is checked)",
]


def r1_tables(program, folder, rep):
    links = folder.name(LNK, "Links")
    fv = folder.name(LNK, "_link_direction_lookup")
    tv = folder.name(LNK, "_direction_link_lookup")
    inst = LNK + ":Links"
    names = [m.name for m in links]
    rep.check(names == ORDER and [m.value for m in links] == list(range(6)),
              "C11-R1", inst, "Links = E, NE, N, W, SW, S numbered 0..5 "
              "(hardware link numbers)", construct="Links %s" % names)
    for nm in ORDER:
        m = links.members.get(nm)
        if m is None:
            continue
        v = tv.get(m)
        rep.check(v == VEC[nm], "C11-R1", inst, "to_vector(%s) = %s" % (
            nm, VEC[nm]), construct="to_vector %s = %r" % (nm, v))
        rep.check(fv.get(VEC[nm]) == m, "C11-R1", inst,
                  "from_vector(%s) = %s" % (VEC[nm], nm),
                  construct="from_vector %s = %r" % (VEC[nm],
                                                     fv.get(VEC[nm])))
    extra = {k: v for k, v in fv.items() if k not in VEC.values()}
    rep.check(sorted((k, v.name) for k, v in extra.items()) ==
              [((-1, 1), "north_east"), ((1, -1), "south_west")], "C11-R1",
              inst, "the only extra from_vector entries are the two 2xN "
              "spiral cases", construct="extra from_vector %s" % sorted(
                  (k, v.name) for k, v in extra.items()))
    rep.check(len(tv) == 6 and all(tuple(v) in VEC.values()
                                   for v in tv.values()), "C11-R1", inst,
              "to_vector's table is the inverse on the six unit vectors "
              "only (built before the spiral entries were added)",
              construct="to_vector table size %d" % len(tv))
    # opposite: fold the property body for each member
    opp = program.get(LNK + ":Links.opposite")
    r = returns_of(opp)
    if len(r) != 1:
        raise AnalysisError("Links.opposite: one return expected")
    env = dict(folder.module_env(LNK))
    for m in links:
        e2 = dict(env)
        e2["self"] = m
        o = folder.eval(r[0].value, e2, opp._module)
        a, b = VEC[m.name], VEC.get(getattr(o, "name", None), None)
        rep.check(b is not None and (a[0] + b[0], a[1] + b[1]) == (0, 0),
                  "C11-R1", qual(opp), "opposite(%s) = %s: vectors negate" %
                  (m.name, getattr(o, "name", o)),
                  construct="opposite %s = %r" % (m.name, o))
    routes = folder.name("rig.routing_table.entries", "Routes")
    ok = all(routes.members.get(nm) is not None and
             routes.members[nm].value == links.members[nm].value
             for nm in ORDER)
    rep.check(ok, "C11-R1", "rig.routing_table.entries:Routes", "Routes and "
              "Links agree numerically on the six link names (the code casts "
              "between them)", construct="Routes/Links agreement")
    # from_vector normalisation
    fn = program.get(LNK + ":Links.from_vector")
    fl0 = Flow(fn)
    subs = [n for n in ast.walk(fn) if isinstance(n, ast.Subscript) and
            chain(n.value) == "_link_direction_lookup"]
    if len(subs) != 1 or not isinstance(subs[0].slice, ast.Tuple):
        raise AnalysisError("from_vector: lookup shape changed")
    kx, ky = [chain(e) for e in subs[0].slice.elts]
    X, Y = Poly.atom(kx), Poly.atom(ky)
    it = Interp(fn, candidates=[le(-1, X), le(X, 1), le(-1, Y), le(Y, 1)])
    node = it.cfg.node_containing(subs[0])
    for nm, V in ((kx, X), (ky, Y)):
        rep.check(it.holds_at(node, [le(-1, V), le(V, 1)]), "C11-R1",
                  qual(fn), "the %s component looked up is always in {-1, 0, "
                  "1}: every wrapped component is folded back" % nm,
                  construct="from_vector %s range" % nm, node=subs[0],
                  fail="a vector whose %s component has magnitude 2 reaches "
                       "the lookup un-normalised (KeyError on a 3-wide "
                       "torus); state: %s" % (nm, it.describe(node)))
    # the fold flips the sign
    for d in fl0.defs:
        if d.var in (kx, ky) and d.mode == "assign" and \
                isinstance(d.value, ast.IfExp):
            v = d.value
            ok = unparse(v.test) == "%s > 0" % d.var and \
                folder.eval(v.body, {}, fn._module) == -1 and \
                folder.eval(v.orelse, {}, fn._module) == 1
            rep.check(ok, "C11-R1", qual(fn), "a wrapped %s component maps "
                      "to the opposite unit step" % d.var,
                      construct="from_vector %s fold %s" % (d.var,
                                                            unparse(v)),
                      node=v)
    rep.floor("C11-R1", 24)


def r2_walk(program, folder, rep):
    fn = program.get(RU + ":longest_dimension_first")
    inst = qual(fn)
    fl = Flow(fn)
    want = {0: ("sign", "0"), 1: ("0", "sign"), 2: ("-sign", "-sign")}
    seen = {}
    for n in ast.walk(fn):
        if isinstance(n, ast.Assign) and isinstance(n.targets[0], ast.Tuple)\
                and [chain(t) for t in n.targets[0].elts] == ["dx", "dy"]:
            node = fl.cfg.node_of(n)
            for c, pol, _ in fl.facts(node):
                if pol and isinstance(c, ast.Compare) and \
                        chain(c.left) == "dimension" and \
                        isinstance(c.ops[0], ast.Eq):
                    k = folder.eval(c.comparators[0], {}, fn._module)
                    seen[k] = tuple(unparse(e) for e in n.value.elts)
    for k in (0, 1, 2):
        rep.check(seen.get(k) == want[k], "C11-R2", inst,
                  "dimension %d steps by (%s, %s)" % ((k,) + want[k]),
                  construct="dimension %d step %s" % (k, seen.get(k)),
                  node=fn)
    sg = [d for d in fl.defs if d.var == "sign" and d.mode == "assign"]
    rep.check(len(sg) == 1 and unparse(sg[0].value) ==
              "1 if magnitude > 0 else -1", "C11-R2", inst,
              "sign = +1 for a positive magnitude, else -1",
              construct="sign", node=fn)
    # the label is from_vector of the step just added
    fv = calls_in(fn, "from_vector")
    ok = False
    if len(fv) == 1 and isinstance(fv[0].args[0], ast.Tuple):
        nodec = fl.cfg.node_containing(fv[0])
        names = [chain(e) for e in fv[0].args[0].elts]
        adds = {}
        for d in fl.defs:
            if d.mode == "aug" and d.var in ("x", "y") and \
                    isinstance(d.value.op, ast.Add):
                adds[d.var] = (chain(d.value.value), d.node)
        ok = names == ["dx", "dy"] and adds.get("x", (None,))[0] == "dx" \
            and adds.get("y", (None,))[0] == "dy" and all(
                [q.id for q in fl.reaching(nm, nodec)] ==
                [q.id for q in fl.reaching(nm, adds[v][1])]
                for nm, v in (("dx", "x"), ("dy", "y")))
    rep.check(ok, "C11-R2", inst, "each step is labelled with "
              "Links.from_vector of exactly the (dx, dy) added to the "
              "position", construct="step label", node=fn)
    ap = calls_in(fn, "append")
    oka = len(ap) == 1 and isinstance(ap[0].args[0], ast.Tuple) and \
        unparse(ap[0].args[0].elts[1]) == "(x, y)"
    wraps = {d.var: unparse(d.value.value) for d in fl.defs
             if d.mode == "aug" and isinstance(d.value.op, ast.Mod)}
    rep.check(oka and wraps == {"x": "width", "y": "height"}, "C11-R2",
              inst, "positions are wrapped modulo (width, height) and "
              "recorded after the step", construct="walk wrap", node=fn)
    rg = [n for n in ast.walk(fn) if isinstance(n, ast.For) and
          isinstance(n.iter, ast.Call) and unparse(n.iter) ==
          "range(abs(magnitude))"]
    rep.check(len(rg) == 1, "C11-R2", inst, "|magnitude| unit steps per "
              "dimension", construct="steps per dimension", node=fn)
    # links_between
    lb = program.get(RU + ":links_between")
    t = unparse(lb)
    ok = "(ax + dx) % machine.width == bx" in t and \
        "(ay + dy) % machine.height == by" in t and \
        "(ax, ay, link) in machine" in t and "l.to_vector()" in t
    rep.check(ok, "C11-R2", qual(lb), "links_between(a, b): links l of a "
              "with a + vec(l) == b (mod size) that are working at a",
              construct="links_between", node=lb)
    # hexagon rings
    ch = program.get(GEO + ":concentric_hexagons")
    dirs = None
    for n in ast.walk(ch):
        if isinstance(n, ast.For) and isinstance(n.iter, (ast.List,
                                                         ast.Tuple)):
            dirs = [tuple(v) for v in folder.eval(n.iter, {}, ch._module)]
    inv = {v: k for k, v in VEC.items()}
    ok = dirs is not None and len(dirs) == 6 and \
        all(d in inv for d in dirs) and \
        (sum(d[0] for d in dirs), sum(d[1] for d in dirs)) == (0, 0)
    if ok:
        idx = [ORDER.index(inv[d]) for d in dirs]
        ok = all((idx[i + 1] - idx[i]) % 6 == 1 for i in range(5))
    rep.check(ok, "C11-R2", qual(ch), "ring directions are the six link "
              "vectors in rotation order and sum to zero",
              construct="hexagon directions %s" % (dirs,), node=ch)
    cfl = Flow(ch)
    dec = [d for d in cfl.defs if d.var == "y" and d.mode == "aug" and
           isinstance(d.value.op, ast.Sub) and
           isinstance(d.value.value, ast.Constant) and
           d.value.value.value == 1]
    rings = [n for n in ast.walk(ch) if isinstance(n, ast.For) and
             unparse(n.iter) == "range(1, radius + 1)"]
    sides = [n for n in ast.walk(ch) if isinstance(n, ast.For) and
             unparse(n.iter) == "range(r)"]
    rep.check(len(dec) == 1 and len(rings) == 1 and len(sides) == 1,
              "C11-R2", qual(ch), "rings 1..radius, each entered one step "
              "south of the previous, r steps per side",
              construct="hexagon ring structure", node=ch)
    rep.floor("C11-R2", 9)


def _ord_eval(fn, terms, env_for, spec, rep, rule, text, premise=None):
    bad = []
    n = 0
    for ranks in weak_orderings(len(terms)):
        o = Ordering(terms, ranks)
        if premise is not None and not premise(o):
            continue
        n += 1
        try:
            got = Evaluator(fn, o, env_for(o)).run()
        except OrdError as e:
            raise AnalysisError("%s: outside the comparison-only fragment: "
                                "%s" % (fn.name, e))
        want = spec(o)
        if isinstance(got, tuple):
            same = isinstance(want, tuple) and len(got) == len(want) and \
                all(o.sign(g - w) == 0 for g, w in zip(got, want))
        else:
            same = isinstance(got, Poly) and o.sign(got - want) == 0
        if not same:
            bad.append((ranks, got, want))
    rep.check(not bad, rule, qual(fn), "%s on all %d weak orderings of its "
              "operands" % (text, n), construct="%s orderings" % fn.name,
              node=fn,
              fail="%s: differs from '%s' on %d of %d orderings, e.g. ranks "
                   "%s over %s: returns %s, expected %s" % (
                       fn.name, text, len(bad), n, bad[0][0] if bad else "",
                       terms, bad[0][1] if bad else "",
                       bad[0][2] if bad else ""))
    return n


def r3_closed_forms(program, folder, rep):
    T = lambda n: Poly.atom(n)   # noqa
    # mesh length
    fn = program.get(GEO + ":shortest_mesh_path_length")
    s, d = formals(fn)
    terms = ["x", "y", "z"]

    def env(o):
        e = {}
        for i, t in enumerate(terms):
            e["%s[%d]" % (d, i)] = T(t)
            e["%s[%d]" % (s, i)] = Poly.const(0)
        return e

    def spec(o):
        hi = max(terms, key=lambda t: o.rank[t])
        lo = min(terms, key=lambda t: o.rank[t])
        return T(hi) - T(lo)
    _ord_eval(fn, terms, env, spec, rep, "C11-R3",
              "result = max(x,y,z) - min(x,y,z)")
    # minimise_xyz
    fn = program.get(GEO + ":minimise_xyz")
    p = formals(fn)[0]

    class TupleEnv(dict):
        pass

    def env2(o):
        return {p: (T("x"), T("y"), T("z"))}

    def spec2(o):
        med = sorted(terms, key=lambda t: o.rank[t])[1]
        return (T("x") - T(med), T("y") - T(med), T("z") - T(med))
    _ord_eval(fn, terms, env2, spec2, rep, "C11-R3",
              "result = (x, y, z) minus the median component")
    # torus length: bind the derived quantities to opaque terms by normal form
    fn = program.get(GEO + ":shortest_torus_path_length")
    fl = Flow(fn)
    ps = formals(fn)
    wv, hv = ps[2], ps[3]
    # find the definitions after the reduction modulo w, h
    mods = {d.var: d for d in fl.defs if d.mode == "aug" and
            isinstance(d.value.op, ast.Mod)}
    if set(mods) != {"x", "y"}:
        raise AnalysisError("shortest_torus_path_length: reduction modulo "
                            "w/h not found")
    start = max(mods["x"].node.id, mods["y"].node.id)
    last_mod = mods["x"].node if mods["x"].node.id == start else \
        mods["y"].node
    okm = unparse(mods["x"].value.value) in ("w", wv) and \
        unparse(mods["y"].value.value) in ("h", hv)
    rep.check(okm, "C11-R3", qual(fn), "offsets are reduced modulo width "
              "(x) and height (y)", construct="torus reduction", node=fn)
    pre = [d for d in fl.defs if d.mode in ("assign", "unpack") and
           d.var in ("x", "y") and d.node.id < start]
    # x, y = x - z, y - z over destination - source
    X = fl.sym_after(parse_expr("x"), last_mod)
    Y = fl.sym_after(parse_expr("y"), last_mod)
    Wp = fl.sym(parse_expr("w"), last_mod)
    Hp = fl.sym(parse_expr("h"), last_mod)
    spec_polys = {"a": X, "b": Y, "c": Wp - X + Y, "d": X + Hp - Y,
                  "e": Wp - X, "f": Hp - Y}
    inv = {}
    for k, v in spec_polys.items():
        inv[v.key()] = k
    terms6 = ["a", "b", "c", "d", "e", "f"]
    # statements after the reduction
    body = fn.body
    idx = None
    for i, st in enumerate(body):
        if st is mods["x"].node.ast or st is mods["y"].node.ast:
            idx = i
    tail_fn = ast.FunctionDef(name=fn.name, args=fn.args,
                              body=body[idx + 1:], decorator_list=[],
                              returns=None, type_comment=None)
    tail_fn._module = fn._module
    tail_fn._qualname = fn._qualname

    def hook(st):
        # an assignment whose value is one of the six candidate quantities
        # becomes that opaque term
        if isinstance(st, ast.Assign):
            node = fl.cfg.node_of(st)
            v = st.value
            if isinstance(v, ast.IfExp):
                return None
            try:
                p_ = fl.sym(v, node)
            except AnalysisError:
                return None
            k = inv.get(p_.key())
            return T(k) if k else None
        return None

    def env6(o):
        return {"x": T("a"), "y": T("b"), "<assign-hook>": hook}

    def spec6(o):
        r = o.rank
        c1 = "a" if r["a"] > r["b"] else "b"
        c4 = "e" if r["e"] > r["f"] else "f"
        best = min([c1, "c", "d", c4], key=lambda t: r[t])
        return T(best)
    n = _ord_eval(tail_fn, terms6, env6, spec6, rep, "C11-R3",
                  "result = min(max(x,y), w-x+y, x+h-y, max(w-x,h-y))")
    rep.note("ORDTYPE: %d orderings of the six torus candidates" % n)
    # shortest_torus_path: the four candidates
    fn2 = program.get(GEO + ":shortest_torus_path")
    f2 = Flow(fn2)
    ap = [d for d in f2.defs if d.var == "approaches" and d.mode == "assign"]
    if len(ap) != 1 or not isinstance(ap[0].value, ast.List):
        raise AnalysisError("shortest_torus_path: approaches list")
    node = ap[0].node
    sx = lambda t: f2.sym(parse_expr(t), node)   # noqa
    want = [("max(dx, dy)", ("dx", "dy", "0")),
            ("w - dx + dy", ("-(w - dx)", "dy", "0")),
            ("dx + h - dy", ("dx", "-(h - dy)", "0")),
            ("max(w - dx, h - dy)", ("-(w - dx)", "-(h - dy)", "0"))]
    elts = ap[0].value.elts
    rep.check(len(elts) == 4, "C11-R3", qual(fn2), "four wrap choices are "
              "considered", construct="approach count %d" % len(elts),
              node=fn2)
    got_l = []
    for e in elts:
        if isinstance(e, ast.Tuple) and len(e.elts) == 2 and \
                isinstance(e.elts[1], ast.Tuple):
            got_l.append((f2.sym(e.elts[0], node),
                          tuple(f2.sym(v, node) for v in e.elts[1].elts)))
    for (wl, wvv) in want:
        w_l = sx(wl)
        w_v = tuple(sx(t) for t in wvv)
        ok = any(g[0] == w_l and g[1] == w_v for g in got_l)
        rep.check(ok, "C11-R3", qual(fn2), "candidate: length %s with "
                  "vector (%s)" % (wl, ", ".join(wvv)),
                  construct="approach %s" % wl, node=fn2,
                  fail="no candidate pairs the length %s with the vector "
                       "(%s): the reported vector and the reported length "
                       "disagree" % (wl, ", ".join(wvv)))
    # dx, dy reduced the same way as the length function
    dd = [d for d in f2.defs if d.var in ("dx", "dy") and
          d.mode == "assign" and isinstance(d.value, ast.BinOp) and
          isinstance(d.value.op, ast.Mod)]
    rep.check(len(dd) == 2 and {unparse(d.value.right) for d in dd} ==
              {"w", "h"}, "C11-R3", qual(fn2), "the vector function reduces "
              "the offsets modulo (w, h) like the length function",
              construct="vector reduction", node=fn2)
    # minimum is taken over the candidate lengths
    mn = [c for c in calls_in(fn2, "min") if c.args and
          chain(c.args[0]) == "approaches"]
    okk = False
    for c in mn:
        for k in c.keywords:
            if k.arg == "key" and isinstance(k.value, ast.Lambda):
                b = unparse(k.value.body)
                a = k.value.args.args[0].arg
                okk = b.startswith("%s[0] + random" % a)
    rep.check(okk, "C11-R3", qual(fn2), "the shortest candidate is chosen "
              "(ties broken randomly by a fraction < 1)",
              construct="candidate selection", node=fn2)
    # spiral bound: truncated quotient
    for var, size in (("x", "height"), ("y", "width")):
        ms = [d for d in f2.defs if d.var == "max_spirals" and
              size in unparse(d.value)]
        ok = False
        detail = ""
        if len(ms) == 1:
            v = ms[0].value
            detail = unparse(v)
            if isinstance(v, ast.BinOp) and isinstance(v.op, ast.FloorDiv) \
                    and isinstance(v.left, ast.IfExp) and \
                    unparse(v.right) == size:
                t = v.left
                neg = f2.sym(t.body, ms[0].node)
                pos = f2.sym(t.orelse, ms[0].node)
                V = f2.symvar(var, ms[0].node)
                S = f2.symvar(size, ms[0].node)
                ok = unparse(t.test) == "%s < 0" % var and \
                    neg == V + S - 1 and pos == V
        rep.check(ok, "C11-R3", qual(fn2), "spiral bound for %s = quotient "
                  "of %s by %s truncated toward zero ((v + s - 1) // s for "
                  "negative v, v // s otherwise)" % (var, var, size),
                  construct="spiral bound %s: %s" % (var, detail), node=fn2,
                  fail="the number of whole spirals available along %s is "
                       "computed as %s, which is not %s/%s truncated toward "
                       "zero: the adjusted vector can overshoot" % (
                           var, detail, var, size))
    rep.floor("C11-R3", 12)


def check(program, rep):
    program.module(GEO)
    folder = Folder(program)
    rep.guard("C11-R1", r1_tables, program, folder, rep)
    rep.guard("C11-R2", r2_walk, program, folder, rep)
    rep.guard("C11-R3", r3_closed_forms, program, folder, rep)
    return finish(rep, program, EXPLANATION, NOT_DECIDED,
                  trusted=["link vector table VEC in rules/C11.py",
                           "ORDTYPE evaluator"], exhaustive=True)
