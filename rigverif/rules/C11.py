"""C11 - hexagonal mesh and torus path functions.

R1 link tables mutually consistent (exhaustive, folded); from_vector folds
   every wrapped component back into {-1, 0, 1}
R2 walk consistency: per-dimension unit steps, labels of the step actually
   taken, the hexagon ring directions
R3 unrolled comparison code equals its stated closed form on every weak
   ordering of its operands; the torus candidates agree between the length
   and the vector function; spiral bound is the truncated quotient
"""
import ast

from ..core import AnalysisError, finish, unparse
from ..constfold import Folder, EnumMember
from ..dataflow import Flow, chain, call_name
from ..absint import Interp
from ..ordtype import weak_orderings, Ordering, Evaluator, OrdError
from ..poly import Poly, le, lt
from ..terms import Terms, reify, plain, match, V, ANY, show, subterms, \
    mk_cmp, is_none, method_calls, alternatives, stores, yields, one_level
from ..util import calls_in, qual, formals, returns_of, has_fact, parse_expr, \
    bind

GEO = "rig.geometry"
LNK = "rig.links"
RU = "rig.place_and_route.route.utils"

# SpiNNaker link directions (datasheet): E, NE, N, W, SW, S
VEC = {"east": (1, 0), "north_east": (1, 1), "north": (0, 1),
       "west": (-1, 0), "south_west": (-1, -1), "south": (0, -1)}
ORDER = ["east", "north_east", "north", "west", "south_west", "south"]

EXPLANATION = (
    "R1: links.py is folded in statement order: from_vector's table holds "
    "the six canonical unit vectors plus the two 2xN 'spiral' entries, "
    "to_vector's table is its inverse on exactly the six (built before the "
    "spiral entries), opposite is the vector negation, Links and Routes "
    "agree numerically; the linear-constraint interpreter proves the "
    "components looked up are within [-1, 1] for every input vector and that "
    "a wrapped component flips sign. R2: dominance facts give the per-"
    "dimension step (s,0)/(0,s)/(-s,-s), the label is from_vector of the "
    "step just added, ring directions fold to the six links in rotation "
    "order summing to zero. R3: shortest_mesh_path_length, minimise_xyz and "
    "shortest_torus_path_length are evaluated abstractly on all weak "
    "orderings of their operands (13 / 13 / 4683) and equal max-min, "
    "subtract-the-median and min(max(x,y), w-x+y, x+h-y, max(w-x,h-y)); "
    "shortest_torus_path's four (length, vector) candidates have those same "
    "lengths and the matching vectors.")
EXPLANATION += (
    " R5: name-based axis roles at every call site of a geometry function "
    "in the package (width/height, x/y, root_x/root_y).")
NOT_DECIDED = [
    "that the closed forms equal graph distance in the hexagonal mesh / "
    "torus for all sizes (a mathematical fact about the formula; needs a "
    "distance oracle, i.e. a runtime technique)",
    "the random spiral adjustment preserves the hop count (only the bound's "
    "formula is compared with the truncated quotient)",
    "concentric_hexagons yields each chip exactly once (only ring geometry "
    "is checked)",
]


def r1_tables(program, folder, rep):
    links = folder.name(LNK, "Links")
    fv = folder.name(LNK, "_link_direction_lookup")
    tv = folder.name(LNK, "_direction_link_lookup")
    inst = LNK + ":Links"
    names = [m.name for m in links]
    rep.check(names == ORDER and [m.value for m in links] == list(range(6)),
              "C11-R1", inst, "Links = E, NE, N, W, SW, S numbered 0..5 "
              "(hardware link numbers)", construct="Links %s" % names)
    for nm in ORDER:
        m = links.members.get(nm)
        if m is None:
            continue
        v = tv.get(m)
        rep.check(v == VEC[nm], "C11-R1", inst, "to_vector(%s) = %s" % (
            nm, VEC[nm]), construct="to_vector %s = %r" % (nm, v))
        rep.check(fv.get(VEC[nm]) == m, "C11-R1", inst,
                  "from_vector(%s) = %s" % (VEC[nm], nm),
                  construct="from_vector %s = %r" % (VEC[nm],
                                                     fv.get(VEC[nm])))
    extra = {k: v for k, v in fv.items() if k not in VEC.values()}
    rep.check(sorted((k, v.name) for k, v in extra.items()) ==
              [((-1, 1), "north_east"), ((1, -1), "south_west")], "C11-R1",
              inst, "the only extra from_vector entries are the two 2xN "
              "spiral cases", construct="extra from_vector %s" % sorted(
                  (k, v.name) for k, v in extra.items()))
    rep.check(len(tv) == 6 and all(tuple(v) in VEC.values()
                                   for v in tv.values()), "C11-R1", inst,
              "to_vector's table is the inverse on the six unit vectors "
              "only (built before the spiral entries were added)",
              construct="to_vector table size %d" % len(tv))
    # opposite: fold the property body for each member
    opp = program.get(LNK + ":Links.opposite")
    r = returns_of(opp)
    if len(r) != 1:
        raise AnalysisError("Links.opposite: one return expected")
    env = dict(folder.module_env(LNK))
    for m in links:
        e2 = dict(env)
        e2["self"] = m
        o = folder.eval(r[0].value, e2, opp._module)
        a, b = VEC[m.name], VEC.get(getattr(o, "name", None), None)
        rep.check(b is not None and (a[0] + b[0], a[1] + b[1]) == (0, 0),
                  "C11-R1", qual(opp), "opposite(%s) = %s: vectors negate" %
                  (m.name, getattr(o, "name", o)),
                  construct="opposite %s = %r" % (m.name, o))
    routes = folder.name("rig.routing_table.entries", "Routes")
    ok = all(routes.members.get(nm) is not None and
             routes.members[nm].value == links.members[nm].value
             for nm in ORDER)
    rep.check(ok, "C11-R1", "rig.routing_table.entries:Routes", "Routes and "
              "Links agree numerically on the six link names (the code casts "
              "between them)", construct="Routes/Links agreement")
    # from_vector normalisation
    fn = program.get(LNK + ":Links.from_vector")
    fl0 = Flow(fn)
    subs = [n for n in ast.walk(fn) if isinstance(n, ast.Subscript) and
            chain(n.value) == "_link_direction_lookup"]
    if len(subs) != 1 or not isinstance(subs[0].slice, ast.Tuple):
        raise AnalysisError("from_vector: lookup shape changed")
    kx, ky = [chain(e) for e in subs[0].slice.elts]
    if kx is None or ky is None:
        raise AnalysisError("from_vector: the components looked up are not "
                            "plain variables (folded by a helper?); that "
                            "form is not analysed")
    X, Y = Poly.atom(kx), Poly.atom(ky)
    it = Interp(fn, candidates=[le(-1, X), le(X, 1), le(-1, Y), le(Y, 1)])
    node = it.cfg.node_containing(subs[0])
    for nm, V in ((kx, X), (ky, Y)):
        rep.check(it.holds_at(node, [le(-1, V), le(V, 1)]), "C11-R1",
                  qual(fn), "the %s component looked up is always in {-1, 0, "
                  "1}: every wrapped component is folded back" % nm,
                  construct="from_vector %s range" % nm, node=subs[0],
                  fail="a vector whose %s component has magnitude 2 reaches "
                       "the lookup un-normalised (KeyError on a 3-wide "
                       "torus); state: %s" % (nm, it.describe(node)))
    # the fold flips the sign
    for d in fl0.defs:
        if d.var in (kx, ky) and d.mode == "assign" and \
                isinstance(d.value, ast.IfExp):
            v = d.value
            # (x > 0 -> -1, else 1) or the same with the test the other way
            # round; the component is not 0 here, so >= reads like >
            vx = ast.Name(id=d.var, ctx=ast.Load())
            tb = folder.eval(v.body, {}, fn._module)
            to = folder.eval(v.orelse, {}, fn._module)
            t_ = v.test
            form = None
            if isinstance(t_, ast.Compare) and len(t_.ops) == 1:
                l_, r_ = unparse(t_.left), unparse(t_.comparators[0])
                opn = type(t_.ops[0]).__name__
                if r_ == "0" and l_ == d.var:
                    form = {"Gt": "pos", "GtE": "pos", "Lt": "neg",
                            "LtE": "neg"}.get(opn)
                elif l_ == "0" and r_ == d.var:
                    form = {"Lt": "pos", "LtE": "pos", "Gt": "neg",
                            "GtE": "neg"}.get(opn)
            if form is None:
                raise AnalysisError("from_vector: the fold of %s is decided "
                                    "by a test these rules do not read (%s)"
                                    % (d.var, unparse(t_)))
            ok = (tb, to) == ((-1, 1) if form == "pos" else (1, -1))
            rep.check(ok, "C11-R1", qual(fn), "a wrapped %s component maps "
                      "to the opposite unit step" % d.var,
                      construct="from_vector %s fold %s" % (d.var,
                                                            unparse(v)),
                      node=v)
    rep.floor("C11-R1", 24)


def r2_walk(program, folder, rep):
    """The walk is evaluated case by case (dimension 0/1/2 x sign of the
    magnitude) on value terms: what is added to the position and what the
    hop is labelled with, wherever in the loops those are computed."""
    fn = program.get(RU + ":longest_dimension_first")
    inst = qual(fn)
    T = Terms(fn)
    cfg = T.cfg
    fv = calls_in(fn, "from_vector")
    aps = [x for x in method_calls(T, "append")
           if len(x[3]) == 1 and x[3][0][0] == "tuple" and len(x[3][0]) == 3]
    if len(fv) != 1 or len(aps) != 1:
        raise AnalysisError("longest_dimension_first: one labelled step per "
                            "hop expected")
    an, acall, alist, (hop,) = aps[0]
    fnode = cfg.node_containing(fv[0])
    # dimension / magnitude: the two components of what the outer loop
    # iterates
    outer = acall
    loops = []
    while outer is not None and outer is not fn:
        if isinstance(outer, ast.For):
            loops.append(outer)
        outer = getattr(outer, "_parent", None)
    if len(loops) != 2:
        raise AnalysisError("longest_dimension_first: dimension / hop loops")
    hop_l, dim_l = loops
    E = T._elem(T.term(dim_l.iter, cfg.loop_head[id(dim_l)]))
    DIM, MAG = T._comp(E, 0, 2), T._comp(E, 1, 2)
    want = {0: (1, 0), 1: (0, 1), 2: (-1, -1)}
    bad_step = bad_label = bad_wrap = False
    why = ""
    wrong_axis = []     # a component wrapped by the size of the other axis
    deferred = []       # forms not read: no verdict, said at the end
    ps_ = formals(fn)
    if "width" not in ps_ or "height" not in ps_:
        raise AnalysisError("longest_dimension_first: width / height "
                            "parameters")
    SIZES = (("param", "width"), ("param", "height"))
    pos_expr = acall.args[0].elts[1] if isinstance(
        acall.args[0], ast.Tuple) and len(acall.args[0].elts) == 2 else None
    if pos_expr is None:
        raise AnalysisError("longest_dimension_first: the hop recorded")

    def state_of(base):
        """(merge, component or None) when ``base`` reads the loop-carried
        position."""
        if base[0] == "mu":
            return base[1], None
        if base[0] == "comp" and base[1][0] == "mu":
            return base[1][1], base[2]
        return None
    for k in (0, 1, 2):
        for sgn in (1, -1):
            dims = [(mk_cmp("Eq", DIM, ("const", j)), j == k)
                    for j in range(k + 1)]
            dims += [(mk_cmp("Lt", ("const", 0), MAG), sgn == 1),
                     (mk_cmp("Eq", MAG, ("const", 0)), False)]
            exp = ("tuple", ("const", sgn * want[k][0]),
                   ("const", sgn * want[k][1]))
            for wn in (True, False):
                for hn in (True, False):
                    H = T.under(*(dims + [(is_none(SIZES[0]), wn),
                                          (is_none(SIZES[1]), hn)]))
                    lab = H.term(fv[0].args[0], fnode)
                    if _fold_t(lab) != exp:
                        bad_label = True
                    rec = _fold_t(H.term(pos_expr, an))
                    if rec[0] != "tuple" or len(rec) != 3:
                        raise AnalysisError(
                            "longest_dimension_first: the position recorded "
                            "with a hop is not a pair in this form")
                    for i, none in ((0, wn), (1, hn)):
                        c = rec[1 + i]
                        if not none:
                            alts = alternatives(c)
                            if len(alts) > 1:
                                # a conditional correction (x - W above the
                                # edge, x % W below): the size it uses is
                                # read, its conditions are not
                                for a_ in alts:
                                    if a_[0] == "binop" and a_[1] in (
                                            "Mod", "Sub", "Add") and \
                                            a_[3] in SIZES:
                                        if a_[3] != SIZES[i]:
                                            wrong_axis.append(
                                                "component %d is corrected "
                                                "by %s" % (i, a_[3][1]))
                                if not wrong_axis:
                                    deferred.append(
                                        "longest_dimension_first: the "
                                        "position is wrapped by conditional "
                                        "corrections, a form whose "
                                        "conditions this rule does not read")
                                continue
                            elif not (c[0] == "binop" and c[1] == "Mod" and
                                      c[3] in SIZES):
                                bad_wrap = True
                                why = "component %d not taken modulo %s" % (
                                    i, SIZES[i][1])
                                continue
                            elif c[3] != SIZES[i]:
                                wrong_axis.append("component %d is taken "
                                                  "modulo %s" % (i, c[3][1]))
                                continue
                            else:
                                c = c[2]
                        elif c[0] == "binop" and c[1] == "Mod":
                            bad_wrap = True
                            continue
                        d = exp[1 + i][1]
                        base = c
                        if c[0] == "binop" and c[1] == "Add" and any(
                                z[0] == "const" for z in (c[2], c[3])):
                            cst = [z for z in (c[2], c[3])
                                   if z[0] == "const"][0]
                            base = c[3] if c[2] is cst else c[2]
                            if cst[1] != d:
                                bad_step = True
                                why = "dimension %d adds %r to component " \
                                    "%d" % (k, cst[1], i)
                        elif d != 0:
                            bad_step = True
                            why = "dimension %d does not move component " \
                                "%d" % (k, i)
                        st = state_of(base)
                        if st is None:
                            raise AnalysisError(
                                "longest_dimension_first: the position a "
                                "hop starts from is not the loop-carried "
                                "position in this form")
                        mu, comp = st
                        ups = [mu.T.binds[j] for j in mu.ids
                               if _within(mu.T.binds[j].node.ast, hop_l) and
                               mu.T.binds[j].mode != "iter"]
                        want_v = rec[1 + i] if comp is None else rec
                        for b_ in ups:
                            if _fold_t(H._bind_term(b_)) != want_v:
                                bad_step = True
                                why = "the position carried to the next " \
                                    "hop is not the one recorded"
                        if not ups and not (d == 0 and none):
                            bad_step = True
                            why = "the position is not carried to the " \
                                "next hop"
    rep.check(not bad_step, "C11-R2", inst, "dimension 0 / 1 / 2 steps by "
              "(s, 0) / (0, s) / (-s, -s) with s the sign of the magnitude, "
              "from the position the previous hop recorded",
              construct="dimension steps", node=fn,
              fail="the walk does not step by (s, 0) / (0, s) / (-s, -s) "
                   "from the previous position: %s" % why)
    rep.check(not bad_label, "C11-R2", inst, "each step is labelled with "
              "Links.from_vector of exactly the (dx, dy) added to the "
              "position", construct="step label", node=fn)
    lab_t = T.term(fv[0], fnode)
    rep.check(hop[1] == lab_t or lab_t in alternatives(hop[1]), "C11-R2",
              inst, "the hop recorded carries that label",
              construct="sign", node=fn)
    rep.check(not wrong_axis, "C11-R2", inst, "x is wrapped by the width "
              "and y by the height", construct="walk wrap axis", node=fn,
              positive=True,
              fail="the walk wraps a coordinate by the size of the other "
                   "axis (%s): on a machine that is not square the hops land "
                   "on the wrong chips" % "; ".join(sorted(set(wrong_axis))))
    okw = not bad_wrap or bool(deferred)
    rep.check(okw, "C11-R2",
              inst, "positions are wrapped modulo (width, height) and "
              "recorded after the step", construct="walk wrap", node=fn)
    it = plain(T.term(hop_l.iter, cfg.loop_head[id(hop_l)]))
    rep.check(it == ("call", ("global", "range"),
                     (("call", ("global", "abs"), (plain(MAG),), ()),), ()),
              "C11-R2", inst, "|magnitude| unit steps per "
              "dimension", construct="steps per dimension", node=fn)
    # links_between
    lb = program.get(RU + ":links_between")
    L = Terms(lb)
    ps = formals(lb)
    A_, B_, M_ = [("param", p_) for p_ in ps[:3]]
    rets = [L.term(r.value) for r in returns_of(lb) if r.value is not None]
    ok = False
    if len(rets) == 1:
        built = L.filtered(rets[0])
        if built and len(built) == 1:
            itb, elt, conds = built[0]
            LINK = elt
            vec = None
            for c, p_ in conds:
                for st in subterms(c):
                    if st[0] in ("call", "callv") and st[1][0] == "attr" \
                            and st[1][2] == "to_vector":
                        vec = st
            if vec is not None and plain(vec[1][1]) == plain(LINK):
                ax, ay = L._comp(A_, 0, 2), L._comp(A_, 1, 2)
                bx, by = L._comp(B_, 0, 2), L._comp(B_, 1, 2)

                def step(a, k, size):
                    v = L._comp(vec, k, 2)
                    return [mk_cmp("Eq", ("binop", "Mod",
                                          ("binop", "Add", a, v),
                                          ("attr", M_, size)), b)
                            for b in (bx if k == 0 else by,)] + \
                        [mk_cmp("Eq", ("binop", "Mod",
                                       ("binop", "Add", v, a),
                                       ("attr", M_, size)), b)
                         for b in (bx if k == 0 else by,)]
                cs = [(plain(c), p_) for c, p_ in conds]
                ok = any((plain(x), True) in cs
                         for x in step(ax, 0, "width")) and \
                    any((plain(x), True) in cs
                        for x in step(ay, 1, "height")) and \
                    (plain(mk_cmp("In", ("tuple", ax, ay, LINK), M_)),
                     True) in cs and len(cs) == 3 and \
                    show(plain(LINK)).count("Links") >= 1
    if not ok:
        # read only in the form: one comprehension over Links with the three
        # tests as separate conditions
        built_ = L.filtered(rets[0]) if len(rets) == 1 else None
        plain_form = bool(built_) and len(built_) == 1 and \
            len(built_[0][2]) == 3
        if not plain_form:
            raise AnalysisError("links_between: the links are not selected "
                                "by one comprehension with the position "
                                "tests and the liveness test as separate "
                                "conditions; that form is not analysed")
    rep.check(ok, "C11-R2", qual(lb), "links_between(a, b): links l of a "
              "with a + vec(l) == b (mod size) that are working at a",
              construct="links_between", node=lb)
    # hexagon rings
    ch = program.get(GEO + ":concentric_hexagons")
    H = Terms(ch)

    def depth(node_ast):
        d = 0
        p_ = getattr(node_ast, "_parent", None)
        while p_ is not None and p_ is not ch:
            if isinstance(p_, (ast.For, ast.While)):
                d += 1
            p_ = getattr(p_, "_parent", None)
        return d
    fors = sorted([n for n in ast.walk(ch) if isinstance(n, ast.For)],
                  key=depth)
    if len(fors) != 3 or [depth(f_) for f_ in fors] != [0, 1, 2]:
        raise AnalysisError("concentric_hexagons: ring / side / step loops")
    ring_l, side_l, step_l = fors
    RING = ("elem", H.term(ring_l.iter, H.cfg.loop_head[id(ring_l)]))
    side_it = H.term(side_l.iter, H.cfg.loop_head[id(side_l)])
    dirs = None
    sd = side_it[2] if side_it[0] == "new" else side_it
    if sd[0] in ("list", "tuple"):
        try:
            dirs = [tuple(_fold_t(c)[1] for c in d_[1:]) for d_ in sd[1:]]
        except Exception:
            dirs = None
    inv = {v: k for k, v in VEC.items()}
    ok = dirs is not None and len(dirs) == 6 and \
        all(d in inv for d in dirs) and \
        (sum(d[0] for d in dirs), sum(d[1] for d in dirs)) == (0, 0)
    if ok:
        idx = [ORDER.index(inv[d]) for d in dirs]
        ok = all((idx[i + 1] - idx[i]) % 6 == 1 for i in range(5))
    rep.check(ok, "C11-R2", qual(ch), "ring directions are the six link "
              "vectors in rotation order and sum to zero",
              construct="hexagon directions %s" % (dirs,), node=ch)
    rp = plain(RING[1])
    okr = rp in (("call", ("global", "range"), (("const", 1), (
        "binop", "Add", ("param", formals(ch)[0]), ("const", 1))), ()),
        ("call", ("global", "range"), (("const", 1), (
            "binop", "Add", ("const", 1), ("param", formals(ch)[0]))), ()))
    okr = okr and plain(H.term(step_l.iter, H.cfg.loop_head[id(step_l)])) \
        == ("call", ("global", "range"), (plain(RING),), ())
    if not okr:
        # the same rings counted some other way: range(a, b) with b - a the
        # radius and e - a + 1 steps per side in the ring numbered e (both
        # polynomials, so agreeing at degree + 1 values is agreeing everywhere)
        from ..terms import eval_closed, subst_params
        stp = plain(H.term(step_l.iter, H.cfg.loop_head[id(step_l)]))
        if rp[0] == "call" and rp[1] == ("global", "range") and \
                1 <= len(rp[2]) <= 2 and not rp[3] and stp[0] == "call" and \
                stp[1] == ("global", "range") and len(stp[2]) == 1 and \
                not stp[3]:
            lo_t = rp[2][0] if len(rp[2]) == 2 else ("const", 0)
            hi_t = rp[2][-1]

            def repl(t, old, new):
                if t == old:
                    return new
                if not isinstance(t, tuple) or not t or t[0] == "const":
                    return t
                return tuple(repl(x, old, new) if isinstance(x, tuple) else x
                             for x in t)

            def affine(t):
                # terms built from + - * and constants over one unknown
                return all(st[0] in ("const", "param", "elem", "call",
                                     "global") or
                           (st[0] == "binop" and st[1] in ("Add", "Sub",
                                                           "Mult"))
                           for st in subterms(t) if isinstance(st, tuple))
            try:
                lo = eval_closed(lo_t)
                okr = isinstance(lo, int) and affine(hi_t) and \
                    affine(stp[2][0])
                deg = 2 + sum(1 for st in subterms(("tuple", hi_t,
                                                     stp[2][0]))
                              if st[0] == "binop" and st[1] == "Mult")
                for r_ in range(deg):
                    sub = {formals(ch)[0]: ("const", r_)}
                    okr = okr and eval_closed(
                        subst_params(hi_t, sub)) - lo == r_
                for e_ in range(lo, lo + deg):
                    okr = okr and eval_closed(repl(
                        stp[2][0], plain(RING), ("const", e_))) == \
                        e_ - lo + 1
            except AnalysisError:
                okr = False
    # the walk: one unit south on entering a ring, then the side's direction
    # at every step
    ys = [n for n in ast.walk(ch) if isinstance(n, ast.Yield)]
    yd = sorted(depth(y_) for y_ in ys)
    okr = okr and yd == [0, 3]
    pt = [y_ for y_ in ys if depth(y_) == 3]
    if okr and isinstance(pt[0].value, ast.Tuple) and \
            len(pt[0].value.elts) == 2:
        xn, yn = [chain(e) for e in pt[0].value.elts]
        DIRE = H._elem(side_it)
        for var, k in ((xn, 0), (yn, 1)):
            steps = [b_ for b_ in H.binds if b_.var == var and
                     b_.mode in ("assign", "aug") and depth(b_.node.ast) == 3]
            okr = okr and len(steps) == 1
            if okr:
                t = H._bind_term(steps[0])
                okr = t[0] == "binop" and t[1] == "Add" and \
                    H._comp(DIRE, k, 2) in (t[2], t[3])
        south = [b_ for b_ in H.binds if b_.var == yn and
                 b_.mode in ("assign", "aug") and depth(b_.node.ast) == 1]
        okr = okr and len(south) == 1 and _fold_t(
            H._bind_term(south[0]))[1:2] == ("Sub",) and \
            H._bind_term(south[0])[3] == ("const", 1) and not [
                b_ for b_ in H.binds if b_.var == xn and
                b_.mode in ("assign", "aug") and depth(b_.node.ast) in (1, 2)]
    else:
        okr = False
    rep.check(okr, "C11-R2", qual(ch), "rings 1..radius, each entered one "
              "step south of the previous, r steps per side, one point "
              "yielded per step and one for the centre (6r points per ring: "
              "every point exactly once)",
              construct="hexagon ring structure (yields at loop depths %s)"
              % yd, node=ch,
              fail="the hexagon walk does not yield exactly one point per "
                   "step plus the centre (yields at loop depths %s): a ring "
                   "of radius r does not produce its 6r points exactly "
                   "once" % yd)
    rep.floor("C11-R2", 7)
    if deferred:
        raise AnalysisError(deferred[0])


def _lin(fl, t):
    e = reify(plain(t))
    for n in ast.walk(e):
        for c in ast.iter_child_nodes(n):
            c._parent = n
    ast.fix_missing_locations(e)
    return fl.sym(e, fl.cfg.entry)


def _within(node, anc):
    p = node
    while p is not None:
        if p is anc:
            return True
        p = getattr(p, "_parent", None)
    return False


def _fold_t(t):
    """Fold unary minus / arithmetic on constants in a term."""
    if not isinstance(t, tuple) or not t or t[0] == "const":
        return t
    t = tuple(_fold_t(x) if isinstance(x, tuple) else x for x in t)
    if t[0] == "unop" and t[1] == "USub" and t[2][0] == "const":
        return ("const", -t[2][1])
    if t[0] == "binop" and t[2][0] == "const" and t[3][0] == "const" and \
            t[1] in ("Add", "Sub", "Mult"):
        a, b = t[2][1], t[3][1]
        return ("const", a + b if t[1] == "Add" else a - b
                if t[1] == "Sub" else a * b)
    return t


def _ord_eval(fn, terms, env_for, spec, rep, rule, text, premise=None,
              possible=None):
    """``possible(o)``: can the ordering occur at all (the terms may be
    related to each other)?  Asked only for orderings on which the function
    and the specification differ."""
    bad = []
    n = 0
    for ranks in weak_orderings(len(terms)):
        o = Ordering(terms, ranks)
        if premise is not None and not premise(o):
            continue
        n += 1
        try:
            got = Evaluator(fn, o, env_for(o)).run()
        except OrdError as e:
            raise AnalysisError("%s: outside the comparison-only fragment: "
                                "%s" % (fn.name, e))
        want = spec(o)
        if isinstance(got, tuple):
            same = isinstance(want, tuple) and len(got) == len(want) and \
                all(o.sign(g - w) == 0 for g, w in zip(got, want))
        else:
            same = isinstance(got, Poly) and o.sign(got - want) == 0
        if not same and possible is not None and not possible(o):
            continue
        if not same:
            bad.append((ranks, got, want))
    rep.check(not bad, rule, qual(fn), "%s on all %d weak orderings of its "
              "operands" % (text, n), construct="%s orderings" % fn.name,
              node=fn,
              fail="%s: differs from '%s' on %d of %d orderings, e.g. ranks "
                   "%s over %s: returns %s, expected %s" % (
                       fn.name, text, len(bad), n, bad[0][0] if bad else "",
                       terms, bad[0][1] if bad else "",
                       bad[0][2] if bad else ""))
    return n


def r3_closed_forms(program, folder, rep):
    T = lambda n: Poly.atom(n)   # noqa
    # mesh length
    fn = program.get(GEO + ":shortest_mesh_path_length")
    s, d = formals(fn)
    terms = ["x", "y", "z"]

    def env(o):
        e = {}
        for i, t in enumerate(terms):
            e["%s[%d]" % (d, i)] = T(t)
            e["%s[%d]" % (s, i)] = Poly.const(0)
        return e

    def spec(o):
        hi = max(terms, key=lambda t: o.rank[t])
        lo = min(terms, key=lambda t: o.rank[t])
        return T(hi) - T(lo)
    _ord_eval(fn, terms, env, spec, rep, "C11-R3",
              "result = max(x,y,z) - min(x,y,z)")
    # minimise_xyz
    fn = program.get(GEO + ":minimise_xyz")
    p = formals(fn)[0]

    class TupleEnv(dict):
        pass

    def env2(o):
        return {p: (T("x"), T("y"), T("z"))}

    def spec2(o):
        med = sorted(terms, key=lambda t: o.rank[t])[1]
        return (T("x") - T(med), T("y") - T(med), T("z") - T(med))
    _ord_eval(fn, terms, env2, spec2, rep, "C11-R3",
              "result = (x, y, z) minus the median component")
    # torus length: bind the derived quantities to opaque terms by normal form
    fn = program.get(GEO + ":shortest_torus_path_length")
    fl = Flow(fn)
    ps = formals(fn)
    wv, hv = ps[2], ps[3]
    # find the definitions after the reduction modulo w, h
    # (the two offsets are recognised by what they are reduced by - the
    # width and the height - not by what they are called)
    mods = {}
    for d in fl.defs:
        if d.mode == "aug" and isinstance(d.value.op, ast.Mod):
            by = fl.sym(d.value.value, d.node)
            if by == Poly.atom(wv):
                mods["x"] = d
            elif by == Poly.atom(hv):
                mods["y"] = d
    if set(mods) != {"x", "y"}:
        raise AnalysisError("shortest_torus_path_length: reduction modulo "
                            "w/h not found")
    xv, yv = mods["x"].var, mods["y"].var
    start = max(mods["x"].node.id, mods["y"].node.id)
    last_mod = mods["x"].node if mods["x"].node.id == start else \
        mods["y"].node
    okm = True
    rep.check(okm, "C11-R3", qual(fn), "offsets are reduced modulo width "
              "(x) and height (y)", construct="torus reduction", node=fn)
    # what is reduced: the signed offset of the destination from the source
    # along each axis with the z offset folded in (x - z, y - z).  On the
    # hexagonal torus the sign of an offset matters: (+a, -b) costs a + b
    # hops, (+a, +b) max(a, b).
    sp_, dp_ = ps[0], ps[1]
    for var, k in (("x", 0), ("y", 1)):
        got = fl.sym(parse_expr(mods[var].var), mods[var].node)
        want = fl.sym(parse_expr(
            "({d}[{k}] - {s}[{k}]) - ({d}[2] - {s}[2])".format(
                d=dp_, s=sp_, k=k)), mods[var].node)
        atoms = set(a for mono, _ in got.key() for a in mono)
        plain_atoms = all(a.startswith("sub(%s, " % sp_) or
                          a.startswith("sub(%s, " % dp_) for a in atoms)
        folded = any(a.startswith("abs(") for a in atoms)
        if got != want and not plain_atoms and not folded:
            raise AnalysisError("shortest_torus_path_length: the offset "
                                "reduced modulo the size (%s) is outside the "
                                "linear fragment" % got)
        rep.check(got == want, "C11-R3", qual(fn), "the %s offset reduced "
                  "modulo the size is the signed difference (d[%d] - s[%d]) "
                  "- (d[2] - s[2])" % (var, k, k),
                  construct="torus offset %s" % var, node=mods[var].node.ast,
                  fail="the %s offset reduced modulo the size is %s, not the "
                       "signed difference %s: on the hexagonal torus offsets "
                       "of opposite sign cost more hops than offsets of the "
                       "same sign, the length reported is not the graph "
                       "distance" % (var, got, want))
    # x, y = x - z, y - z over destination - source
    X = fl.sym_after(parse_expr(xv), last_mod)
    Y = fl.sym_after(parse_expr(yv), last_mod)
    Wp = fl.sym(parse_expr(wv), last_mod)
    Hp = fl.sym(parse_expr(hv), last_mod)
    spec_polys = {"a": X, "b": Y, "c": Wp - X + Y, "d": X + Hp - Y,
                  "e": Wp - X, "f": Hp - Y}
    inv = {}
    for k, v in spec_polys.items():
        inv[v.key()] = k
    terms6 = ["a", "b", "c", "d", "e", "f"]
    # statements after the reduction
    body = fn.body
    idx = None
    for i, st in enumerate(body):
        if st is mods["x"].node.ast or st is mods["y"].node.ast:
            idx = i
    tail_fn = ast.FunctionDef(name=fn.name, args=fn.args,
                              body=body[idx + 1:], decorator_list=[],
                              returns=None, type_comment=None)
    tail_fn._module = fn._module
    tail_fn._qualname = fn._qualname

    def hook(st):
        # an assignment whose value is one of the six candidate quantities
        # becomes that opaque term
        if isinstance(st, ast.Assign):
            node = fl.cfg.node_of(st)
            v = st.value
            if isinstance(v, ast.IfExp):
                return None
            try:
                p_ = fl.sym(v, node)
            except AnalysisError:
                return None
            k = inv.get(p_.key())
            return T(k) if k else None
        return None

    def env6(o):
        return {xv: T("a"), yv: T("b"), "<assign-hook>": hook}

    def spec6(o):
        r = o.rank
        c1 = "a" if r["a"] > r["b"] else "b"
        c4 = "e" if r["e"] > r["f"] else "f"
        best = min([c1, "c", "d", c4], key=lambda t: r[t])
        return T(best)
    # the six candidates are not independent: an ordering counts only if
    # some offset 0 <= x < w, 0 <= y < h produces it (Fourier-Motzkin)
    from ..poly import feasible, lt as _lt, le as _le, eq as _eq
    xs, ys, ws, hs = [Poly.atom(a_) for a_ in ("x", "y", "w", "h")]
    real = {"a": xs, "b": ys, "c": ws - xs + ys, "d": xs + hs - ys,
            "e": ws - xs, "f": hs - ys}
    dom = [_le(0, xs), _lt(xs, ws), _le(0, ys), _lt(ys, hs)]

    def possible(o):
        cons = list(dom)
        for i, p_ in enumerate(terms6):
            for q_ in terms6[i + 1:]:
                if o.rank[p_] < o.rank[q_]:
                    cons.append(_lt(real[p_], real[q_]))
                elif o.rank[p_] > o.rank[q_]:
                    cons.append(_lt(real[q_], real[p_]))
                else:
                    e_ = _eq(real[p_], real[q_])
                    cons.extend(e_ if isinstance(e_, (list, tuple))
                                else [e_])
        return feasible(cons)
    n = _ord_eval(tail_fn, terms6, env6, spec6, rep, "C11-R3",
                  "result = min(max(x,y), w-x+y, x+h-y, max(w-x,h-y))",
                  possible=possible)
    rep.note("ORDTYPE: %d orderings of the six torus candidates" % n)
    # shortest_torus_path: the four candidates
    fn2 = program.get(GEO + ":shortest_torus_path")
    f2 = Flow(fn2)
    ap = [d for d in f2.defs if d.var == "approaches" and d.mode == "assign"]
    if len(ap) != 1 or not isinstance(ap[0].value, ast.List):
        raise AnalysisError("shortest_torus_path: approaches list")
    node = ap[0].node
    sx = lambda t: f2.sym(parse_expr(t), node)   # noqa
    want = [("max(dx, dy)", ("dx", "dy", "0")),
            ("w - dx + dy", ("-(w - dx)", "dy", "0")),
            ("dx + h - dy", ("dx", "-(h - dy)", "0")),
            ("max(w - dx, h - dy)", ("-(w - dx)", "-(h - dy)", "0"))]
    elts = ap[0].value.elts
    rep.check(len(elts) == 4, "C11-R3", qual(fn2), "four wrap choices are "
              "considered", construct="approach count %d" % len(elts),
              node=fn2)
    got_l = []
    for e in elts:
        if isinstance(e, ast.Tuple) and len(e.elts) == 2 and \
                isinstance(e.elts[1], ast.Tuple):
            got_l.append((f2.sym(e.elts[0], node),
                          tuple(f2.sym(v, node) for v in e.elts[1].elts)))
    for (wl, wvv) in want:
        w_l = sx(wl)
        w_v = tuple(sx(t) for t in wvv)
        ok = any(g[0] == w_l and g[1] == w_v for g in got_l)
        rep.check(ok, "C11-R3", qual(fn2), "candidate: length %s with "
                  "vector (%s)" % (wl, ", ".join(wvv)),
                  construct="approach %s" % wl, node=fn2,
                  fail="no candidate pairs the length %s with the vector "
                       "(%s): the reported vector and the reported length "
                       "disagree" % (wl, ", ".join(wvv)))
    # dx, dy reduced the same way as the length function
    dd = [d for d in f2.defs if d.var in ("dx", "dy") and
          d.mode == "assign" and isinstance(d.value, ast.BinOp) and
          isinstance(d.value.op, ast.Mod)]
    rep.check(len(dd) == 2 and {unparse(d.value.right) for d in dd} ==
              {"w", "h"}, "C11-R3", qual(fn2), "the vector function reduces "
              "the offsets modulo (w, h) like the length function",
              construct="vector reduction", node=fn2)
    # minimum is taken over the candidate lengths
    T2 = Terms(fn2)
    okk = False
    for c in calls_in(fn2, "min"):
        for k in c.keywords:
            if k.arg != "key":
                continue
            kt = T2.term(k.value, T2.cfg.node_containing(c))
            body = arg0 = None
            if kt[0] == "lambda" and kt[1] == 1:
                body, arg0 = kt[2], ("lparam", 0)
            elif kt[0] == "local":
                nd = [x for x in ast.walk(fn2)
                      if isinstance(x, ast.FunctionDef) and x.name == kt[1]]
                if nd and len(formals(nd[0])) == 1:
                    NT = Terms(nd[0])
                    rr = [NT.term(r.value) for r in returns_of(nd[0])
                          if r.value is not None]
                    if len(rr) == 1:
                        body, arg0 = rr[0], ("param", formals(nd[0])[0])
            if body is not None and body[0] == "binop" and body[1] == "Add":
                parts = [plain(body[2]), plain(body[3])]
                # <any generator>.random(): a fraction in [0, 1)
                okk = any(x_[0] == "call" and x_[1][0] == "attr" and
                          x_[1][2] == "random" and not x_[2] and not x_[3]
                          for x_ in parts) and ("comp", arg0, 0) in parts
    rep.check(okk, "C11-R3", qual(fn2), "the shortest candidate is chosen "
              "(ties broken randomly by a fraction < 1)",
              construct="candidate selection", node=fn2)
    # spiral bound: truncated quotient, by the sign of the component
    mz = [c for c in calls_in(fn2, "minimise_xyz")]
    if len(mz) != 1:
        raise AnalysisError("shortest_torus_path: minimise_xyz")
    MZ = T2.term(mz[0])
    for var, k, size in (("x", 0, "height"), ("y", 1, "width")):
        Vt = T2._comp(MZ, k, 3)
        S = ("param", size)
        ok = True
        detail = ""
        for neg in (True, False):
            Hh = T2.under((mk_cmp("Lt", Vt, ("const", 0)), neg))
            found = []
            for b_ in Hh.binds:
                if b_.mode not in ("assign", "aug") or b_.value is None or \
                        not Hh.live(b_.node):
                    continue
                t = Hh._bind_term(b_)
                if not (t[0] == "binop" and t[1] == "Mult" and
                        S in (t[2], t[3])):
                    continue
                r_ = t[3] if t[2] == S else t[2]
                if r_[0] == "callv" and r_[1][0] == "attr" and \
                        r_[1][2] == "randint" and len(r_[2]) == 2:
                    lo, hi = plain(r_[2][0]), plain(r_[2][1])
                    if lo[0] == "call" and lo[1] == ("global", "min") and \
                            hi[0] == "call" and hi[1] == ("global", "max"):
                        ms = [z for z in lo[2] if z != ("const", 0)]
                        ms2 = [z for z in hi[2] if z != ("const", 0)]
                        if ms == ms2 and len(ms) == 1:
                            found.append(ms[0])
            f2b = Flow(fn2)
            exp_neg = ("binop", "FloorDiv",
                       ("binop", "Sub", ("binop", "Add", plain(Vt), S),
                        ("const", 1)), S)
            exp_pos = ("binop", "FloorDiv", plain(Vt), S)
            want_t = exp_neg if neg else exp_pos
            good = [m_ for m_ in found if m_[0] == "binop" and
                    m_[1] == "FloorDiv" and m_[3] == S and
                    _lin(f2b, m_[2]) == _lin(f2b, want_t[2])]
            if neg and not good:
                # -(-v // s): the ceiling of v / s, which is the quotient
                # truncated toward zero for a negative v
                good = [m_ for m_ in found if m_[0] == "unop" and
                        m_[1] == "USub" and m_[2][0] == "binop" and
                        m_[2][1] == "FloorDiv" and m_[2][3] == S and
                        _lin(f2b, m_[2][2]) == _lin(f2b, ("unop", "USub",
                                                          plain(Vt)))]
            if not found:
                raise AnalysisError("shortest_torus_path: the number of "
                                    "spirals along %s is not drawn as "
                                    "randint(min(q, 0), max(q, 0)) * size "
                                    "in a form these rules read" % var)
            if len(good) != 1:
                ok = False
                detail = "; ".join(show(m_)[:80] for m_ in found)
        rep.check(ok, "C11-R3", qual(fn2), "spiral bound for %s = quotient "
                  "of %s by %s truncated toward zero ((v + s - 1) // s for "
                  "negative v, v // s otherwise)" % (var, var, size),
                  construct="spiral bound %s" % var, node=fn2,
                  fail="the number of whole spirals available along %s is "
                       "computed as %s, which is not %s/%s truncated toward "
                       "zero: the adjusted vector can overshoot" % (
                           var, detail, var, size))
    rep.floor("C11-R3", 12)


def r4_stateless(program, rep):
    """The distance / direction functions are functions of their arguments:
    none of them writes module-level state (a memo keyed on part of the
    arguments makes a later answer depend on earlier calls)."""
    from ..effects import Effects
    eff = Effects(program)
    n = 0
    for m in (GEO, "rig.links", RU):
        program.module(m)
        for q, fn in program.functions(m):
            inst = "%s:%s" % (m, q)
            bad = None
            for e in eff.analyse(fn):
                if e.kind == "mutate":
                    for o in e.origins:
                        if o[0] == "G" and o[1] != "?":
                            bad = (e, "%s.%s" % (o[1], o[2]))
            n += 1
            if bad:
                # a memo whose entries are functions of their keys is
                # invisible; one whose key leaves out something the value
                # depends on answers with another call's result
                from ..memo import memo_verdict
                small = [(a, b, 0) for a in range(4) for b in range(4)]
                dom = {}
                for a_ in formals(fn):
                    dom[a_] = range(1, 5) if a_ in (
                        "width", "height", "w", "h") else small
                verdict, text = memo_verdict(fn, bad[1].rsplit(".", 1)[1],
                                             dom)
                if verdict == "ok":
                    rep.ok("C11-R4", inst, "%s keeps a memo in %s: %s" % (
                        q, bad[1], text), fn)
                    continue
                if verdict == "unknown":
                    rep.undecided("C11-R4", "%s writes the module-level %s: "
                                  "%s" % (q, bad[1], text))
                    continue
                rep.bad("C11-R4", inst, "writes module state %s" % bad[1],
                        "%s answers from the module-level %s: %s" % (
                            q, bad[1], text), bad[0].node)
                continue
                rep.bad("C11-R4", inst, "writes module state %s" % bad[1],
                        "%s writes the module-level %s (%s): its result can "
                        "depend on earlier calls" % (q, bad[1], bad[0].text),
                        bad[0].node)
            else:
                rep.ok("C11-R4", inst, "%s writes no module-level state" % q,
                       fn)
    rep.floor("C11-R4", 15)


_AXIS = {"width": "W", "w": "W", "height": "H", "h": "H",
         "x": "X", "y": "Y", "root_x": "RX", "root_y": "RY"}


def _axis_of(expr):
    c = chain(expr)
    if c is None:
        return None
    return _AXIS.get(c.rsplit(".", 1)[-1].lstrip("_"))


def r5_callers(program, rep):
    """The geometry functions take the two dimensions of the torus (and the
    two coordinates of a chip) as separate arguments: a caller that hands
    over a variable named for one axis where the other axis is expected
    computes lengths and vectors on the transposed torus.  Judged by name:
    only actuals that are plain variables / attributes named for an axis
    (width, height, w, h, x, y, root_x, root_y) take part; anything else is
    of unknown axis and passes."""
    geo = program.module(GEO)
    targets = {q: fn for q, fn in program.functions(GEO)
               if "." not in q and any(
                   _AXIS.get(a) for a in formals(fn))}
    n = 0
    for name in sorted(program.modules):
        m = program.modules[name]
        calls = [c for c in ast.walk(m.tree) if isinstance(c, ast.Call) and
                 call_name(c)[0] in targets]
        if not calls:
            continue
        program.module(name)
        for c in calls:
            fn = targets[call_name(c)[0]]
            b = bind(c, fn, skip_self=False)
            for formal, actual in sorted(
                    (k, v) for k, v in b.items() if isinstance(v, ast.AST)):
                want = _AXIS.get(formal)
                got = _axis_of(actual)
                if want is None or got is None:
                    continue
                n += 1
                rep.check(want == got, "C11-R5", "%s:%d" % (name, c.lineno),
                          "%s(%s=%s): the argument is named for the axis "
                          "the parameter stands for" % (
                              fn.name, formal, unparse(actual)),
                          construct="%s(... %s=%s ...)" % (
                              fn.name, formal, unparse(actual)), node=c,
                          fail="%s is called with %s where its parameter %s "
                               "is expected: the two axes are swapped, so "
                               "lengths and vectors are those of the "
                               "transposed torus (wrong whenever width != "
                               "height)" % (fn.name, unparse(actual),
                                            formal))
    rep.floor("C11-R5", 6)


def r5_walk_vector(program, rep):
    """The vector a router walks with longest_dimension_first from a start
    chip is the shortest path computed from THAT start to the destination
    in hand - on every pass: a vector kept from an earlier destination (or
    a constant) leads somewhere else."""
    from ..terms import one_level
    NER = "rig.place_and_route.route.ner"
    fn = program.get(NER + ":ner_net")
    T = Terms(fn)
    cs = calls_in(fn, "longest_dimension_first")
    if not cs:
        raise AnalysisError("ner_net: longest_dimension_first is not called")
    for c in cs:
        n = T.cfg.node_containing(c)
        ldf = program.get("rig.place_and_route.route.utils:"
                          "longest_dimension_first")
        b = bind(c, ldf, skip_self=False)
        fs = formals(ldf)
        if fs[0] not in b or fs[1] not in b:
            raise AnalysisError("ner_net: arguments of the walk")
        v = T.term(b[fs[0]], n)
        START = plain(T.term(b[fs[1]], n))
        alts = [plain(x) for x in (one_level(v) if v[0] in ("mu", "phi")
                                   else [v])]
        good, other = [], []
        for a in alts:
            if a[0] == "call" and a[1][0] == "global" and a[1][1] in (
                    "shortest_torus_path", "shortest_mesh_path") and \
                    len(a[2]) >= 2:
                good.append(a)
            else:
                other.append(a)
        if not good:
            raise AnalysisError("ner_net: the vector walked is not the "
                                "result of shortest_torus_path / "
                                "shortest_mesh_path in a form that is read")
        XYZ = ("call", ("global", "to_xyz"), (START,), ())
        ok = not other and all(a[2][0] in (XYZ, START) for a in good)
        rep.check(ok, "C11-R5", qual(fn), "the vector walked from a chip is "
                  "the shortest path computed from that chip, on every pass "
                  "of the loop over the destinations",
                  construct="walk vector", node=c,
                  fail="the vector handed to longest_dimension_first is not "
                       "always the shortest path from the chip the walk "
                       "starts at: %s" % (
                           "it can also be %s (kept from an earlier pass or "
                           "never computed for this one)" % show(other[0])[
                               :60] if other else "it is computed from "
                           "another chip"))


def check(program, rep):
    program.module(GEO)
    folder = Folder(program)
    rep.guard("C11-R1", r1_tables, program, folder, rep)
    rep.guard("C11-R2", r2_walk, program, folder, rep)
    rep.guard("C11-R3", r3_closed_forms, program, folder, rep)
    rep.guard("C11-R4", r4_stateless, program, rep)
    rep.guard("C11-R5", r5_callers, program, rep)
    rep.guard("C11-R5", r5_walk_vector, program, rep)
    # the slips that are visible wherever they occur (NAMELINK, FALSY, STALE,
    # NOEFFECT, SLIPS - DESIGN.md 9.13-9.15), over the property's modules
    from .. import namelink as _nl
    rep.guard("C11-R6", _nl.rule, program, rep, "C11-R6",
              ['rig.geometry', 'rig.links', 'rig.place_and_route.route.utils'], floor=0)
    return finish(rep, program, EXPLANATION, NOT_DECIDED,
                  trusted=["link vector table VEC in rules/C11.py",
                           "ORDTYPE evaluator"], exhaustive=True)
