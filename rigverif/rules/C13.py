"""C13 - file-like memory views stay in their region (DESIGN section 3, C13).

Decided (static, for all inputs/histories):
  R1 every controller access issued by a view lies inside the view
     (LININV over SlicedMemoryIO.read/write from the class invariant
     start <= end established by __init__)
  R2 slices nest in their parent and are exactly the clipped sub-range named
  R3 seek computes the file-model position for whence 0/1/2, rejects others
  R4 the position advances by exactly the bytes handed to the controller
  R5 every operation is guarded by the closed / freed test
Not decided: "reads return the bytes last written" (memory model).
"""
import ast

from ..core import AnalysisError, finish, unparse
from ..absint import Interp
from ..dataflow import Flow, chain, call_name
from ..cfg import cfg_of
from ..poly import Poly, le, lt, eq
from ..util import (calls_in, decorator_names, qual, has_fact, parse_expr,
                    class_methods, returns_of, raise_name)

MOD = "rig.machine_control.machine_controller"
CLS = MOD + ":SlicedMemoryIO"

EXPLANATION = (
    "SlicedMemoryIO is analysed as a transition system over (_start_address, "
    "_end_address, _offset, closed). R1: relational abstract interpretation "
    "(linear constraints, weak join, Fourier-Motzkin entailment, Python "
    "slice-length semantics) proves at every self._parent._perform_read/"
    "_perform_write call: start <= addr, n >= 1, addr + n <= end, from the "
    "class invariant start <= end that __init__ establishes. R2: each "
    "definition of the child's start/end in __getitem__ is proved equal to "
    "the clipped sub-range of the file model in every sign case its guard "
    "admits, and nested (start <= s <= e <= end). R3: seek's new offset per "
    "whence value equals the file model. R4: offset after read/write = "
    "offset before + bytes transferred. R5: decorator coverage + the guard "
    "wrapper's dominating tests.")
NOT_DECIDED = [
    "reads return the bytes last written at those positions (needs a memory "
    "model; follows from C07 + R1-R4 when the controller is right)",
]

S = Poly.atom("self._start_address")
E = Poly.atom("self._end_address")
OFF = Poly.atom("self._offset")


def _inline_props(program):
    """self.address is a property: inline its body (must be one return)."""
    fn = program.get(CLS + ".address")
    rets = returns_of(fn)
    if len(rets) != 1 or rets[0].value is None:
        raise AnalysisError("SlicedMemoryIO.address is no longer a single "
                            "return expression")
    return {"self.address": rets[0].value}


def r_invariant(program, rep):
    """__init__ establishes start <= end (the class invariant R1/R2 use)."""
    fn = program.get(CLS + ".__init__")
    it = Interp(fn)
    ok = True
    n_exit = it.cfg.exit
    st = it.state_in[n_exit.id]
    if st is None:
        raise AnalysisError("SlicedMemoryIO.__init__ has no normal exit")
    rep.check(it.entails_state(st, [le(S, E)]), "C13-R0", qual(fn),
              "on exit of __init__: _start_address <= _end_address",
              construct="__init__ invariant start<=end", node=fn)
    rep.check(it.entails_state(st, eq(OFF, 0)), "C13-R0", qual(fn),
              "on exit of __init__: _offset == 0",
              construct="__init__ offset 0", node=fn)


def r1_confinement(program, rep, inline):
    n_sites = 0
    for meth in class_methods(program, CLS):
        sites = calls_in(meth, ("_perform_read", "_perform_write"))
        if not sites:
            continue
        off0 = Poly.atom("self._offset@0")
        it = Interp(meth, entry_cons=[le(S, E)] + eq(OFF, off0),
                    inline_props=inline)
        for call in sites:
            n_sites += 1
            node = it.cfg.node_containing(call)
            kind = call_name(call)[0]
            if len(call.args) != 2:
                raise AnalysisError("%s called with %d args" % (
                    kind, len(call.args)))
            addr = it.sym(call.args[0], node)
            if kind == "_perform_read":
                n = it.sym(call.args[1], node)
            else:
                d = it.sym(call.args[1], node)
                n = it.flow._composite("len(%r)" % (d,), [d], ("len", d))
            inst = qual(meth)
            what = "%s(%s, %s)" % (kind, unparse(call.args[0]),
                                   unparse(call.args[1]))
            st = it.describe(node)
            rep.check(it.holds_at(node, [le(S, addr)]), "C13-R1", inst,
                      "%s: address %r >= _start_address" % (what, addr),
                      construct="%s lower bound" % kind, node=call,
                      fail="%s may access below the view: cannot show "
                           "_start_address <= %r; state: %s" % (what, addr,
                                                                 st))
            rep.check(it.holds_at(node, [le(addr + n, E)]), "C13-R1", inst,
                      "%s: address + count %r <= _end_address" % (
                          what, addr + n),
                      construct="%s upper bound" % kind, node=call,
                      fail="%s may access beyond the view: cannot show "
                           "%r <= _end_address; state: %s" % (what, addr + n,
                                                               st))
            rep.check(it.holds_at(node, [le(1, n)]), "C13-R1", inst,
                      "%s: count %r >= 1 (no empty/negative transfer reaches "
                      "the controller)" % (what, n),
                      construct="%s positive count" % kind, node=call,
                      fail="%s may be issued with a non-positive count %r; "
                           "state: %s" % (what, n, st))
            # R4: position bookkeeping on every return after this call
            off0 = Poly.atom("self._offset@0")
            for ret in returns_of(meth):
                rn = it.cfg.node_of(ret)
                if not it.reachable(rn):
                    continue
                if it.cfg.dominates(node, rn):
                    # n as seen at the return: re-evaluate the count there
                    if kind == "_perform_read":
                        n_ret = it.sym(call.args[1], rn)
                    else:
                        d = it.sym(call.args[1], rn)
                        n_ret = it.flow._composite(
                            "len(%r)" % (d,), [d], ("len", d))
                    rep.check(
                        it.holds_at(rn, eq(OFF, off0 + n_ret)), "C13-R4",
                        inst, "after %s the offset advanced by exactly the "
                        "bytes transferred (%r)" % (kind, n_ret),
                        construct="%s offset advance" % kind, node=ret,
                        fail="offset after %s is not old offset + %r; "
                             "state: %s" % (kind, n_ret, it.describe(rn)))
        # returns not preceded by a transfer leave the offset unchanged
        off0 = Poly.atom("self._offset@0")
        cnodes = [it.cfg.node_containing(c) for c in sites]
        for ret in returns_of(meth):
            rn = it.cfg.node_of(ret)
            if not it.reachable(rn):
                continue
            if not any(it.cfg.dominates(c, rn) or it.cfg.reaches(c, rn)
                       for c in cnodes):
                rep.check(it.holds_at(rn, eq(OFF, off0)), "C13-R4",
                          qual(meth), "a return without transfer leaves the "
                          "offset unchanged", construct="no-transfer return",
                          node=ret)
    rep.floor("C13-R1", 6)
    rep.floor("C13-R4", 3)
    return n_sites


def _entry_with_offset_ghost(it):
    pass


def r2_slices(program, rep):
    fn = program.get(CLS + ".__getitem__")
    inst = qual(fn)
    fl = Flow(fn)
    cfg = fl.cfg
    ctor = [c for c in calls_in(fn, "SlicedMemoryIO")]
    if not ctor:
        raise AnalysisError("__getitem__ no longer constructs a "
                            "SlicedMemoryIO")
    params = [a.arg for a in fn.args.args]
    if len(params) != 2:
        raise AnalysisError("__getitem__ signature changed")
    sl = params[1]
    for call in ctor:
        node = cfg.node_containing(call)
        args = list(call.args)
        kw = {k.arg: k.value for k in call.keywords}
        parent = args[0] if args else kw.get("parent")
        start = args[1] if len(args) > 1 else kw.get("start_address")
        end = args[2] if len(args) > 2 else kw.get("end_address")
        if parent is None or start is None or end is None:
            raise AnalysisError("cannot bind SlicedMemoryIO(...) arguments")
        rep.check(chain(parent) == "self._parent", "C13-R2", inst,
                  "the slice shares the parent allocation (self._parent), so "
                  "freeing it disables the slice",
                  construct="child parent", node=call)
        # unit step only
        facts = fl.facts(node)
        step_ok = any(
            unparse(c) in ("%s.step is None" % sl, "%s.step == 1" % sl) and p
            for c, p, _ in facts) or \
            (has_fact(facts, "%s.step is None" % sl, False) is False and
             _step_guard(fl, node, sl))
        rep.check(step_ok, "C13-R2", inst,
                  "a view is only built for slices with step None or 1",
                  construct="unit step guard", node=call)
        # nesting, from the LININV states
        s_p = Poly.atom(chain(start) or "?")
        e_p = Poly.atom(chain(end) or "?")
        it = Interp(fn, entry_cons=[le(S, E)],
                    candidates=[le(S, s_p), le(s_p, E), le(e_p, E)])
        n2 = it.cfg.node_containing(call)
        s_p = it.sym(start, n2)
        e_p = it.sym(end, n2)
        rep.check(it.holds_at(n2, [le(S, s_p), le(s_p, E)]), "C13-R2", inst,
                  "child start within [parent start, parent end]",
                  construct="child start nested", node=call,
                  fail="cannot show parent.start <= child start <= "
                       "parent.end; state: %s" % it.describe(n2))
        # the constructor clamps end to max(start, end): the effective end
        rep.check(it.holds_at(n2, [le(e_p, E)]), "C13-R2", inst,
                  "child end <= parent end", construct="child end nested",
                  node=call,
                  fail="cannot show child end <= parent end; state: %s" %
                       it.describe(n2))
        # exactness, per definition of start / end
        _exact(fl, rep, inst, node, start, sl, "start", None)
        _exact(fl, rep, inst, node, end, sl, "stop", start)
    rep.floor("C13-R2", 8)


def _step_guard(fl, node, sl):
    """The construction is dominated by (step is None) or (step == 1): with
    the or-split CFG one of the two facts holds on each path; accept when the
    construction node is only reachable through those assume nodes."""
    cfg = fl.cfg
    oks = [n for n in cfg.nodes if n.kind == "assume" and n.polarity and
           unparse(n.ast) in ("%s.step is None" % sl, "%s.step == 1" % sl)]
    if not oks:
        return False
    # every path entry -> node passes one of them
    return cfg.must_pass(cfg.entry, lambda n: n in oks, targets=[node])


def _exact(fl, rep, inst, usenode, expr, sl, which, start_expr):
    """Each definition reaching ``expr`` (a name) at the constructor equals
    the clipped bound of the file model."""
    name = chain(expr)
    if name is None:
        raise AnalysisError("child %s is not a simple name" % which)
    idx = Poly.atom("%s.%s" % (sl, which))
    defs = fl.reaching(name, usenode)
    if not defs:
        raise AnalysisError("no definition of %s reaches the constructor" %
                            name)
    for d in defs:
        if d.mode != "assign" or d.value is None:
            rep.bad("C13-R2", inst, "%s defined by %s" % (which, d.mode),
                    "child %s is defined in a way the rule cannot read" %
                    which, d.node.ast)
            continue
        facts = fl.facts(d.node)
        isnone = "%s.%s is None" % (sl, which)
        val = fl.sym(d.value, d.node)
        if start_expr is not None:
            # the lower clip of 'stop' is the child's own start (or,
            # equivalently after __init__'s max(), anything below it)
            cs = fl.sym(start_expr, d.node)
        if has_fact(facts, isnone, True):
            want = S if which == "start" else E
            rep.check(val == want, "C13-R2", inst,
                      "%s omitted -> child %s = %r" % (which, which, want),
                      construct="%s None case" % which, node=d.node.ast,
                      fail="%s omitted but child %s is %r, expected %r" % (
                          which, which, val, want))
            continue
        cons = fl.constraints(d.node)
        # case analysis over the sign of the index, restricted to the cases
        # the guard admits
        from ..poly import feasible
        cases = [("negative", [lt(idx, 0)]), ("non-negative", [le(0, idx)])]
        for cname, region in cases:
            if not feasible(cons + region):
                continue
            if cname == "negative":
                raw = E + idx
                if which == "start":
                    goal_lo, goal_hi = S, E
                else:
                    goal_lo, goal_hi = None, E
            else:
                raw = S + idx
            # expected value: clip(raw, lo, hi) with lo = parent start (or
            # child start for stop), hi = parent end.  Because the
            # constructor stores max(start, end), any value v with
            #   v == clip(raw)  or  (raw < lo and v <= lo)
            # denotes the same view; require the exact clip when raw is in
            # range and the bound otherwise.
            lo = S if which == "start" else cs
            pre = [le(S, E)] + region
            if which == "stop":
                pre += [le(S, cs), le(cs, E)]
            ok_mid = fl.prove(d.node, eq(val, raw),
                              extra=pre + [le(lo, raw), le(raw, E)])
            ok_hi = fl.prove(d.node, eq(val, E),
                             extra=pre + [lt(E, raw)])
            if which == "start":
                ok_lo = fl.prove(d.node, eq(val, S),
                                 extra=pre + [lt(raw, lo)])
            else:
                ok_lo = fl.prove(d.node, [le(val, cs)],
                                 extra=pre + [lt(raw, lo)])
            rep.check(ok_mid and ok_hi and ok_lo, "C13-R2", inst,
                      "%s %s index: child %s = clip(%r) into the parent "
                      "range" % (cname, which, which, raw),
                      construct="%s %s case" % (which, cname),
                      node=d.node.ast,
                      fail="for a %s %s index the child %s is %r, which is "
                           "not %r clipped to [%s, parent end] (in-range:%s "
                           "above:%s below:%s)" % (
                               cname, which, which, val, raw,
                               "parent start" if which == "start"
                               else "child start", ok_mid, ok_hi, ok_lo))


def r3_seek(program, rep):
    fn = program.get(CLS + ".seek")
    inst = qual(fn)
    fl = Flow(fn)
    cfg = fl.cfg
    names = [a.arg for a in fn.args.args]
    if len(names) < 3:
        raise AnalysisError("seek signature changed")
    n_arg, whence = names[1], names[2]
    N = Poly.atom(n_arg)
    spec = {0: N, 1: OFF + N, 2: (E - S) + N}
    seen = set()
    for d in fl.defs:
        if d.var != "self._offset" or d.mode not in ("assign", "aug"):
            continue
        facts = fl.facts(d.node)
        k = None
        for cond, pol, _ in facts:
            if pol and isinstance(cond, ast.Compare) and \
                    len(cond.ops) == 1 and isinstance(cond.ops[0], ast.Eq):
                l, r = cond.left, cond.comparators[0]
                for a, b in ((l, r), (r, l)):
                    if chain(a) == whence:
                        v = _const(program, b)
                        if v is not None:
                            k = v
        if k is None:
            rep.bad("C13-R3", inst, "offset written without whence guard",
                    "seek writes the position on a path not selected by a "
                    "whence value", d.node.ast)
            continue
        # value after the statement
        if d.mode == "assign":
            val = fl.sym(d.value, d.node)
        else:
            s = d.value
            fake = ast.BinOp(left=s.target, op=s.op, right=s.value)
            ast.copy_location(fake, s)
            fake._parent = s
            val = fl.sym(fake, d.node)
        seen.add(k)
        if k not in spec:
            rep.bad("C13-R3", inst, "whence %r accepted" % k,
                    "seek accepts whence=%r which the file model rejects" % k,
                    d.node.ast)
            continue
        rep.check(val == spec[k], "C13-R3", inst,
                  "whence %d -> offset := %r" % (k, spec[k]),
                  construct="whence %d -> %r" % (k, val), node=d.node.ast,
                  fail="seek(n, %d) sets the position to %r; a file (and the "
                       "method's docstring) gives %r" % (k, val, spec[k]))
    for k in (0, 1, 2):
        if k not in seen:
            rep.bad("C13-R3", inst, "whence %d unhandled" % k,
                    "seek does not handle whence=%d" % k, fn)
    # any other whence raises: every path to the normal exit passes a
    # position write (each of which was matched to a whence above)
    writes = set(d.node.id for d in fl.defs if d.var == "self._offset")
    ok = cfg.must_pass(cfg.entry, lambda n: n.id in writes)
    rep.check(ok, "C13-R3", inst, "every normally-returning path of seek "
              "sets the position under a recognised whence (others raise)",
              construct="invalid whence falls through", node=fn)
    rep.floor("C13-R3", 4)


def _const(program, expr):
    if isinstance(expr, ast.Constant) and isinstance(expr.value, int):
        return expr.value
    t = unparse(expr)
    return {"os.SEEK_SET": 0, "os.SEEK_CUR": 1, "os.SEEK_END": 2}.get(t)


GUARDED_EXEMPT = {
    "__init__": "constructor",
    "close": "idempotent by design (closing twice is allowed)",
    "__enter__": "returns self, touches no memory",
    "__exit__": "only calls close()",
    "__len__": "reads no memory, length of a closed file is still defined",
}


def r5_guards(program, rep):
    # the wrapper really tests both flags before calling through
    for wrapper, tests in (("_if_not_closed", ["self.closed",
                                               "self._parent._freed"]),
                           ("_if_not_freed", ["self._freed"])):
        fn = program.get("%s:%s.f_" % (MOD, wrapper))
        outer = program.get("%s:%s" % (MOD, wrapper))
        wrapped = outer.args.args[0].arg
        fl = Flow(fn)
        sites = calls_in(fn, wrapped)
        if not sites:
            raise AnalysisError("%s no longer calls the wrapped method" %
                                wrapper)
        for call in sites:
            node = fl.cfg.node_containing(call)
            facts = fl.facts(node)
            for t in tests:
                rep.check(has_fact(facts, t, False), "C13-R5",
                          "%s:%s.f_" % (MOD, wrapper),
                          "the wrapped call is dominated by the test that "
                          "%s is false" % t,
                          construct="%s tests %s" % (wrapper, t), node=call,
                          fail="%s calls the method without having tested "
                               "%s" % (wrapper, t))
            # forwards self and the arguments
            a0 = call.args[0] if call.args else None
            rep.check(a0 is not None and chain(a0) == "self" and
                      any(isinstance(a, ast.Starred) for a in call.args) and
                      any(k.arg is None for k in call.keywords), "C13-R5",
                      "%s:%s.f_" % (MOD, wrapper),
                      "the wrapper forwards self, *args, **kwargs",
                      construct="%s forwards" % wrapper, node=call)
        # the failing branch raises (does not return normally)
        for r in [n for n in ast.walk(fn) if isinstance(n, ast.Raise)]:
            pass
    # coverage
    for m in class_methods(program, CLS):
        if m.name in GUARDED_EXEMPT:
            continue
        decs = decorator_names(m)
        rep.check("_if_not_closed" in decs, "C13-R5", qual(m),
                  "operation %s is wrapped by _if_not_closed" % m.name,
                  construct="%s unguarded" % m.name, node=m,
                  fail="%s is not guarded by _if_not_closed: it works on a "
                       "closed view / freed allocation" % m.name)
        if "property" in decs:
            rep.check(decs.index("property") < decs.index("_if_not_closed")
                      if "_if_not_closed" in decs else False, "C13-R5",
                      qual(m), "property %s applies the guard inside the "
                      "property" % m.name, construct="%s property order" %
                      m.name, node=m)
    mio = MOD + ":MemoryIO"
    for m in class_methods(program, mio):
        if m.name == "__init__":
            continue
        decs = decorator_names(m)
        rep.check("_if_not_freed" in decs, "C13-R5", qual(m),
                  "MemoryIO.%s is wrapped by _if_not_freed" % m.name,
                  construct="%s unguarded" % m.name, node=m)
    # free() marks the allocation freed on every normal path, after freeing
    free = program.get(mio + ".free")
    fl = Flow(free)
    cfg = fl.cfg
    sets = [d.node for d in fl.defs if d.var == "self._freed" and
            d.mode == "assign" and isinstance(d.value, ast.Constant) and
            d.value.value is True]
    frees = [cfg.node_containing(c) for c in calls_in(free, "sdram_free")]
    rep.check(bool(sets) and bool(frees) and
              cfg.must_pass(cfg.entry, lambda n: n in sets) and
              all(any(cfg.dominates(f, s) for f in frees) for s in sets),
              "C13-R5", qual(free),
              "free() frees the memory and then sets _freed on every normal "
              "path", construct="free sets _freed", node=free)
    # __init__ starts open / not freed
    init = program.get(mio + ".__init__")
    fl = Flow(init)
    ok = any(d.var == "self._freed" and isinstance(d.value, ast.Constant) and
             d.value.value is False for d in fl.defs)
    rep.check(ok, "C13-R5", qual(init), "a new MemoryIO is not freed",
              construct="init _freed False", node=init)
    rep.floor("C13-R5", 15)


def r6_truncation_warning(program, rep):
    """A TruncationWarning is emitted exactly when fewer bytes are
    transferred than requested: the warning sits on the branch taken iff
    requested > available, the count is cut to `available` on that branch
    and nowhere else."""
    for name, counted in (("read", "n_bytes"), ("write", None)):
        fn = program.get(CLS + "." + name)
        inst = qual(fn)
        fl = Flow(fn)
        cfg = fl.cfg
        warns = [c for c in calls_in(fn, "warn")
                 if any(unparse(a) == "TruncationWarning" for a in c.args)]
        sites = calls_in(fn, ("_perform_read", "_perform_write"))
        ok = len(warns) == 1 and len(sites) == 1
        rep.check(ok, "C13-R6", inst, "%s has one truncation warning site" %
                  name, construct="%s warn sites %d" % (name, len(warns)),
                  node=fn)
        if not ok:
            continue
        wn = cfg.node_containing(warns[0])
        # the guard: requested > available (strict)
        guard = None
        for c, p, a in fl.facts(wn):
            if isinstance(c, ast.Compare) and len(c.ops) == 1:
                opn = type(c.ops[0]).__name__
                if (opn == "Gt" and p) or (opn == "LtE" and not p):
                    guard = (fl.sym(c.left, a), fl.sym(c.comparators[0], a),
                             a)
                elif (opn == "Lt" and p) or (opn == "GtE" and not p):
                    guard = (fl.sym(c.comparators[0], a), fl.sym(c.left, a),
                             a)
        rep.check(guard is not None, "C13-R6", inst, "the warning is "
                  "emitted only under 'requested > available'",
                  construct="%s warn guard" % name, node=warns[0])
        if guard is None:
            continue
        req, avail, gnode = guard
        # what is requested: the parameter's count
        if name == "read":
            want_req = fl.sym(parse_expr("n_bytes"), gnode)
        else:
            want_req = fl.sym(parse_expr("len(%s)" % [
                a.arg for a in fn.args.args][1]), gnode)
        rep.check(req == want_req, "C13-R6", inst, "'requested' is the "
                  "number of bytes the caller asked to transfer",
                  construct="%s warn compares %r" % (name, req),
                  node=warns[0])
        # on the warning branch the transfer is cut to `available`: every
        # path from the branch to the controller call passes a definition
        # of the transferred quantity
        sn = cfg.node_containing(sites[0])
        cutters = []
        for d in fl.defs:
            if d.mode != "assign" or not cfg.reaches(gnode, d.node):
                continue
            if not cfg.dominates(gnode, d.node):
                continue
            if name == "read" and d.var == "n_bytes":
                v = d.value
                src = fl.sym(v, d.node)
                cutters.append((d, src))
            if name == "write" and isinstance(d.value, ast.Subscript) and \
                    isinstance(d.value.slice, ast.Slice) and \
                    d.value.slice.lower is None:
                cutters.append((d, fl.sym(d.value.slice.upper, d.node)))
        okc = len(cutters) == 1 and cutters[0][1] == avail and \
            cfg.must_pass(gnode, lambda n: n is cutters[0][0].node,
                          targets=[sn, cfg.exit])
        rep.check(okc, "C13-R6", inst, "on that branch (and only there) the "
                  "transfer is cut to exactly the bytes available",
                  construct="%s truncation to available" % name,
                  node=warns[0],
                  fail="the truncation and the TruncationWarning are not "
                       "tied together: bytes can be dropped silently or a "
                       "warning raised without truncation")
        # no other place shortens the transfer
        others = []
        for d in fl.defs:
            if d.mode == "assign" and d.node is not cutters[0][0].node \
                    if cutters else False:
                if name == "read" and d.var == "n_bytes" and \
                        not has_fact(fl.facts(d.node), "n_bytes < 0", True):
                    others.append(d)
                if name == "write" and d.var == [a.arg for a in
                                                 fn.args.args][1]:
                    others.append(d)
        rep.check(not others, "C13-R6", inst, "nothing else changes the "
                  "amount transferred (apart from expanding the default "
                  "count)", construct="%s other count changes %d" % (
                      name, len(others)), node=fn)
    rep.floor("C13-R6", 6)


def check(program, rep):
    program.module(MOD)
    inline = _inline_props(program)
    r_invariant(program, rep)
    r1_confinement(program, rep, inline)
    r2_slices(program, rep)
    r3_seek(program, rep)
    r5_guards(program, rep)
    r6_truncation_warning(program, rep)
    rep.assume("distinct local names are not aliases of one mutable object")
    rep.assume("_start_address/_end_address are only written by __init__ "
               "(checked: R0) so start <= end is a class invariant")
    _check_fields_only_written_in_init(program, rep)
    return finish(rep, program, EXPLANATION, NOT_DECIDED,
                  trusted=["Python slice-length semantics as axiomatised in "
                           "dataflow._slice_len_axioms"])


def _check_fields_only_written_in_init(program, rep):
    for m in class_methods(program, CLS) + class_methods(
            program, MOD + ":MemoryIO"):
        if m.name == "__init__":
            continue
        for n in ast.walk(m):
            if isinstance(n, (ast.Assign, ast.AugAssign)):
                tgts = n.targets if isinstance(n, ast.Assign) else [n.target]
                for t in tgts:
                    for sub in ast.walk(t):
                        c = chain(sub) if isinstance(sub, ast.Attribute) \
                            else None
                        if c in ("self._start_address", "self._end_address"):
                            rep.bad("C13-R0", qual(m),
                                    "%s written outside __init__" % c,
                                    "%s is modified by %s: the invariant "
                                    "start <= end is no longer established "
                                    "once" % (c, m.name), n)
    rep.ok("C13-R0", CLS, "start/end addresses are written only by __init__")
