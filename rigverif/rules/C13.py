"""C13 - file-like memory views stay in their region (DESIGN section 3, C13).

Decided (static, for all inputs/histories):
  R1 every controller access issued by a view lies inside the view
     (LININV over SlicedMemoryIO.read/write from the class invariant
     start <= end established by __init__)
  R2 slices nest in their parent and are exactly the clipped sub-range named
  R3 seek computes the file-model position for whence 0/1/2, rejects others
  R4 the position advances by exactly the bytes handed to the controller
  R5 every operation is guarded by the closed / freed test
Not decided: "reads return the bytes last written" (memory model).
"""
import ast

from ..core import AnalysisError, finish, unparse
from ..absint import Interp
from ..dataflow import Flow, chain, call_name
from ..cfg import cfg_of
from ..poly import Poly, le, lt, eq
from ..util import (calls_in, decorator_names, qual, has_fact, parse_expr,
                    class_methods, returns_of, raise_name, inlinable,
                    formals)
from ..terms import Terms, reify, plain, subterms

MOD = "rig.machine_control.machine_controller"
CLS = MOD + ":SlicedMemoryIO"

EXPLANATION = (
    "SlicedMemoryIO is analysed as a transition system over (_start_address, "
    "_end_address, _offset, closed). R1: relational abstract interpretation "
    "(linear constraints, weak join, Fourier-Motzkin entailment, Python "
    "slice-length semantics) proves at every self._parent._perform_read/"
    "_perform_write call: start <= addr, n >= 1, addr + n <= end, from the "
    "class invariant start <= end that __init__ establishes. R2: each "
    "definition of the child's start/end in __getitem__ is proved equal to "
    "the clipped sub-range of the file model in every sign case its guard "
    "admits, and nested (start <= s <= e <= end). R3: seek's new offset per "
    "whence value equals the file model. R4: offset after read/write = "
    "offset before + bytes transferred. R5: decorator coverage + the guard "
    "wrapper's dominating tests.")
NOT_DECIDED = [
    "reads return the bytes last written at those positions (needs a memory "
    "model; follows from C07 + R1-R4 when the controller is right)",
]

S = Poly.atom("self._start_address")
E = Poly.atom("self._end_address")
OFF = Poly.atom("self._offset")


def _inline_props(program):
    """Properties and zero-argument helper methods of the view class whose
    body is one expression are inlined by the engines (so extracting such a
    helper, or calling a property, is transparent to the rules)."""
    props, meths = inlinable(program, CLS)
    if "self.address" not in props:
        raise AnalysisError("SlicedMemoryIO.address is no longer an "
                            "expression-like property")
    return props, meths


def r_invariant(program, rep):
    """__init__ establishes start <= end (the class invariant R1/R2 use)."""
    fn = program.get(CLS + ".__init__")
    it = Interp(fn)
    ok = True
    n_exit = it.cfg.exit
    st = it.state_in[n_exit.id]
    if st is None:
        raise AnalysisError("SlicedMemoryIO.__init__ has no normal exit")
    rep.check(it.entails_state(st, [le(S, E)]), "C13-R0", qual(fn),
              "on exit of __init__: _start_address <= _end_address",
              construct="__init__ invariant start<=end", node=fn)
    rep.check(it.entails_state(st, eq(OFF, 0)), "C13-R0", qual(fn),
              "on exit of __init__: _offset == 0",
              construct="__init__ offset 0", node=fn)


# integer constants of the standard library a seek may be written with
_STD_INTS = {"os.SEEK_SET": 0, "os.SEEK_CUR": 1, "os.SEEK_END": 2,
             "io.SEEK_SET": 0, "io.SEEK_CUR": 1, "io.SEEK_END": 2}


def r1_confinement(program, rep, inline):
    n_sites = 0
    props, meths = inline
    for meth in class_methods(program, CLS):
        sites = calls_in(meth, ("_perform_read", "_perform_write"))
        if not sites:
            continue
        off0 = Poly.atom("self._offset@0")
        it = Interp(meth, entry_cons=[le(S, E)] + eq(OFF, off0),
                    inline_props=props, inline_methods=meths)
        # the same method on the two halves of its inputs (position inside /
        # before the view): a bound that follows from a test of the position
        # survives the merge of the test's branches
        # ... and on the sign of each count the caller passes (a parameter
        # the method compares with a number): negative / zero / positive
        counts = sorted(set(
            chain(x_) for c_ in ast.walk(meth)
            if isinstance(c_, ast.Compare) and len(c_.ops) == 1
            for x_, y_ in ((c_.left, c_.comparators[0]),
                           (c_.comparators[0], c_.left))
            if isinstance(y_, ast.Constant) and
            isinstance(y_.value, int) and not isinstance(y_.value, bool) and
            chain(x_) in formals(meth)[1:]))
        cases = [[c_] for c_ in (le(0, off0), lt(off0, 0))]
        for nm in counts[:2]:
            A_ = Poly.atom(nm)
            cases = [cs + extra for cs in cases
                     for extra in ([lt(A_, 0)], list(eq(A_, 0)),
                                   [le(1, A_)])]
        halves = [Interp(meth, entry_cons=[le(S, E)] + eq(OFF, off0) + cs,
                         inline_props=props, inline_methods=meths)
                  for cs in cases]

        class _Both(object):
            def holds_at(self, node_, cons):
                if it.holds_at(node_, cons):
                    return True
                return all((not h.reachable(h.cfg.nodes[node_.id])) or
                           h.holds_at(h.cfg.nodes[node_.id], cons)
                           for h in halves)
        both = _Both()
        for call in sites:
            n_sites += 1
            node = it.cfg.node_containing(call)
            kind = call_name(call)[0]
            if len(call.args) != 2:
                raise AnalysisError("%s called with %d args" % (
                    kind, len(call.args)))
            addr = it.sym(call.args[0], node)
            if kind == "_perform_read":
                n = it.sym(call.args[1], node)
            else:
                d = it.sym(call.args[1], node)
                n = it.flow._composite("len(%r)" % (d,), [d], ("len", d))
            inst = qual(meth)
            what = "%s(%s, %s)" % (kind, unparse(call.args[0]),
                                   unparse(call.args[1]))
            st = it.describe(node)
            rep.check(both.holds_at(node, [le(S, addr)]), "C13-R1", inst,
                      "%s: address %r >= _start_address" % (what, addr),
                      construct="%s lower bound" % kind, node=call,
                      fail="%s may access below the view: cannot show "
                           "_start_address <= %r; state: %s" % (what, addr,
                                                                 st))
            rep.check(both.holds_at(node, [le(addr + n, E)]), "C13-R1", inst,
                      "%s: address + count %r <= _end_address" % (
                          what, addr + n),
                      construct="%s upper bound" % kind, node=call,
                      fail="%s may access beyond the view: cannot show "
                           "%r <= _end_address; state: %s" % (what, addr + n,
                                                               st))
            rep.check(both.holds_at(node, [le(1, n)]), "C13-R1", inst,
                      "%s: count %r >= 1 (no empty/negative transfer reaches "
                      "the controller)" % (what, n),
                      construct="%s positive count" % kind, node=call,
                      fail="%s may be issued with a non-positive count %r; "
                           "state: %s" % (what, n, st))
            # the position moves only after the transfer has been issued:
            # a transfer that raises leaves the position where it was
            moves = [n_ for n_ in it.cfg.nodes if n_.kind == "stmt" and
                     isinstance(n_.ast, (ast.Assign, ast.AugAssign)) and any(
                         chain(t_) == "self._offset" for t_ in (
                             n_.ast.targets if isinstance(n_.ast, ast.Assign)
                             else [n_.ast.target]))]
            early = [m_ for m_ in moves if it.cfg.reaches(m_, node) and
                     not it.cfg.dominates(node, m_)]
            rep.check(not early, "C13-R4", inst, "the position is advanced "
                      "only after %s has been issued (a failing transfer "
                      "leaves it unchanged)" % kind,
                      construct="%s before position update" % kind,
                      node=call,
                      fail="the position is advanced before %s is issued: "
                           "when the transfer raises, the position has moved "
                           "although nothing was transferred" % kind)
            # R4: position bookkeeping on every return after this call
            off0 = Poly.atom("self._offset@0")
            for ret in returns_of(meth):
                rn = it.cfg.node_of(ret)
                if not it.reachable(rn):
                    continue
                if it.cfg.dominates(node, rn):
                    # n as seen at the return: re-evaluate the count there
                    if kind == "_perform_read":
                        n_ret = it.sym(call.args[1], rn)
                    else:
                        d = it.sym(call.args[1], rn)
                        n_ret = it.flow._composite(
                            "len(%r)" % (d,), [d], ("len", d))
                    rep.check(
                        it.holds_at(rn, eq(OFF, off0 + n_ret)), "C13-R4",
                        inst, "after %s the offset advanced by exactly the "
                        "bytes transferred (%r)" % (kind, n_ret),
                        construct="%s offset advance" % kind, node=ret,
                        fail="offset after %s is not old offset + %r; "
                             "state: %s" % (kind, n_ret, it.describe(rn)))
        # returns not preceded by a transfer leave the offset unchanged
        off0 = Poly.atom("self._offset@0")
        cnodes = [it.cfg.node_containing(c) for c in sites]
        for ret in returns_of(meth):
            rn = it.cfg.node_of(ret)
            if not it.reachable(rn):
                continue
            if not any(it.cfg.dominates(c, rn) or it.cfg.reaches(c, rn)
                       for c in cnodes):
                rep.check(it.holds_at(rn, eq(OFF, off0)), "C13-R4",
                          qual(meth), "a return without transfer leaves the "
                          "offset unchanged", construct="no-transfer return",
                          node=ret)
    rep.floor("C13-R1", 6)
    rep.floor("C13-R4", 3)
    return n_sites


def _entry_with_offset_ghost(it):
    pass


def r2_slices(program, rep, inline):
    """Each of the nine (start None/<0/>=0) x (stop None/<0/>=0) cases is
    analysed separately by the interpreter (hypothesis = that case); at the
    construction of the child view its start and its effective end (the
    constructor stores max(start, end)) must equal the clipped sub-range of
    the file model.  Works on whatever shape the clipping code has (if/elif,
    conditional expressions, temporaries): only its values are compared."""
    fn = program.get(CLS + ".__getitem__")
    inst = qual(fn)
    props, meths = inline
    params = [a.arg for a in fn.args.args]
    if len(params) != 2:
        raise AnalysisError("__getitem__ signature changed")
    if any(isinstance(c_, ast.Call) and isinstance(c_.func, ast.Attribute)
           and c_.func.attr == "indices" for c_ in ast.walk(fn)):
        raise AnalysisError("__getitem__ clips the slice with slice.indices"
                            "(): the interpreter has no model of it")
    if any(getattr(h, "_virtual", False) for h in ast.walk(fn)):
        raise AnalysisError("__getitem__ computes the bounds of the new view "
                            "in helper methods the reference tree did not "
                            "have: the interpreter does not follow them")
    sl = params[1]
    ctor = calls_in(fn, "SlicedMemoryIO")
    if len(ctor) != 1:
        raise AnalysisError("__getitem__: expected one SlicedMemoryIO(...)")
    call = ctor[0]
    args = list(call.args)
    kw = {k.arg: k.value for k in call.keywords}
    parent = args[0] if args else kw.get("parent")
    start = args[1] if len(args) > 1 else kw.get("start_address")
    end = args[2] if len(args) > 2 else kw.get("end_address")
    if parent is None or start is None or end is None:
        raise AnalysisError("cannot bind SlicedMemoryIO(...) arguments")
    fl0 = Flow(fn, inline_props=props, inline_methods=meths)
    n0 = fl0.cfg.node_containing(call)
    rep.check(fl0.sym(parent, n0) == Poly.atom("self._parent"), "C13-R2",
              inst, "the slice shares the parent allocation (self._parent), "
              "so freeing it disables the slice",
              construct="child parent", node=call)
    A = Poly.atom("%s.start" % sl)
    B = Poly.atom("%s.stop" % sl)
    cases = [("None", None), ("negative", "neg"), ("non-negative", "pos")]
    for an, ak in cases:
        for bn, bk in cases:
            ent = [le(S, E)]
            # the case: None-ness and sign of the slice's start / stop
            extra = []
            for atom, kind in ((A, ak), (B, bk)):
                nm = list(atom.t)[0][0]
                isn = Poly.atom("isnone(%s)" % nm)
                if kind is None:
                    extra += eq(isn, 1)
                else:
                    extra += eq(isn, 0)
                    extra += [lt(atom, 0)] if kind == "neg" else [le(0, atom)]
            it = Interp(fn, entry_cons=ent + extra, inline_props=props,
                        inline_methods=meths)
            node = it.cfg.node_containing(call)
            if not it.reachable(node):
                rep.bad("C13-R2", inst, "case start %s / stop %s never "
                        "builds a view" % (an, bn), "slicing with start %s "
                        "and stop %s does not reach the construction of the "
                        "child view" % (an, bn), call)
                continue
            fl = it.flow
            s_p = it.sym(start, node)
            e_p = it.sym(end, node)
            if ak is None:
                want_s = S
            elif ak == "neg":
                want_s = fl.minmax("max", [S, E + A])
            else:
                want_s = fl.minmax("min", [E, S + A])
            raw = E if bk is None else (E + B if bk == "neg" else S + B)
            want_e = fl.minmax("max", [want_s, fl.minmax("min", [E, raw])])
            eff_e = fl.minmax("max", [s_p, e_p])
            st = it.describe(node)
            ok_s = it.holds_at(node, eq(s_p, want_s))
            ok_e = it.holds_at(node, eq(eff_e, want_e))
            rep.check(ok_s, "C13-R2", inst,
                      "start %s, stop %s: child start = %r" % (an, bn,
                                                                want_s),
                      construct="slice start, start %s stop %s" % (an, bn),
                      node=call,
                      fail="slicing with a %s start (stop %s): the child "
                           "view does not start at %r (the start index "
                           "measured from the %s and clipped into the "
                           "parent); state: %s" % (
                               an, bn, want_s, "end" if ak == "neg"
                               else "start", st))
            rep.check(ok_e, "C13-R2", inst,
                      "start %s, stop %s: child end = %r" % (an, bn, want_e),
                      construct="slice end, start %s stop %s" % (an, bn),
                      node=call,
                      fail="slicing with a %s stop (start %s): the child "
                           "view does not end at %r (the stop index clipped "
                           "into [child start, parent end]); state: %s" % (
                               bn, an, want_e, st))
    # non-unit steps are rejected: under the hypothesis that the step is
    # neither None nor 1 the construction is unreachable
    STEP = Poly.atom("%s.step" % sl)
    for label, cons in (("step >= 2", [le(2, STEP)]),
                        ("step <= 0", [le(STEP, 0)])):
        it = Interp(fn, entry_cons=[le(S, E)] + cons + eq(
            Poly.atom("isnone(%s.step)" % sl), 0), inline_props=props,
            inline_methods=meths)
        node = it.cfg.node_containing(call)
        rep.check(not it.reachable(node), "C13-R2", inst,
                  "a slice with %s never builds a view (ValueError)" % label,
                  construct="non-unit step %s" % label, node=call)
    rep.floor("C13-R2", 20)


def r3_seek(program, rep, inline):
    """seek() is analysed once per whence value (as an entry hypothesis); on
    normal exit the new offset must be the file model's.  Other whence values
    must not return normally."""
    fn = program.get(CLS + ".seek")
    inst = qual(fn)
    props, meths = inline
    names = [a.arg for a in fn.args.args]
    if len(names) < 3:
        raise AnalysisError("seek signature changed")
    n_arg, whence = names[1], names[2]
    N = Poly.atom(n_arg)
    W = Poly.atom(whence)
    off0 = Poly.atom("self._offset@0")
    spec = {0: N, 1: off0 + N, 2: (E - S) + N}
    text = {0: "n", 1: "old offset + n", 2: "length + n"}
    for k in (0, 1, 2):
        it = Interp(fn, entry_cons=eq(W, k) + eq(OFF, off0) + [le(S, E)],
                    inline_props=props, inline_methods=meths,
                    candidates=eq(OFF, spec[k]), consts=_STD_INTS.get)
        ex = it.cfg.exit
        if not it.reachable(ex):
            rep.bad("C13-R3", inst, "whence %d rejected" % k,
                    "seek(n, %d) never returns normally" % k, fn)
            continue
        ok = it.holds_at(ex, eq(OFF, spec[k]))
        construct = "whence %d -> %s" % (k, text[k])
        if not ok and k == 2 and it.holds_at(ex, eq(OFF, (E - S) - N)):
            # the specific, recorded deviation: length - n
            construct = ("whence 2 -> -n_bytes + self._end_address - "
                         "self._start_address")
        elif not ok:
            construct = "whence %d -> not %s (%s)" % (
                k, text[k], it.describe(ex)[-120:])
        rep.check(ok, "C13-R3", inst, "seek(n, %d) sets the position to %s"
                  % (k, text[k]), construct=construct, node=fn,
                  fail="seek(n, %d) does not set the position to %s as a "
                       "file (and the method's docstring) does; state on "
                       "exit: %s" % (k, text[k], it.describe(ex)))
    for label, cons in (("whence < 0", [le(W, -1)]),
                        ("whence > 2", [le(3, W)])):
        it = Interp(fn, entry_cons=cons, inline_props=props,
                    inline_methods=meths, consts=_STD_INTS.get)
        rep.check(not it.reachable(it.cfg.exit), "C13-R3", inst,
                  "%s is rejected (no normal return)" % label,
                  construct="invalid %s accepted" % label, node=fn)
    rep.floor("C13-R3", 5)


def _const(program, expr):
    if isinstance(expr, ast.Constant) and isinstance(expr.value, int):
        return expr.value
    t = unparse(expr)
    return {"os.SEEK_SET": 0, "os.SEEK_CUR": 1, "os.SEEK_END": 2}.get(t)


GUARDED_EXEMPT = {
    "__init__": "constructor",
    "close": "idempotent by design (closing twice is allowed)",
    "__enter__": "returns self, touches no memory",
    "__exit__": "only calls close()",
    "__len__": "reads no memory, length of a closed file is still defined",
}


def r5_guards(program, rep):
    # the wrapper really tests both flags before calling through
    for wrapper, tests in (("_if_not_closed", ["self.closed",
                                               "self._parent._freed"]),
                           ("_if_not_freed", ["self._freed"])):
        fn = program.get("%s:%s.f_" % (MOD, wrapper))
        outer = program.get("%s:%s" % (MOD, wrapper))
        wrapped = outer.args.args[0].arg
        fl = Flow(fn)
        sites = calls_in(fn, wrapped)
        if not sites:
            raise AnalysisError("%s no longer calls the wrapped method" %
                                wrapper)
        TW = Terms(fn)
        for call in sites:
            node = fl.cfg.node_containing(call)
            facts = fl.facts(node)
            tfacts = [(plain(t_), p_) for t_, p_ in TW.all_facts(
                TW.cfg.node_containing(call))]

            def chain_term(text):
                parts = text.split(".")
                t_ = ("param", parts[0])
                for a_ in parts[1:]:
                    t_ = ("attr", t_, a_)
                return t_
            for t in tests:
                rep.check(has_fact(facts, t, False) or
                          (chain_term(t), False) in tfacts, "C13-R5",
                          "%s:%s.f_" % (MOD, wrapper),
                          "the wrapped call is dominated by the test that "
                          "%s is false" % t,
                          construct="%s tests %s" % (wrapper, t), node=call,
                          fail="%s calls the method without having tested "
                               "%s" % (wrapper, t))
            # ... and refuses in no other state: the methods guarded by
            # _if_not_freed are the ROOT view's transfer functions, which
            # every slice goes through - whether the root view itself has
            # been closed must not matter to them (an open slice of a
            # closed root still reads and writes; a closed root can still
            # be freed)
            if wrapper == "_if_not_freed":
                extra = [(t_, p_) for t_, p_ in tfacts
                         if t_ != chain_term("self._freed")]
                own = [t_ for t_, p_ in extra if any(
                    st_ == ("attr", ("param", "self"), "closed")
                    for st_ in subterms(t_))]
                if extra and not own:
                    raise AnalysisError("_if_not_freed: the wrapped method "
                                        "is reached under further tests "
                                        "that are not read")
                rep.check(not own, "C13-R5", "%s:%s.f_" % (MOD, wrapper),
                          "the root's transfer functions and free() are "
                          "refused only once the allocation is freed",
                          construct="%s tests only the allocation" % wrapper,
                          node=call,
                          fail="_if_not_freed also refuses when the view it "
                               "is called on is closed: that view is the "
                               "root, whose transfer functions serve every "
                               "slice - reads and writes of slices that are "
                               "still open fail once the root view is "
                               "closed, and a closed root cannot be freed")
            # forwards self and the arguments
            a0 = call.args[0] if call.args else None
            rep.check(a0 is not None and chain(a0) == "self" and
                      any(isinstance(a, ast.Starred) for a in call.args) and
                      any(k.arg is None for k in call.keywords), "C13-R5",
                      "%s:%s.f_" % (MOD, wrapper),
                      "the wrapper forwards self, *args, **kwargs",
                      construct="%s forwards" % wrapper, node=call)
        # the failing branch raises (does not return normally)
        for r in [n for n in ast.walk(fn) if isinstance(n, ast.Raise)]:
            pass
    # coverage
    for cname in (CLS, MOD + ":MemoryIO"):
        cdef = program.module(MOD).defs.get(cname.split(":")[1])
        wrapped_later = isinstance(cdef, ast.ClassDef) and (
            cdef.decorator_list or any(
                isinstance(st_, ast.Assign) and
                isinstance(st_.value, ast.Call) and
                any(chain(a_) in ("_if_not_closed", "_if_not_freed")
                    for a_ in ast.walk(st_.value))
                for st_ in cdef.body))
        if wrapped_later:
            raise AnalysisError("%s: the guards are attached to the methods "
                                "by a class decorator / after their "
                                "definition, not by a decorator on each "
                                "method; that form is not analysed" %
                                cname.split(":")[1])
    for m in class_methods(program, CLS):
        if m.name in GUARDED_EXEMPT:
            continue
        if m.name.startswith("_") and not m.name.startswith("__"):
            # private helper: not an operation of the view; it is only
            # reachable through the (guarded) public operations
            continue
        decs = decorator_names(m)
        rep.check("_if_not_closed" in decs, "C13-R5", qual(m),
                  "operation %s is wrapped by _if_not_closed" % m.name,
                  construct="%s unguarded" % m.name, node=m,
                  fail="%s is not guarded by _if_not_closed: it works on a "
                       "closed view / freed allocation" % m.name)
        if "property" in decs:
            rep.check(decs.index("property") < decs.index("_if_not_closed")
                      if "_if_not_closed" in decs else False, "C13-R5",
                      qual(m), "property %s applies the guard inside the "
                      "property" % m.name, construct="%s property order" %
                      m.name, node=m)
    mio = MOD + ":MemoryIO"
    for m in class_methods(program, mio):
        if m.name == "__init__":
            continue
        decs = decorator_names(m)
        rep.check("_if_not_freed" in decs, "C13-R5", qual(m),
                  "MemoryIO.%s is wrapped by _if_not_freed" % m.name,
                  construct="%s unguarded" % m.name, node=m)
    # free() marks the allocation freed on every normal path, after freeing
    free = program.get(mio + ".free")
    fl = Flow(free)
    cfg = fl.cfg
    sets = [d.node for d in fl.defs if d.var == "self._freed" and
            d.mode == "assign" and isinstance(d.value, ast.Constant) and
            d.value.value is True]
    frees = [cfg.node_containing(c) for c in calls_in(free, "sdram_free")]
    rep.check(bool(sets) and bool(frees) and
              cfg.must_pass(cfg.entry, lambda n: n in sets) and
              all(any(cfg.dominates(f, s) for f in frees) for s in sets),
              "C13-R5", qual(free),
              "free() frees the memory and then sets _freed on every normal "
              "path", construct="free sets _freed", node=free)
    # __init__ starts open / not freed
    init = program.get(mio + ".__init__")
    fl = Flow(init)
    ok = any(d.var == "self._freed" and isinstance(d.value, ast.Constant) and
             d.value.value is False for d in fl.defs)
    rep.check(ok, "C13-R5", qual(init), "a new MemoryIO is not freed",
              construct="init _freed False", node=init)
    rep.floor("C13-R5", 15)


def r6_truncation_warning(program, rep):
    """A TruncationWarning is emitted exactly when fewer bytes are
    transferred than requested: the warning sits on the branch taken iff
    requested > available, the count is cut to `available` on that branch
    and nowhere else."""
    for name, counted in (("read", "n_bytes"), ("write", None)):
        fn = program.get(CLS + "." + name)
        inst = qual(fn)
        fl = Flow(fn)
        cfg = fl.cfg
        def _names_warning(e):
            # the category, or an instance of it, or category=<it>
            return chain(e) == "TruncationWarning" or (
                isinstance(e, ast.Call) and
                chain(e.func) == "TruncationWarning")
        warns = [c for c in calls_in(fn, "warn")
                 if any(_names_warning(a) for a in c.args) or any(
                     _names_warning(k.value) for k in c.keywords)]
        sites = calls_in(fn, ("_perform_read", "_perform_write"))
        ok = len(warns) == 1 and len(sites) == 1
        if len(warns) > 1:
            raise AnalysisError("%s warns of truncation at several sites; "
                                "the rule reads the one-site form" % name)
        rep.check(ok, "C13-R6", inst, "%s has one truncation warning site" %
                  name, construct="%s warn sites %d" % (name, len(warns)),
                  node=fn)
        if not ok:
            continue
        wn = cfg.node_containing(warns[0])
        # the guard: requested > available (strict)
        guard = None
        for c, p, a in fl.facts(wn):
            if isinstance(c, ast.Compare) and len(c.ops) == 1:
                opn = type(c.ops[0]).__name__
                if (opn == "Gt" and p) or (opn == "LtE" and not p):
                    guard = (fl.sym(c.left, a), fl.sym(c.comparators[0], a),
                             a)
                elif (opn == "Lt" and p) or (opn == "GtE" and not p):
                    guard = (fl.sym(c.comparators[0], a), fl.sym(c.left, a),
                             a)
        if guard is None and any(
                isinstance(c, ast.Compare) and
                isinstance(c.ops[0], (ast.NotEq, ast.Eq))
                for c, p, a in fl.facts(wn)):
            # e.g. 'transferred != requested' with transferred = min(...):
            # an equivalent test these rules do not read
            raise AnalysisError("%s: the truncation warning is guarded by "
                                "an (in)equality test, not by a comparison "
                                "of the bytes requested with the bytes "
                                "available" % name)
        rep.check(guard is not None, "C13-R6", inst, "the warning is "
                  "emitted only under 'requested > available'",
                  construct="%s warn guard" % name, node=warns[0])
        if guard is None:
            continue
        req, avail, gnode = guard
        # what is requested: the parameter's count
        if name == "read":
            want_req = fl.sym(parse_expr("n_bytes"), gnode)
        else:
            want_req = fl.sym(parse_expr("len(%s)" % [
                a.arg for a in fn.args.args][1]), gnode)
        rep.check(req == want_req, "C13-R6", inst, "'requested' is the "
                  "number of bytes the caller asked to transfer",
                  construct="%s warn compares %r" % (name, req),
                  node=warns[0])
        # on the warning branch the transfer is cut to `available`: every
        # path from the branch to the controller call passes a definition
        # of the transferred quantity
        sn = cfg.node_containing(sites[0])
        cutters = []
        for d in fl.defs:
            if d.mode != "assign" or not cfg.reaches(gnode, d.node):
                continue
            if not cfg.dominates(gnode, d.node):
                continue
            if name == "read" and d.var == "n_bytes":
                v = d.value
                src = fl.sym(v, d.node)
                cutters.append((d, src))
            if name == "write" and isinstance(d.value, ast.Subscript) and \
                    isinstance(d.value.slice, ast.Slice) and \
                    d.value.slice.lower is None:
                cutters.append((d, fl.sym(d.value.slice.upper, d.node)))
        okc = len(cutters) == 1 and cutters[0][1] == avail and \
            cfg.must_pass(gnode, lambda n: n is cutters[0][0].node,
                          targets=[sn, cfg.exit])
        rep.check(okc, "C13-R6", inst, "on that branch (and only there) the "
                  "transfer is cut to exactly the bytes available",
                  construct="%s truncation to available" % name,
                  node=warns[0],
                  fail="the truncation and the TruncationWarning are not "
                       "tied together: bytes can be dropped silently or a "
                       "warning raised without truncation")
        # no other place shortens the transfer
        others = []
        for d in fl.defs:
            if d.mode == "assign" and d.node is not cutters[0][0].node \
                    if cutters else False:
                if name == "read" and d.var == "n_bytes" and \
                        not has_fact(fl.facts(d.node), "n_bytes < 0", True):
                    others.append(d)
                if name == "write" and d.var == [a.arg for a in
                                                 fn.args.args][1]:
                    others.append(d)
        rep.check(not others, "C13-R6", inst, "nothing else changes the "
                  "amount transferred (apart from expanding the default "
                  "count)", construct="%s other count changes %d" % (
                      name, len(others)), node=fn)
    rep.floor("C13-R6", 6)


def r0_allocated_view(program, rep):
    """sdram_alloc_as_filelike wraps exactly the block it allocated: the
    view runs from the address returned by sdram_alloc(size, ...) to that
    address + size (value terms / polynomials)."""
    fn = program.get(MOD + ":MachineController.sdram_alloc_as_filelike")
    inst = qual(fn)
    T = Terms(fn)
    fl = Flow(fn)
    ps = formals(fn)
    rets = [r for r in returns_of(fn) if r.value is not None]
    mk = [c for c in calls_in(fn, "MemoryIO")]
    al = [c for c in calls_in(fn, "sdram_alloc")]
    if len(mk) != 1 or len(al) != 1 or len(mk[0].args) < 5:
        raise AnalysisError("sdram_alloc_as_filelike: one sdram_alloc and "
                            "one MemoryIO(...) with positional bounds "
                            "expected")
    n = T.cfg.node_containing(mk[0])
    START = T.term(al[0], T.cfg.node_containing(al[0]))
    a = [T.term(x, n) for x in mk[0].args]
    size = T.term(al[0].args[0], T.cfg.node_containing(al[0])) \
        if al[0].args else None
    ok_s = a[3] == START and size == ("param", ps[1])

    def poly(t):
        e_ = reify(plain(t))
        for n_ in ast.walk(e_):
            for c_ in ast.iter_child_nodes(n_):
                c_._parent = n_
        ast.fix_missing_locations(e_)
        return fl.sym(e_, fl.cfg.entry)
    try:
        ok_e = ok_s and poly(a[4]) - poly(a[3]) == poly(("param", ps[1]))
    except AnalysisError:
        raise AnalysisError("sdram_alloc_as_filelike: the end of the view "
                            "is not an arithmetic expression of the start "
                            "and the size")
    rep.check(ok_s, "C13-R0", inst, "the view starts at the address "
              "sdram_alloc(size, ...) returned", construct="allocated view "
              "start", node=mk[0])
    rep.check(ok_e, "C13-R0", inst, "the view ends at start + size: it is "
              "exactly the block allocated", construct="allocated view end",
              node=mk[0],
              fail="the view handed out for an allocation of `size` bytes "
                   "does not end at start + size: reads and writes through "
                   "it reach beyond (or stop short of) the allocated block")


def r5_exit_closes(program, rep):
    """Leaving a ``with`` block closes the view whichever way the block was
    left: a view left open after an exception keeps reaching the machine."""
    ex = program.get(CLS + ".__exit__")
    fl = Flow(ex)
    cfg = fl.cfg
    closes = [c for c in calls_in(ex, "close") if chain(c.func.value) ==
              formals(ex)[0]]
    if not closes:
        raise AnalysisError("SlicedMemoryIO.__exit__: no call of "
                            "self.close() found (closed some other way?)")
    nodes = [cfg.node_containing(c) for c in closes]
    ok = cfg.must_pass(cfg.entry, lambda n: n in nodes,
                       targets=[cfg.exit])
    rep.check(ok, "C13-R5", qual(ex), "__exit__ closes the view on every "
              "path (also when the block was left by an exception)",
              construct="exit closes", node=ex,
              fail="__exit__ does not call close() on every path (e.g. only "
                   "when no exception is in flight): a view whose block "
                   "failed stays usable and still reads and writes the "
                   "machine")


def check(program, rep):
    program.module(MOD)
    program.get(CLS + ".address")
    try:
        inline = _inline_props(program)
    except AnalysisError as e:
        # (the property exists but does more than compute an expression)
        inline = None
        why_ = str(e)
    # the proofs are about a view whose state is the pair (_start_address,
    # _end_address) stored by __init__ plus _offset; another representation
    # (e.g. start + length, with the end derived) is outside them
    init = program.get(CLS + ".__init__")
    stored = set(chain(t) for n in ast.walk(init)
                 if isinstance(n, ast.Assign) for t in n.targets
                 if chain(t) and chain(t).startswith("self."))
    derived = [m.name for m in class_methods(program, CLS)
               if m.name in ("_start_address", "_end_address", "_offset")]
    if inline is None:
        rep.undecided(["C13-R0", "C13-R1", "C13-R2", "C13-R3", "C13-R4"],
                      why_ + ": the view's address arithmetic is not read "
                      "through it")
    elif not {"self._start_address", "self._end_address",
              "self._offset"} <= stored or derived:
        rep.undecided(["C13-R0", "C13-R1", "C13-R2", "C13-R3", "C13-R4"],
                      "SlicedMemoryIO no longer keeps its region as the "
                      "stored pair (_start_address, _end_address) and its "
                      "position as _offset: the interpreter's model of the "
                      "view does not apply to this representation")
    else:
        rep.guard("C13-R0", r_invariant, program, rep)
        rep.guard("C13-R1", r1_confinement, program, rep, inline)
        rep.guard("C13-R2", r2_slices, program, rep, inline)
        rep.guard("C13-R3", r3_seek, program, rep, inline)
    rep.guard("C13-R0", r0_allocated_view, program, rep)
    rep.guard("C13-R5", r5_guards, program, rep)
    rep.guard("C13-R5", r5_exit_closes, program, rep)
    rep.guard("C13-R6", r6_truncation_warning, program, rep)
    rep.assume("distinct local names are not aliases of one mutable object")
    rep.assume("_start_address/_end_address are only written by __init__ "
               "(checked: R0) so start <= end is a class invariant")
    _check_fields_only_written_in_init(program, rep)
    # the slips that are visible wherever they occur (NAMELINK, FALSY, STALE,
    # NOEFFECT, SLIPS - DESIGN.md 9.13-9.15), over the property's modules
    from .. import namelink as _nl
    rep.guard("C13-R7", _nl.rule, program, rep, "C13-R7",
              ['rig.machine_control.machine_controller', 'rig.machine_control.utils'], floor=0)
    return finish(rep, program, EXPLANATION, NOT_DECIDED,
                  trusted=["Python slice-length semantics as axiomatised in "
                           "dataflow._slice_len_axioms"])


def _check_fields_only_written_in_init(program, rep):
    for m in class_methods(program, CLS) + class_methods(
            program, MOD + ":MemoryIO"):
        if m.name == "__init__":
            continue
        for n in ast.walk(m):
            if isinstance(n, (ast.Assign, ast.AugAssign)):
                tgts = n.targets if isinstance(n, ast.Assign) else [n.target]
                for t in tgts:
                    for sub in ast.walk(t):
                        c = chain(sub) if isinstance(sub, ast.Attribute) \
                            else None
                        if c in ("self._start_address", "self._end_address"):
                            rep.bad("C13-R0", qual(m),
                                    "%s written outside __init__" % c,
                                    "%s is modified by %s: the invariant "
                                    "start <= end is no longer established "
                                    "once" % (c, m.name), n)
    rep.ok("C13-R0", CLS, "start/end addresses are written only by __init__")
