"""C02 - every placer returns a feasible, constraint-respecting placement or
fails with a documented error.

R1 capacity test dominates every commit, and the commit updates the working
   machine
R2 annealer swap discipline (python kernel); resource-index agreement (C
   kernel); chip resources are always the first operand of add/subtract
R3 constraint dispatch is the same in every placer; thin wrappers forward
   their own arguments
R4 same-chip merge / expand pairing; element-presence discipline when the
   vertex order is rewritten
R5 reservation arithmetic
R6 only the documented failures are raised explicitly
R7 the standard-library API on the placers' paths exists / is used validly
"""
import ast

from ..core import AnalysisError, finish, unparse
from ..dataflow import Flow, chain, call_name
from ..link import check_module, sample_of_set
from ..absint import Interp
from ..poly import eq
from ..util import calls_in, qual, formals, returns_of, raises_of, \
    raise_name, has_fact, bind
from ..terms import Terms, plain, unsite, is_none, mk_cmp, match, V, ANY, \
    alternatives, subterms, lookup, presence, show, owner_terms

PL = "rig.place_and_route.place"
PLACERS = {
    "sequential": PL + ".sequential:place",
    "rand": PL + ".rand:place",
    "sa": PL + ".sa.algorithm:place",
}
WRAPPERS = {
    "breadth_first": PL + ".breadth_first:place",
    "hilbert": PL + ".hilbert:place",
    "rcm": PL + ".rcm:place",
}
DOCUMENTED = {"InsufficientResourceError", "InvalidConstraintError"}

EXPLANATION = (
    "Dominance and must-pass-through facts over the CFGs of sequential."
    "place, rand.place, sa.algorithm.place/_initial_placement and the python "
    "annealing kernel: every store into the placement map is dominated by a "
    "failed overallocated(subtract_resources(machine[loc], "
    "vertices_resources[v])) test for the same loc and v (def-use identity) "
    "and followed by machine[loc] = that result; location constraints are "
    "checked against the machine first and against capacity afterwards; "
    "swaps are dominated by the three admission tests and reverted by the "
    "mirrored call; chip-resource dictionaries are always the first operand "
    "of add/subtract_resources (whose result keeps the first operand's "
    "keys); the C kernel's two resource-index loops enumerate one "
    "expression; the constraint loops dispatch identically; "
    "apply/finalise_same_chip_constraints are paired on every non-empty "
    "return; explicit raises are the two documented errors; LINK.")
NOT_DECIDED = [
    "'succeeds whenever a placement exists' (completeness of the searches)",
    "termination of the annealing schedule",
    "the C kernel's internal moves (C code outside the repository); only "
    "the data handed to it is checked",
    "implicit exceptions (KeyError, IndexError ...) other than the "
    "list.remove discipline of R4",
]


def _res_role(fl, expr, node, depth=0):
    """'chip' | 'vertex' | None for a resource-dictionary expression."""
    if isinstance(expr, ast.Subscript):
        base = unparse(expr.value)
        if base in ("machine", "self.machine"):
            return "chip"
        if base in ("vertices_resources", "self.vertices_resources"):
            return "vertex"
        return None
    if isinstance(expr, ast.Attribute):
        if unparse(expr) in ("machine.chip_resources",
                             "self.machine.chip_resources"):
            return "chip"
        return None
    if isinstance(expr, ast.Call):
        nm = call_name(expr)[0]
        if nm in ("add_resources", "subtract_resources",
                  "resources_after_reservation") and expr.args:
            return _res_role(fl, expr.args[0], node, depth + 1)
        return None
    c = chain(expr)
    if c is None or depth > 10:
        return None
    roles = set()
    for d in fl.reaching(c, node):
        if d.mode == "assign" and d.value is not None:
            roles.add(_res_role(fl, d.value, d.node, depth + 1))
        elif d.mode == "param":
            roles.add({"resources": "vertex", "src_resources": "vertex",
                       "chip_resources": "chip"}.get(d.var))
        else:
            roles.add(None)
    return roles.pop() if len(roles) == 1 else None


def _resolve1(fl, expr, node):
    c = chain(expr)
    if c is None:
        return expr
    ds = fl.reaching(c, node)
    if len(ds) == 1 and ds[0].mode == "assign" and ds[0].value is not None:
        return ds[0].value
    return expr


def _is_call(t, name):
    return t[0] == "call" and t[1] == ("global", name)


def r1_commits(program, rep):
    """Every store into the placement map is justified semantically: the
    value tested for over-allocation is *equal* (an invariant of the
    interpreter's equality domain, whatever the staging through temporaries
    and loops) to subtract_resources(machine[loc], vertices_resources[v]) for
    the loc and v being committed, and the same value becomes machine[loc]."""
    specs = [("sequential", PLACERS["sequential"]),
             ("rand", PLACERS["rand"]),
             ("sa", PL + ".sa.algorithm:_initial_placement")]
    for name, spec in specs:
        fn = program.get(spec)
        inst = qual(fn)
        T = Terms(fn)
        fl = T.flow
        cfg = T.cfg
        it = Interp(fn, pure_calls=("subtract_resources", "overallocated",
                                    "add_resources"))
        params = formals(fn)
        mach = "machine"
        vres = "vertices_resources"
        if mach not in params or vres not in params:
            raise AnalysisError("%s: machine / vertices_resources formals" %
                                name)
        rets = [T.term(r.value) for r in returns_of(fn)
                if r.value is not None]
        stores = []
        for n in cfg.nodes:
            st = n.ast
            if n.kind == "stmt" and isinstance(st, ast.Assign) and \
                    len(st.targets) == 1 and \
                    isinstance(st.targets[0], ast.Subscript):
                base = T.term(st.targets[0].value, n)
                if base in rets and base[0] == "new":
                    stores.append((n, st))
        mstores = [(n, n.ast) for n in cfg.nodes
                   if n.kind == "stmt" and isinstance(n.ast, ast.Assign) and
                   len(n.ast.targets) == 1 and
                   isinstance(n.ast.targets[0], ast.Subscript) and
                   plain(T.term(n.ast.targets[0].value, n)) in (
                       ("param", mach),
                       ("call", ("attr", ("param", mach), "copy"), (), ()))]
        n_mov = 0
        for node, st in stores:
            vexp, lexp = st.targets[0].slice, st.value
            V, LOC = T.term(vexp, node), T.term(lexp, node)
            facts = T.all_facts(node)
            constrained = any(p and _is_call(t, "isinstance") and
                              "LocationConstraint" in show(t)
                              for t, p in facts)
            if constrained:
                MACH = T.term(ast.parse(mach, mode="eval").body, node)
                ok_in = (mk_cmp("In", LOC, MACH), True) in facts
                CELL = ("item", MACH, LOC)
                VRES = T.term(ast.parse(vres, mode="eval").body, node)
                want = ("call", ("global", "subtract_resources"),
                        (CELL, ("item", VRES, V)), ())
                ok_upd = ok_chk = False
                for mn, ms in mstores:
                    if not cfg.reaches(node, mn):
                        continue
                    if T.term(ms.targets[0], mn) == CELL and \
                            plain(T.term(ms.value, mn)) == plain(want):
                        ok_upd = True
                        for r in raises_of(fn):
                            rn = cfg.node_of(r)
                            if raise_name(r) == "InsufficientResourceError" \
                                    and cfg.dominates(mn, rn) and any(
                                        p and _is_call(t, "overallocated")
                                        and plain(t[2][0]) in (plain(CELL),
                                                               plain(want))
                                        for t, p in T.all_facts(rn)):
                                ok_chk = True
                rep.check(ok_in and ok_upd and ok_chk, "C02-R1", inst,
                          "a location-constrained vertex is placed only on "
                          "a chip that is in the machine, its resources are "
                          "subtracted from that chip and over-allocation "
                          "raises InsufficientResourceError",
                          construct="constrained commit", node=st)
                continue
            n_mov += 1
            inode = it.cfg.node_of(st)
            want = it.sym("subtract_resources(%s[%s], %s[%s])" % (
                mach, unparse(lexp), vres, unparse(vexp)), inode)
            ok = False
            for c, p, a in fl.facts(node):
                if p or not (isinstance(c, ast.Call) and
                             call_name(c)[0] == "overallocated" and
                             len(c.args) == 1):
                    continue
                x = it.sym(c.args[0], inode)
                if it.holds_at(inode, eq(x, want)):
                    ok = True
            rep.check(ok, "C02-R1", inst, "placing a movable vertex is "
                      "dominated by 'not overallocated(x)' with x = "
                      "machine[loc] - vertices_resources[v] for the very loc "
                      "and v committed", construct="capacity test before "
                      "commit", node=st,
                      fail="the placement [%s] = %s is not guarded by a "
                           "capacity test of that very chip and vertex: a "
                           "chip can be over-filled" % (unparse(vexp),
                                                        unparse(lexp)))
            # ... and machine[loc] becomes that same value
            okm = False
            heads = [h for h in cfg.loop_head.values()]
            for mn, ms in mstores:
                if not (mn is node or cfg.dominates(mn, node) or
                        cfg.must_pass(node, lambda n, mn=mn: n is mn,
                                      targets=heads + [cfg.exit])):
                    continue
                imn = it.cfg.node_of(ms)
                same_loc = it.holds_at(imn, eq(
                    it.sym(ms.targets[0].slice, imn), it.sym(lexp, imn)))
                w2 = it.sym("subtract_resources(%s[%s], %s[%s])" % (
                    mach, unparse(lexp), vres, unparse(vexp)), imn)
                same_val = it.holds_at(imn, eq(it.sym(ms.value, imn), w2))
                if same_loc and same_val:
                    okm = True
            rep.check(okm, "C02-R1", inst, "and the chip's remaining "
                      "resources are updated with that same subtraction",
                      construct="machine update after commit", node=st,
                      fail="after placing a vertex the working machine is "
                           "not updated with the resources it consumes")
        rep.check(n_mov >= 1, "C02-R1", inst, "%s has a guarded commit of "
                  "movable vertices" % name, construct="movable commits %d"
                  % n_mov, node=fn)
    rep.floor("C02-R1", 10)


def r2_kernel(program, rep):
    pk = PL + ".sa.python_kernel"
    step = program.get(pk + ":_step")
    inst = qual(step)
    fl = Flow(step)
    cfg = fl.cfg
    swaps = calls_in(step, "_swap")
    ok = len(swaps) == 2
    rep.check(ok, "C02-R2", inst, "one swap and one revert",
              construct="swap calls %d" % len(swaps), node=step)
    if ok:
        s1, s2 = swaps
        n1, n2 = cfg.node_containing(s1), cfg.node_containing(s2)
        f = fl.facts(n1)
        dstv = chain(s1.args[2])
        dstl = chain(s1.args[3])
        okg = has_fact(f, "%s not in machine" % dstl, False) and \
            has_fact(f, "%s is None" % dstv, False) and \
            any(not p and isinstance(c, ast.Call) and
                call_name(c)[0] == "overallocated" for c, p, _ in f)
        rep.check(okg, "C02-R2", inst, "a swap happens only if the "
                  "destination chip exists, a set of vertices to displace "
                  "was found, and the displaced vertices fit on the source "
                  "chip", construct="swap admission", node=s1)
        # the fit test is about machine[src] + src_vertex - displaced
        okf = False
        for c, p, a in f:
            if not p and isinstance(c, ast.Call) and \
                    call_name(c)[0] == "overallocated":
                rv = chain(c.args[0])
                defs = [d for d in fl.defs if d.var == rv]
                texts = [unparse(d.value) for d in defs
                         if d.mode == "assign"]
                srcl = chain(s1.args[1])
                okf = "machine[%s]" % srcl in texts and any(
                    t.startswith("add_resources(%s, " % rv) for t in texts) \
                    and any(t.startswith("subtract_resources(%s, "
                                         "vertices_resources[" % rv)
                            for t in texts)
        rep.check(okf, "C02-R2", inst, "the fit test evaluates the source "
                  "chip's resources + the moving vertex - every displaced "
                  "vertex", construct="source fit computation", node=step)
        a1 = [unparse(a) for a in s1.args]
        a2 = [unparse(a) for a in s2.args]
        okm = a1[0] == a2[0] and a1[2] == a2[2] and a1[1] == a2[3] and \
            a1[3] == a2[1] and a1[4:] == a2[4:] and cfg.dominates(n1, n2)
        rep.check(okm, "C02-R2", inst, "the revert is the same swap with "
                  "the two locations exchanged", construct="revert mirrors",
                  node=s2)
        cand = calls_in(step, "_get_candidate_swap")
        okc = len(cand) == 1 and [unparse(a) for a in cand[0].args[:2]] == [
            "src_resources", dstl]
        sr = fl.reaching("src_resources", n1)
        okc = okc and len(sr) == 1 and unparse(sr[0].value) == \
            "vertices_resources[src_vertex]"
        rep.check(okc, "C02-R2", inst, "displaced vertices are chosen for "
                  "the moving vertex's own requirements at the destination",
                  construct="candidate arguments", node=step)
    sw = program.get(pk + ":_swap")
    sfl = Flow(sw)
    t = unparse(sw)
    parts = ["placements[va] = vbs_location", "vas_location2v.remove(va)",
             "vbs_location2v.append(va)",
             "vas_resources = add_resources(vas_resources, resources)",
             "vbs_resources = subtract_resources(vbs_resources, resources)",
             "placements[vb] = vas_location", "vbs_location2v.remove(vb)",
             "vas_location2v.append(vb)",
             "vas_resources = subtract_resources(vas_resources, resources)",
             "vbs_resources = add_resources(vbs_resources, resources)",
             "machine[vas_location] = vas_resources",
             "machine[vbs_location] = vbs_resources"]
    missing = [p for p in parts if p not in t]
    rep.check(not missing, "C02-R2", qual(sw), "a swap moves every vertex "
              "in the placement map, in both chip lists and in both chips' "
              "resource totals, symmetrically", construct="swap updates "
              "missing %s" % missing, node=sw)
    gc = program.get(pk + ":_get_candidate_swap")
    gfl = Flow(gc)
    ap = calls_in(gc, "append")
    okx = len(ap) == 1
    if okx:
        f = gfl.facts(gfl.cfg.node_containing(ap[0]))
        okx = has_fact(f, "vertices[i] in fixed_vertices", False) and \
            has_fact(f, "i >= len(vertices)", False)
    rep.check(okx, "C02-R2", qual(gc), "fixed (location-constrained) "
              "vertices are never selected for displacement",
              construct="fixed vertices stay", node=gc)
    # chip resources first in every add/subtract of the place package
    n = 0
    for mname in sorted(program.modules):
        if not mname.startswith(PL):
            continue
        for q, f_ in program.functions(mname):
            if q in ("add_resources", "subtract_resources"):
                continue
            ffl = None
            for c in calls_in(f_, ("add_resources", "subtract_resources")):
                if ffl is None:
                    ffl = Flow(f_)
                node = ffl.cfg.node_containing(c)
                r1 = _res_role(ffl, c.args[0], node)
                r2 = _res_role(ffl, c.args[1], node)
                n += 1
                okr = r1 != "vertex" and r2 != "chip"
                rep.check(okr, "C02-R2", "%s:%s" % (mname, q),
                          "%s(%s, %s): the chip's resources are the first "
                          "operand (the result keeps the first operand's "
                          "keys)" % (call_name(c)[0], unparse(c.args[0]),
                                     unparse(c.args[1])),
                          construct="%s operand order (%s, %s)" % (
                              call_name(c)[0], r1, r2), node=c,
                          fail="%s(%s, %s) has a vertex's (sparse) resource "
                               "dictionary as first operand: resources the "
                               "vertex does not list vanish from the "
                               "result, so an over-allocation of them goes "
                               "unnoticed" % (call_name(c)[0],
                                              unparse(c.args[0]),
                                              unparse(c.args[1])))
    # C kernel: one resource order
    ck = program.get(PL + ".sa.c_kernel:CKernel.__init__")
    loops = [lp for lp in ast.walk(ck) if isinstance(lp, ast.For) and
             isinstance(lp.iter, ast.Call) and
             call_name(lp.iter)[0] == "enumerate" and
             isinstance(lp.target, ast.Tuple) and
             chain(lp.target.elts[1]) == "resource"]
    srcs = set(unparse(lp.iter.args[0]) for lp in loops)
    new = calls_in(ck, "sa_new")
    okn = len(loops) == 2 and srcs == {"machine.chip_resources"} and \
        len(new) == 1 and "len(machine.chip_resources)" in [
            unparse(a) for a in new[0].args]
    rep.check(okn, "C02-R2", qual(ck), "vertex requirements and per-chip "
              "free resources are indexed by one enumeration of the "
              "machine's resource list", construct="C kernel resource order "
              "%s" % sorted(srcs), node=ck,
              fail="the C kernel's resource index is taken from different "
                   "enumerations (%s): on a chip whose exception "
                   "dictionary lists resources in another order the "
                   "quantities are swapped" % sorted(srcs))
    t = unparse(ck)
    okc = "machine[x, y][resource]" in t and \
        "vertices_resources[vertex].get(resource, 0)" in t and \
        "vertex in movable_vertices" in t
    rep.check(okc, "C02-R2", qual(ck), "the C kernel is given each chip's "
              "own free resources, each vertex's requirement per resource, "
              "and the movable/fixed split", construct="C kernel inputs",
              node=ck)
    rep.floor("C02-R2", 14)


def r3_dispatch(program, rep):
    sig = {}
    for name, spec in PLACERS.items():
        fn = program.get(spec)
        fl = Flow(fn)
        loops = [n for n in ast.walk(fn) if isinstance(n, ast.For) and
                 unparse(n.iter) == "constraints"]
        ok = len(loops) == 1
        kinds = []
        if ok:
            for n in ast.walk(loops[0]):
                if isinstance(n, ast.Call) and call_name(n)[0] == \
                        "isinstance" and chain(n.args[0]) == \
                        chain(loops[0].target):
                    kinds.append(unparse(n.args[1]))
            ar = [c for c in calls_in(loops[0],
                                      "apply_reserve_resource_constraint")]
            ok = sorted(kinds) == ["LocationConstraint",
                                   "ReserveResourceConstraint"] and \
                len(ar) == 1 and [unparse(a) for a in ar[0].args] == [
                    "machine", chain(loops[0].target)]
            if ok:
                f = fl.facts(fl.cfg.node_containing(ar[0]))
                ok = any("ReserveResourceConstraint" in unparse(c) and p
                         for c, p, _ in f)
            # the loop runs over the constraints returned by the merge
            ds = fl.reaching("constraints", fl.cfg.loop_head[id(loops[0])])
            ok = ok and len(ds) == 1 and ds[0].mode == "unpack"
            errs = sorted(set(raise_name(r) for r in raises_of(fn)
                              if _inside(r, loops[0])))
            sig[name] = errs
            ok = ok and errs == ["InsufficientResourceError",
                                 "InvalidConstraintError"]
        rep.check(ok, "C02-R3", qual(fn), "%s handles location constraints "
                  "(invalid chip / no capacity errors) and reservation "
                  "constraints (applied to its working machine) for every "
                  "constraint of the merged list" % name,
                  construct="constraint dispatch %s" % sorted(kinds),
                  node=fn)
    seq = program.get(PLACERS["sequential"])
    for name, spec in WRAPPERS.items():
        fn = program.get(spec)
        cs = calls_in(fn, "sequential_place")
        ok = len(cs) == 1
        if ok:
            b = bind(cs[0], seq, skip_self=False)
            ps = formals(fn)
            ok = [chain(b.get(k)) for k in ("vertices_resources", "nets",
                                            "machine", "constraints")] == \
                ps[:4] and ps[:4] == ["vertices_resources", "nets",
                                      "machine", "constraints"]
            rets = returns_of(fn)
            ok = ok and len(rets) == 1 and rets[0].value is cs[0]
        rep.check(ok, "C02-R3", qual(fn), "%s forwards its own graph, "
                  "machine and constraints to the sequential placer and "
                  "returns its result" % name,
                  construct="%s wrapper" % name, node=fn)
    rep.floor("C02-R3", 6)


def _inside(node, anc):
    n = node
    while n is not None:
        if n is anc:
            return True
        n = getattr(n, "_parent", None)
    return False


def r4_pairing(program, rep):
    for name, spec in PLACERS.items():
        fn = program.get(spec)
        inst = qual(fn)
        fl = Flow(fn)
        cfg = fl.cfg
        ap = calls_in(fn, "apply_same_chip_constraints")
        ok = len(ap) == 1 and [chain(a) for a in ap[0].args] == [
            "vertices_resources", "nets", "constraints"]
        subs = None
        if ok:
            asg = ap[0]._parent
            ok = isinstance(asg, ast.Assign) and \
                isinstance(asg.targets[0], ast.Tuple) and \
                [chain(t) for t in asg.targets[0].elts][:3] == [
                    "vertices_resources", "nets", "constraints"]
            if ok:
                subs = chain(asg.targets[0].elts[3])
                an = cfg.node_of(asg)
                # nothing reads the un-merged structures afterwards: the
                # rebinding dominates every later use (same names)
                # and the original parameters are not read before it
                ok = all(not _reads(fn, nm, before=asg)
                         for nm in ("nets", "constraints"))
        rep.check(ok, "C02-R4", inst, "%s merges same-chip groups first and "
                  "continues with the merged graph and constraints" % name,
                  construct="apply same-chip", node=fn)
        for r in returns_of(fn):
            v = chain(r.value)
            if v is None:
                continue
            rn = cfg.node_of(r)
            fins = [c for c in calls_in(fn, "finalise_same_chip_constraints")
                    if [chain(a) for a in c.args] == [subs, v]]
            nodes = [cfg.node_containing(c) for c in fins]
            okf = bool(nodes) and cfg.must_pass(
                cfg.entry, lambda n: n in nodes, targets=[rn])
            # nothing redefines the returned map between expansion and
            # return
            rep.check(okf, "C02-R4", inst, "the placement returned (%s) was "
                      "expanded with the substitutions of this call on "
                      "every path to that return" % v,
                      construct="finalise before return %s" % v, node=r,
                      fail="%s can return %s without expanding the merged "
                           "same-chip vertices: merged pseudo-vertices leak "
                           "into the result and constrained vertices are "
                           "missing" % (name, v))
    # element-presence discipline in sequential's vertex-order rewrite
    fn = program.get(PLACERS["sequential"])
    fl = Flow(fn)
    rms = [c for c in calls_in(fn, "remove")
           if chain(call_name(c)[1]) == "vertex_order"]
    ok = len(rms) == 1
    if ok:
        node = fl.cfg.node_containing(rms[0])
        el = chain(rms[0].args[0])
        guard = None
        for c, p, _ in fl.facts(node):
            if p and isinstance(c, ast.Compare) and \
                    isinstance(c.ops[0], ast.NotIn) and chain(c.left) == el:
                guard = chain(c.comparators[0])
        replaced = None
        for s in ast.walk(fn):
            if isinstance(s, ast.Assign) and isinstance(s.targets[0],
                                                        ast.Subscript) and \
                    chain(s.targets[0].value) == "vertex_order" and \
                    isinstance(s.targets[0].slice, ast.Call) and \
                    call_name(s.targets[0].slice)[0] == "index":
                replaced = unparse(s.targets[0].slice.args[0])
        ok = guard is not None and replaced is not None
        if ok:
            ds = [d for d in fl.defs if d.var == guard and
                  d.mode == "assign"]
            ok = len(ds) == 1 and replaced in unparse(ds[0].value) and \
                unparse(ds[0].value).startswith("set(")
            adds = [c for c in calls_in(fn, "add")
                    if chain(call_name(c)[1]) == guard]
            ok = ok and len(adds) == 1 and chain(adds[0].args[0]) == el and \
                fl.cfg.dominates(node, fl.cfg.node_containing(adds[0]))
    rep.check(ok, "C02-R4", qual(fn), "when the vertex order is rewritten "
              "for a merged vertex, the member it replaced counts as "
              "already removed, and each member is removed at most once "
              "(list.remove can never miss)",
              construct="vertex order rewrite", node=fn,
              fail="the guard set protecting vertex_order.remove() does not "
                   "start with the member that was replaced by the merged "
                   "vertex: a group listing that member again raises "
                   "ValueError - not a documented placement error")
    rep.floor("C02-R4", 7)


def _reads(fn, name, before):
    """Is parameter ``name`` read in a statement preceding ``before``?"""
    for st in fn.body:
        if st is before:
            return False
        for n in ast.walk(st):
            if isinstance(n, ast.Name) and n.id == name and \
                    isinstance(n.ctx, ast.Load):
                return True
    return False


def _Pm(n):
    return ("param", n)


def r5_reservations(program, rep):
    """Decided on value terms: what is stored where, under which case of the
    constraint's location, and which test guards each raise."""
    fn = program.get(PL + ".utils:resources_after_reservation")
    T = Terms(fn)
    res, con = formals(fn)[:2]
    COPY = ("call", ("attr", _Pm(res), "copy"), (), ())
    rets = [T.term(r.value) for r in returns_of(fn) if r.value is not None]
    ok = len(rets) == 1 and plain(rets[0]) == COPY
    amount_ok = False
    KEY = ("attr", _Pm(con), "resource")
    AMT = ("binop", "Sub", ("attr", ("attr", _Pm(con), "reservation"),
                            "stop"),
           ("attr", ("attr", _Pm(con), "reservation"), "start"))
    n_mut = 0
    for n in T.cfg.nodes:
        st = n.ast
        if n.kind != "stmt":
            continue
        tgt = val = None
        if isinstance(st, ast.AugAssign) and \
                isinstance(st.target, ast.Subscript) and \
                isinstance(st.op, ast.Sub):
            tgt = T.term(st.target, n)
            val = T.term(st.value, n)
        elif isinstance(st, ast.Assign) and len(st.targets) == 1 and \
                isinstance(st.targets[0], ast.Subscript):
            tgt = T.term(st.targets[0], n)
            v = T.term(st.value, n)
            if v[0] == "binop" and v[1] == "Sub" and v[2] == tgt:
                val = v[3]
        if tgt is None:
            continue
        n_mut += 1
        amount_ok = rets and tgt == ("item", rets[0], KEY) and val == AMT
    rep.check(ok and amount_ok and n_mut == 1, "C02-R5", qual(fn),
              "a reservation removes stop - start units of its resource "
              "from a copy", construct="reservation arithmetic", node=fn)
    ap = program.get(PL + ".utils:apply_reserve_resource_constraint")
    A = Terms(ap)
    mach, con = formals(ap)[:2]
    LOC = ("attr", _Pm(con), "location")
    M = _Pm(mach)
    EXC = ("attr", M, "chip_resource_exceptions")

    def stores(view):
        out = []
        for n in view.cfg.nodes:
            st = n.ast
            if n.kind == "stmt" and isinstance(st, ast.Assign) and \
                    len(st.targets) == 1 and view.live(n) and \
                    isinstance(st.targets[0], (ast.Subscript,
                                               ast.Attribute)):
                out.append((n, plain(view.term(st.targets[0], n)),
                            plain(view.term(st.value, n))))
        return out

    def rar(x):
        return ("call", ("global", "resources_after_reservation"),
                (x, _Pm(con)), ())

    def guarded(view, n, what):
        """Every way on from the store passes a test overallocated(x) with x
        the stored value or the place it was stored in."""
        gates = []
        for a in view.cfg.nodes:
            if a.kind == "assume" and a.polarity:
                t, p_ = view.cond(a.ast, a, True)
                t = plain(t)
                if t[0] == "call" and t[1] == ("global", "overallocated") \
                        and len(t[2]) == 1 and t[2][0] in what:
                    gates.append(a)
        if not gates:
            return False
        tests = [g.pred[0] if g.pred else g for g in gates]
        gate_ids = set()
        for a in view.cfg.nodes:
            if a.kind == "assume":
                t, _ = view.cond(a.ast, a, True)
                t = plain(t)
                if t[0] == "call" and t[1] == ("global", "overallocated") \
                        and len(t[2]) == 1 and t[2][0] in what:
                    gate_ids.add(a.id)
        heads = [h for h in view.cfg.loop_head.values()]
        return view.must_pass(n, lambda x: x.id in gate_ids,
                              targets=[view.cfg.exit] + heads)

    loc = A.under((is_none(LOC), False))
    glo = A.under((is_none(LOC), True))
    sl = stores(loc)
    CELL = ("item", M, LOC)
    okl = len(sl) == 1 and sl[0][1] == CELL and sl[0][2] == rar(CELL) and \
        guarded(loc, sl[0][0], (CELL, rar(CELL)))
    sg = stores(glo)
    DEF = ("attr", M, "chip_resources")
    L = ("elem", EXC)
    ECELL = ("item", EXC, L)
    okg = len(sg) == 2 and sorted(x[1:] for x in sg) == sorted(
        [(DEF, rar(DEF)), (ECELL, rar(ECELL))])
    if okg:
        for n, tgt, val in sg:
            okg = okg and guarded(glo, n, (tgt, val, ("item", M, L))
                                  if tgt == ECELL else (tgt, val))
    rs = raises_of(ap)
    okr = bool(rs) and all(raise_name(r) == "InsufficientResourceError"
                           for r in rs) and all(
        any(p and t[0] == "call" and t[1] == ("global", "overallocated")
            for t, p in A.all_facts(A.cfg.node_of(r))) for r in rs)
    rep.check(okg, "C02-R5", qual(ap), "a global reservation is "
              "applied to the default resources and to every exception, "
              "each result being tested for over-allocation",
              construct="global reservation", node=ap)
    rep.check(okl and okr, "C02-R5", qual(ap), "a local reservation is "
              "applied to that chip only; a negative result raises "
              "InsufficientResourceError", construct="local reservation",
              node=ap)
    ov = program.get(PL + ".utils:overallocated")
    O = Terms(ov)
    r_ = formals(ov)[0]
    VALS = ("values", _Pm(r_))
    want = ("call", ("global", "any"),
            (("genexp", mk_cmp("Lt", ("elem", VALS), ("const", 0)),
              ((VALS, ()),)),), ())
    got = [O.term(r.value) for r in returns_of(ov) if r.value is not None]
    if len(got) != 1:
        got = [O.search_loop()]
    rep.check(got == [want], "C02-R5", qual(ov), "overallocated = some "
              "quantity negative", construct="overallocated", node=ov)
    for nm, op in (("add_resources", "Add"), ("subtract_resources", "Sub")):
        f = program.get(PL + ".utils:" + nm)
        F = Terms(f)
        a, b = formals(f)
        E = ("elem", ("items", _Pm(a)))
        want = ("dictcomp", ("pair", ("comp", E, 0),
                             ("binop", op, ("comp", E, 1),
                              ("get", _Pm(b), ("comp", E, 0),
                               ("const", 0)))),
                ((("items", _Pm(a)), ()),))
        got = [plain(F.term(r.value)) for r in returns_of(f)
               if r.value is not None]
        rep.check(got == [want], "C02-R5", qual(f), "%s keeps the first "
                  "operand's keys and treats missing second-operand entries "
                  "as 0" % nm, construct=nm, node=f)
    rep.floor("C02-R5", 6)


def r6_raises(program, rep):
    mods = [m for m in program.modules if m.startswith(PL)]
    for m in sorted(mods):
        names = set()
        for q, fn in program.functions(m):
            for r in raises_of(fn):
                nm = raise_name(r)
                if nm is not None:
                    names.add(nm)
        extra = names - DOCUMENTED - {"StopIteration"}
        if m.endswith(".sa.kernel"):
            # abstract kernel interface: every method only raises
            # NotImplementedError; concrete kernels override them
            extra -= {"NotImplementedError"}
        rep.check(not extra, "C02-R6", m, "explicit raises are the "
                  "documented placement errors (%s)" % sorted(names),
                  construct="raises %s" % sorted(extra),
                  fail="%s raises %s, which is not one of the two documented "
                       "placement errors" % (m, sorted(extra)))
    rep.floor("C02-R6", 8)


def r7_link(program, rep):
    mods = sorted(m for m in program.modules if m.startswith(PL)) + [
        "rig.place_and_route.machine", "rig.place_and_route.constraints",
        "rig.place_and_route.exceptions", "rig.netlist", "rig.geometry",
        "rig.links"]
    for name in mods:
        m = program.module(name)
        bad = list(check_module(m))
        for node, msg in bad:
            rep.bad("C02-R7", name, msg, "%s: %s" % (name, msg), node)
        for q, fn in program.functions(name):
            hits = sample_of_set(fn, Flow(fn))
            for c in hits:
                rep.bad("C02-R7", "%s:%s" % (name, q), "sample of a set",
                        "%s calls %s with a set population: TypeError on "
                        "Python >= 3.11 for every input with a movable "
                        "vertex - the placer 'fails with another "
                        "exception'" % (q, unparse(c)), c)
        if not bad:
            rep.ok("C02-R7", name, "all standard-library names referenced "
                   "exist on this interpreter; no Random.sample of a set")
    rep.floor("C02-R7", 12)


def check(program, rep):
    rep.guard("C02-R1", r1_commits, program, rep)
    rep.guard("C02-R2", r2_kernel, program, rep)
    rep.guard("C02-R3", r3_dispatch, program, rep)
    rep.guard("C02-R4", r4_pairing, program, rep)
    rep.guard("C02-R5", r5_reservations, program, rep)
    rep.guard("C02-R6", r6_raises, program, rep)
    rep.guard("C02-R7", r7_link, program, rep)
    return finish(rep, program, EXPLANATION, NOT_DECIDED,
                  trusted=["resource-role table in rules/C02.py"])
