"""C02 - every placer returns a feasible, constraint-respecting placement or
fails with a documented error.

R1 capacity test dominates every commit, and the commit updates the working
   machine
R2 annealer swap discipline (python kernel); resource-index agreement (C
   kernel); chip resources are always the first operand of add/subtract
R3 constraint dispatch is the same in every placer; thin wrappers forward
   their own arguments
R4 same-chip merge / expand pairing; element-presence discipline when the
   vertex order is rewritten
R5 reservation arithmetic
R6 only the documented failures are raised explicitly
R7 the standard-library API on the placers' paths exists / is used validly
"""
import ast

from ..core import AnalysisError, finish, unparse
from ..dataflow import Flow, chain, call_name
from ..link import check_module, sample_of_set, shared_mutable_values
from ..absint import Interp
from ..poly import eq
from ..util import calls_in, qual, formals, returns_of, raises_of, \
    raise_name, has_fact, bind
from ..terms import Terms, plain, unsite, is_none, mk_cmp, match, V, ANY, \
    alternatives, subterms, lookup, presence, show, owner_terms, \
    owner_views, method_calls, stores

PL = "rig.place_and_route.place"
PLACERS = {
    "sequential": PL + ".sequential:place",
    "rand": PL + ".rand:place",
    "sa": PL + ".sa.algorithm:place",
}
WRAPPERS = {
    "breadth_first": PL + ".breadth_first:place",
    "hilbert": PL + ".hilbert:place",
    "rcm": PL + ".rcm:place",
}
DOCUMENTED = {"InsufficientResourceError", "InvalidConstraintError"}

EXPLANATION = (
    "Dominance and must-pass-through facts over the CFGs of sequential."
    "place, rand.place, sa.algorithm.place/_initial_placement and the python "
    "annealing kernel: every store into the placement map is dominated by a "
    "failed overallocated(subtract_resources(machine[loc], "
    "vertices_resources[v])) test for the same loc and v (def-use identity) "
    "and followed by machine[loc] = that result; location constraints are "
    "checked against the machine first and against capacity afterwards; "
    "swaps are dominated by the three admission tests and reverted by the "
    "mirrored call; chip-resource dictionaries are always the first operand "
    "of add/subtract_resources (whose result keeps the first operand's "
    "keys); the C kernel's two resource-index loops enumerate one "
    "expression; the constraint loops dispatch identically; "
    "apply/finalise_same_chip_constraints are paired on every non-empty "
    "return; explicit raises are the two documented errors; LINK.")
EXPLANATION += (
    " R6 also covers implicit raises: a random draw from a population the "
    "function shrinks needs a non-emptiness fact that is still valid at "
    "the draw (a fact about a container is dropped when the container is "
    "mutated on a path from the test). R7 also reports dict.fromkeys(keys, "
    "<mutable>) / [<mutable>] * n containers whose entries are mutated in "
    "place.")
NOT_DECIDED = [
    "'succeeds whenever a placement exists' (completeness of the searches)",
    "termination of the annealing schedule",
    "the C kernel's internal moves (C code outside the repository); only "
    "the data handed to it is checked",
    "implicit exceptions (KeyError, IndexError ...) other than the "
    "list.remove discipline of R4",
]


def _res_role(fl, expr, node, depth=0):
    """'chip' | 'vertex' | None for a resource-dictionary expression."""
    if isinstance(expr, ast.Subscript):
        base = unparse(expr.value)
        if base in ("machine", "self.machine"):
            return "chip"
        if base in ("vertices_resources", "self.vertices_resources"):
            return "vertex"
        return None
    if isinstance(expr, ast.Attribute):
        if unparse(expr) in ("machine.chip_resources",
                             "self.machine.chip_resources"):
            return "chip"
        return None
    if isinstance(expr, ast.Call):
        nm = call_name(expr)[0]
        if nm in ("add_resources", "subtract_resources",
                  "resources_after_reservation") and expr.args:
            return _res_role(fl, expr.args[0], node, depth + 1)
        return None
    c = chain(expr)
    if c is None or depth > 10:
        return None
    roles = set()
    for d in fl.reaching(c, node):
        if d.mode == "assign" and d.value is not None:
            roles.add(_res_role(fl, d.value, d.node, depth + 1))
        elif d.mode == "param":
            roles.add({"resources": "vertex", "src_resources": "vertex",
                       "chip_resources": "chip"}.get(d.var))
        else:
            roles.add(None)
    return roles.pop() if len(roles) == 1 else None


def _resolve1(fl, expr, node):
    c = chain(expr)
    if c is None:
        return expr
    ds = fl.reaching(c, node)
    if len(ds) == 1 and ds[0].mode == "assign" and ds[0].value is not None:
        return ds[0].value
    return expr


def _is_call(t, name):
    return t[0] == "call" and t[1] == ("global", name)


def r1_commits(program, rep):
    """Every store into the placement map is justified semantically: the
    value tested for over-allocation is *equal* (an invariant of the
    interpreter's equality domain, whatever the staging through temporaries
    and loops) to subtract_resources(machine[loc], vertices_resources[v]) for
    the loc and v being committed, and the same value becomes machine[loc]."""
    specs = [("sequential", PLACERS["sequential"]),
             ("rand", PLACERS["rand"]),
             ("sa", PL + ".sa.algorithm:_initial_placement")]
    for name, spec in specs:
        fn = program.get(spec)
        inst = qual(fn)
        T = Terms(fn)
        fl = T.flow
        cfg = T.cfg
        it = Interp(fn, pure_calls=("subtract_resources", "overallocated",
                                    "add_resources"))
        params = formals(fn)
        mach = "machine"
        vres = "vertices_resources"
        if mach not in params or vres not in params:
            raise AnalysisError("%s: machine / vertices_resources formals" %
                                name)
        rets = [T.term(r.value) for r in returns_of(fn)
                if r.value is not None]
        stores = []
        for n in cfg.nodes:
            st = n.ast
            if n.kind == "stmt" and isinstance(st, ast.Assign) and \
                    len(st.targets) == 1 and \
                    isinstance(st.targets[0], ast.Subscript):
                base = T.term(st.targets[0].value, n)
                if base in rets and base[0] == "new":
                    stores.append((n, st))
        mstores = [(n, n.ast) for n in cfg.nodes
                   if n.kind == "stmt" and isinstance(n.ast, ast.Assign) and
                   len(n.ast.targets) == 1 and
                   isinstance(n.ast.targets[0], ast.Subscript) and
                   plain(T.term(n.ast.targets[0].value, n)) in (
                       ("param", mach),
                       ("call", ("attr", ("param", mach), "copy"), (), ()))]
        n_mov = 0
        for node, st in stores:
            vexp, lexp = st.targets[0].slice, st.value
            V, LOC = T.term(vexp, node), T.term(lexp, node)
            facts = T.all_facts(node)
            constrained = any(p and _is_call(t, "isinstance") and
                              "LocationConstraint" in show(t)
                              for t, p in facts)
            if constrained:
                MACH = T.term(ast.parse(mach, mode="eval").body, node)
                ok_in = (mk_cmp("In", LOC, MACH), True) in facts
                CELL = ("item", MACH, LOC)
                VRES = T.term(ast.parse(vres, mode="eval").body, node)
                want = ("call", ("global", "subtract_resources"),
                        (CELL, ("item", VRES, V)), ())
                ok_upd = ok_chk = False
                for mn, ms in mstores:
                    if not cfg.reaches(node, mn):
                        continue
                    if T.term(ms.targets[0], mn) == CELL and \
                            plain(T.term(ms.value, mn)) == plain(want):
                        ok_upd = True
                        for r in raises_of(fn):
                            rn = cfg.node_of(r)
                            if raise_name(r) == "InsufficientResourceError" \
                                    and cfg.dominates(mn, rn) and any(
                                        p and _is_call(t, "overallocated")
                                        and plain(t[2][0]) in (plain(CELL),
                                                               plain(want))
                                        for t, p in T.all_facts(rn)):
                                ok_chk = True
                rep.check(ok_in and ok_upd and ok_chk, "C02-R1", inst,
                          "a location-constrained vertex is placed only on "
                          "a chip that is in the machine, its resources are "
                          "subtracted from that chip and over-allocation "
                          "raises InsufficientResourceError",
                          construct="constrained commit", node=st)
                continue
            n_mov += 1
            inode = it.cfg.node_of(st)
            want = it.sym("subtract_resources(%s[%s], %s[%s])" % (
                mach, unparse(lexp), vres, unparse(vexp)), inode)
            ok = False
            # (a) on value terms: temporaries, hoisted look-ups resolved
            want_t = plain(T.term(ast.parse(
                "subtract_resources(%s[%s], %s[%s])" % (
                    mach, unparse(lexp), vres, unparse(vexp)),
                mode="eval").body, node))
            vague = False
            for t, p in T.all_facts(node):
                if not p and _is_call(plain(t), "overallocated") and \
                        len(t[2]) == 1:
                    if plain(t[2][0]) == want_t:
                        ok = True
                    elif any(x[0] in ("mu", "phi", "rec", "opaque")
                             for x in subterms(t[2][0])):
                        vague = True
            # (b) in the interpreter's equality domain
            for c, p, a in ([] if ok else fl.facts(node)):
                if p or not (isinstance(c, ast.Call) and
                             call_name(c)[0] == "overallocated" and
                             len(c.args) == 1):
                    continue
                x = it.sym(c.args[0], inode)
                if it.holds_at(inode, eq(x, want)):
                    ok = True
            if not ok and vague:
                # a capacity test is there, on a value carried round a loop
                # that neither the terms nor the equality domain relate to
                # the chip and vertex committed
                raise AnalysisError("%s: the value tested for over-"
                                    "allocation before [%s] = %s is carried "
                                    "through a loop in a form these rules "
                                    "cannot relate to that chip and vertex"
                                    % (name, unparse(vexp), unparse(lexp)))
            rep.check(ok, "C02-R1", inst, "placing a movable vertex is "
                      "dominated by 'not overallocated(x)' with x = "
                      "machine[loc] - vertices_resources[v] for the very loc "
                      "and v committed", construct="capacity test before "
                      "commit", node=st,
                      fail="the placement [%s] = %s is not guarded by a "
                           "capacity test of that very chip and vertex: a "
                           "chip can be over-filled" % (unparse(vexp),
                                                        unparse(lexp)))
            # ... and machine[loc] becomes that same value
            okm = False
            heads = [h for h in cfg.loop_head.values()]
            for mn, ms in mstores:
                if not (mn is node or cfg.dominates(mn, node) or
                        cfg.must_pass(node, lambda n, mn=mn: n is mn,
                                      targets=heads + [cfg.exit])):
                    continue
                if T.term(ms.targets[0].slice, mn) == LOC and \
                        plain(T.term(ms.value, mn)) == want_t:
                    okm = True
                    continue
                imn = it.cfg.node_of(ms)
                same_loc = it.holds_at(imn, eq(
                    it.sym(ms.targets[0].slice, imn), it.sym(lexp, imn)))
                w2 = it.sym("subtract_resources(%s[%s], %s[%s])" % (
                    mach, unparse(lexp), vres, unparse(vexp)), imn)
                same_val = it.holds_at(imn, eq(it.sym(ms.value, imn), w2))
                if same_loc and same_val:
                    okm = True
            rep.check(okm, "C02-R1", inst, "and the chip's remaining "
                      "resources are updated with that same subtraction",
                      construct="machine update after commit", node=st,
                      fail="after placing a vertex the working machine is "
                           "not updated with the resources it consumes")
        rep.check(n_mov >= 1, "C02-R1", inst, "%s has a guarded commit of "
                  "movable vertices" % name, construct="movable commits %d"
                  % n_mov, node=fn)
    # sequential: the search over the chip cycle gives up when it comes
    # back to the chip of the last success; that sentinel must itself be a
    # chip of the cycle on every path, or the search never ends
    fn = program.get(PLACERS["sequential"])
    T = Terms(fn)
    okg = False
    detail = "give-up test not found"
    for r in raises_of(fn):
        if raise_name(r) != "InsufficientResourceError":
            continue
        rn = T.cfg.node_of(r)
        for a in T.cfg.nodes:
            if a.kind != "assume" or not a.polarity or \
                    not T.cfg.dominates(a, rn):
                continue
            t, p_ = T.cond(a.ast, a, True)
            if t[0] == "cmp" and t[1] == "Eq" and p_:
                sides = [alternatives(t[2]), alternatives(t[3])]
                drawn = [all(any(st[0] == "callv" and
                                 st[1] == ("global", "next")
                                 for st in subterms(x)) or x == ("rec",)
                             for x in side) for side in sides]
                if any(drawn):
                    okg = all(drawn)
                    detail = "" if okg else "compared with %s" % ", ".join(
                        sorted(show(x)[:40] for side in sides for x in side
                               if not any(st[0] == "callv"
                                          for st in subterms(x))))
    rep.check(okg, "C02-R1", qual(fn), "the give-up test of the chip search "
              "compares the current chip with a chip drawn from the same "
              "cycle on every path (so a full fruitless lap is always "
              "noticed)", construct="give-up sentinel", node=fn,
              fail="the chip search gives up when the current chip equals a "
                   "sentinel that is not always a chip of the cycle (%s): "
                   "if no chip fits the first vertex the loop never ends" %
                   detail)
    rep.floor("C02-R1", 11)


def _owner_fn(n):
    p = getattr(n, "_parent", None)
    while p is not None and not isinstance(p, (ast.FunctionDef,
                                               ast.AsyncFunctionDef)):
        p = getattr(p, "_parent", None)
    return p


def _resource_sum(t, ops, roots, VRES, seen=None):
    """Decompose a chip-resource total: the (operation, whose vertices)
    applications it went through and the values it started from."""
    seen = seen if seen is not None else set()
    if t[0] == "mu":
        if t[1] in seen:
            return
        seen.add(t[1])
    for x in alternatives(t):
        if x == ("rec",):
            continue
        px = plain(x)
        if px[0] == "call" and px[1][0] == "global" and px[1][1] in (
                "add_resources", "subtract_resources") and len(px[2]) == 2:
            second = px[2][1]
            if second[0] == "item" and second[1] == VRES:
                ops.add((px[1][1], second[2]))
            else:
                ops.add((px[1][1], second))
            _resource_sum(x[2][0], ops, roots, VRES, seen)
        elif x[0] in ("mu", "phi", "ite"):
            _resource_sum(x, ops, roots, VRES, seen)
        else:
            roots.add(px)


def r2_kernel(program, rep):
    pk = PL + ".sa.python_kernel"
    step = program.get(pk + ":_step")
    inst = qual(step)
    T = Terms(step)
    cfg = T.cfg
    sw_def = program.get(pk + ":_swap")
    gc_def = program.get(pk + ":_get_candidate_swap")
    swaps = calls_in(step, "_swap")
    ok = len(swaps) == 2
    rep.check(ok, "C02-R2", inst, "one swap and one revert",
              construct="swap calls %d" % len(swaps), node=step)
    if ok:
        s1, s2 = swaps
        n1, n2 = cfg.node_containing(s1), cfg.node_containing(s2)
        if cfg.dominates(n2, n1):
            s1, s2, n1, n2 = s2, s1, n2, n1
        names = formals(sw_def)
        B1 = {k: T.term(v, n1) for k, v in bind(s1, sw_def).items()}
        B2 = {k: T.term(v, n2) for k, v in bind(s2, sw_def).items()}
        vas, val_, vbs, vbl = names[:4]
        mach = [p_ for p_ in formals(step) if p_ == "machine"]
        vres = [p_ for p_ in formals(step) if p_ == "vertices_resources"]
        if not mach or not vres:
            raise AnalysisError("_step: machine / vertices_resources")
        MACH, VRES = ("param", mach[0]), ("param", vres[0])
        SRCL, DSTL, DSTV = B1[val_], B1[vbl], B1[vbs]
        mv = plain(B1[vas])
        SRCV = mv[1] if mv[0] == "list" and len(mv) == 2 else None
        f = T.all_facts(n1)
        fit = None
        for t, p in f:
            if not p and t[0] == "call" and \
                    t[1] == ("global", "overallocated") and len(t[2]) == 1:
                fit = t[2][0]
        okg = (mk_cmp("In", DSTL, MACH), True) in f and \
            (is_none(DSTV), False) in f and fit is not None
        rep.check(okg, "C02-R2", inst, "a swap happens only if the "
                  "destination chip exists, a set of vertices to displace "
                  "was found, and the displaced vertices fit on the source "
                  "chip", construct="swap admission", node=s1)
        okf = False
        if fit is not None and SRCV is not None:
            ops, roots = set(), set()
            _resource_sum(fit, ops, roots, VRES)
            okf = roots == {("item", MACH, plain(SRCL))} and ops == {
                ("add_resources", plain(SRCV)),
                ("subtract_resources", ("elem", plain(DSTV)))}
        rep.check(okf, "C02-R2", inst, "the fit test evaluates the source "
                  "chip's resources + the moving vertex - every displaced "
                  "vertex", construct="source fit computation", node=step)
        okm = cfg.dominates(n1, n2) and plain(B1[vas]) == plain(B2[vas]) \
            and B1[vbs] == B2[vbs] and B1[val_] == B2[vbl] and \
            B1[vbl] == B2[val_] and all(B1.get(k) == B2.get(k)
                                        for k in names[4:])
        rep.check(okm, "C02-R2", inst, "the revert is the same swap with "
                  "the two locations exchanged", construct="revert mirrors",
                  node=s2)
        okc = False
        if DSTV[0] == "callv" and DSTV[1] == ("global",
                                              "_get_candidate_swap"):
            gb = dict(zip(formals(gc_def), DSTV[2]))
            gb.update(dict(DSTV[3]))
            okc = SRCV is not None and \
                plain(gb.get(formals(gc_def)[0])) == (
                    "item", VRES, plain(SRCV)) and \
                gb.get(formals(gc_def)[1]) == DSTL
        rep.check(okc, "C02-R2", inst, "displaced vertices are chosen for "
                  "the moving vertex's own requirements at the destination",
                  construct="candidate arguments", node=step)
    sw = program.get(pk + ":_swap")
    S = Terms(sw)
    sp = formals(sw)   # vas, vas_location, vbs, vbs_location, l2v, vres, ...
    vas, val_, vbs, vbl, l2v, vres_, plc, mch = sp[:8]
    P_ = lambda n: ("param", n)      # noqa: E731
    places, removes, appends = set(), set(), set()
    for n_ in ast.walk(sw):
        if isinstance(n_, ast.Assign) and len(n_.targets) == 1 and \
                isinstance(n_.targets[0], ast.Subscript):
            for view in owner_views(S, n_):
                node = view.cfg.node_of(n_) if hasattr(view.cfg, "node_of") \
                    else None
                tgt = view.term(n_.targets[0], node)
                if tgt[0] == "item" and tgt[1] == P_(plc):
                    places.add((tgt[2], view.term(n_.value, node)))
        if isinstance(n_, ast.Call) and isinstance(n_.func, ast.Attribute) \
                and n_.func.attr in ("remove", "append") and \
                len(n_.args) == 1:
            for view in owner_views(S, n_):
                node = view.cfg.node_containing(n_)
                rec = (view.term(n_.args[0], node),
                       view.term(n_.func.value, node))
                (removes if n_.func.attr == "remove" else appends).add(rec)
    EA, EB = ("elem", P_(vas)), ("elem", P_(vbs))
    LA, LB = ("item", P_(l2v), P_(val_)), ("item", P_(l2v), P_(vbl))
    ok_p = places == {(EA, P_(vbl)), (EB, P_(val_))}
    ok_l = removes == {(EA, LA), (EB, LB)} and \
        appends == {(EA, LB), (EB, LA)}
    # the resource totals written back
    ok_r = True
    seen = set()
    for n_ in ast.walk(sw):
        if isinstance(n_, ast.Assign) and len(n_.targets) == 1 and \
                isinstance(n_.targets[0], ast.Subscript) and \
                _owner_fn(n_) is sw:
            node = S.cfg.node_of(n_)
            tgt = S.term(n_.targets[0], node)
            if tgt[0] != "item" or tgt[1] != P_(mch):
                continue
            val = S.term(n_.value, node)
            ops, roots = set(), set()
            _resource_sum(val, ops, roots, P_(vres_))
            here = tgt[2]
            there = P_(vbl) if here == P_(val_) else P_(val_)
            coming = EB if here == P_(val_) else EA
            going = EA if here == P_(val_) else EB
            seen.add(here)
            ok_r = ok_r and roots == {("item", P_(mch), here)} and \
                ops == {("add_resources", going),
                        ("subtract_resources", coming)}
    ok_r = ok_r and seen == {P_(val_), P_(vbl)}
    rep.check(ok_p and ok_l and ok_r, "C02-R2", qual(sw), "a swap moves "
              "every vertex in the placement map, in both chip lists and in "
              "both chips' resource totals, symmetrically",
              construct="swap updates%s%s%s" % (
                  "" if ok_p else " (placements)",
                  "" if ok_l else " (chip lists)",
                  "" if ok_r else " (resource totals)"), node=sw)
    gc = program.get(pk + ":_get_candidate_swap")
    G = Terms(gc)
    ap = [c for c in calls_in(gc, "append") if len(c.args) == 1]
    rets = [G.term(r.value) for r in returns_of(gc)
            if r.value is not None and not (
                isinstance(r.value, ast.Constant) and r.value.value is None)]
    okx = False
    fixed = [p_ for p_ in formals(gc) if "fixed" in p_]
    for c in ap:
        n_ = G.cfg.node_containing(c)
        if G.term(c.func.value, n_) not in rets:
            continue
        x = G.term(c.args[0], n_)
        okx = bool(fixed) and (mk_cmp("In", x, P_(fixed[0])), False) in \
            G.all_facts(n_)
    rep.check(okx, "C02-R2", qual(gc), "fixed (location-constrained) "
              "vertices are never selected for displacement",
              construct="fixed vertices stay", node=gc)
    # chip resources first in every add/subtract of the place package
    n = 0
    for mname in sorted(program.modules):
        if not mname.startswith(PL):
            continue
        for q, f_ in program.functions(mname):
            if q in ("add_resources", "subtract_resources"):
                continue
            ffl = None
            for c in calls_in(f_, ("add_resources", "subtract_resources")):
                if ffl is None:
                    ffl = Flow(f_)
                node = ffl.cfg.node_containing(c)
                r1 = _res_role(ffl, c.args[0], node)
                r2 = _res_role(ffl, c.args[1], node)
                n += 1
                okr = r1 != "vertex" and r2 != "chip"
                rep.check(okr, "C02-R2", "%s:%s" % (mname, q),
                          "%s(%s, %s): the chip's resources are the first "
                          "operand (the result keeps the first operand's "
                          "keys)" % (call_name(c)[0], unparse(c.args[0]),
                                     unparse(c.args[1])),
                          construct="%s operand order (%s, %s)" % (
                              call_name(c)[0], r1, r2), node=c,
                          fail="%s(%s, %s) has a vertex's (sparse) resource "
                               "dictionary as first operand: resources the "
                               "vertex does not list vanish from the "
                               "result, so an over-allocation of them goes "
                               "unnoticed" % (call_name(c)[0],
                                              unparse(c.args[0]),
                                              unparse(c.args[1])))
    rep.guard("C02-R2", _c_kernel, program, rep)
    rep.floor("C02-R2", 14)


def _sa_fixed_included(program, rep):
    """Every placement map the annealer returns (or hands to its kernel)
    contains the vertices pinned by location constraints: the map of fixed
    vertices is merged into the initial placement before any of them."""
    fn = program.get(PLACERS["sa"])
    T = Terms(fn)
    cfg = T.cfg
    ips = calls_in(fn, "_initial_placement")
    if len(ips) != 1:
        raise AnalysisError("sa.place: one initial placement expected")
    IP = T.term(ips[0])
    FIX = None
    from ..terms import stores as t_stores
    for n, st, base, key, val in t_stores(T):
        f = [plain(t) for t, p in T.all_facts(n) if p]
        if base[0] == "new" and any(
                t[0] == "call" and t[1] == ("global", "isinstance") and
                t[2][1] == ("global", "LocationConstraint") for t in f):
            FIX = base
    if FIX is None:
        raise AnalysisError("sa.place: the map of fixed vertices")
    merges = [x for x in method_calls(T, "update")
              if x[2] == IP and x[3] == [FIX]]
    uses = []
    for r in returns_of(fn):
        if r.value is not None and T.term(r.value) == IP:
            uses.append((cfg.node_of(r), "returned"))
    for c in ast.walk(fn):
        if isinstance(c, ast.Call) and c is not ips[0]:
            try:
                n = cfg.node_containing(c)
            except AnalysisError:
                continue
            if any(T.term(a, n) == IP for a in c.args) and not (
                    isinstance(c.func, ast.Attribute) and
                    c.func.attr == "update"):
                uses.append((n, "passed to %s" % unparse(c.func)))
    ok = len(merges) >= 1 and bool(uses)
    late = [what for n, what in uses
            if not any(cfg.dominates(m[0], n) for m in merges)]
    rep.check(ok and not late, "C02-R4", qual(fn), "the fixed vertices are "
              "merged into the initial placement before it is returned, "
              "finalised or given to the kernel", construct="fixed vertices "
              "included", node=fn,
              fail="the initial placement is %s before the fixed vertices "
                   "have been merged into it: vertices pinned by a location "
                   "constraint are missing from the result" % (
                       ", ".join(late) or "never merged with the fixed "
                       "vertices"))


def _c_kernel(program, rep):
    """What CKernel.__init__ hands to the C library, on value terms: the
    resource index used for a vertex's requirement and for a chip's free
    quantity is the position in one and the same list; the quantities are
    that vertex's / that chip's own; the movable flag is membership of the
    movable set."""
    from ..terms import stores as t_stores
    ck = program.get(PL + ".sa.c_kernel:CKernel.__init__")
    K = Terms(ck)
    ps = formals(ck)
    VR, MOV, MACH = (("param", n_) for n_ in (
        "vertices_resources", "movable_vertices", "machine"))

    def order_of(t):
        # list(x) / tuple(x) / sorted? no: only order-preserving copies
        t = plain(t)
        while t[0] == "call" and t[1] in (("global", "list"),
                                          ("global", "tuple")) and \
                len(t[2]) == 1 and not t[3]:
            t = t[2][0]
        return t
    reqs = [x for x in t_stores(K) if x[2][0] == "attr" and
            x[2][2] == "vertex_resources"]
    sets = []
    for c in calls_in(ck, "sa_set_chip_resources"):
        n = K.cfg.node_containing(c)
        sets.append([K.term(a, n) for a in c.args])
    if len(reqs) != 1 or len(sets) != 1 or len(sets[0]) != 5:
        raise AnalysisError("CKernel.__init__: the per-resource calls were "
                            "not found in the form analysed")
    _, _, _, ridx, rval = reqs[0]
    _, sx, sy, sidx, sval = sets[0]
    ok = ridx[0] == "index" and sidx[0] == "index"
    srcs = sorted(set(show(order_of(x[1])) for x in (ridx, sidx)
                      if x[0] == "index"))
    ORDER = ("attr", MACH, "chip_resources")
    okn = ok and order_of(ridx[1]) == ORDER and order_of(sidx[1]) == ORDER
    new = calls_in(ck, "sa_new")
    okn = okn and len(new) == 1 and any(
        order_of(x[2][0]) == ORDER for x in [
            plain(K.term(a, K.cfg.node_containing(new[0])))
            for a in new[0].args]
        if x[0] == "call" and x[1] == ("global", "len") and len(x[2]) == 1)
    rep.check(okn, "C02-R2", qual(ck), "vertex requirements and per-chip "
              "free resources are indexed by one enumeration of the "
              "machine's resource list", construct="C kernel resource order "
              "%s" % srcs, node=ck,
              fail="the C kernel's resource index is taken from different "
                   "enumerations (%s): on a chip whose exception "
                   "dictionary lists resources in another order the "
                   "quantities are swapped" % srcs)
    okc = ok
    if okc:
        RES_R, RES_S = ("elem", ridx[1]), ("elem", sidx[1])
        pr = plain(rval)
        okc = pr[0] == "get" and len(pr) == 4 and pr[2] == plain(RES_R) and \
            pr[3] == ("const", 0) and pr[1][0] in ("item", "comp") and (
                (pr[1][0] == "item" and pr[1][1] == VR) or
                (pr[1][0] == "comp" and pr[1][2] == 1))
        ps_ = plain(sval)
        EM = ("elem", MACH)
        own_chip = ps_[0] == "item" and (
            ps_[1] == ("item", MACH, ("tuple", plain(sx), plain(sy))) or
            (ps_[1] in (("item", MACH, EM),
                        ("comp", ("elem", ("items", MACH)), 1)) and
             plain(sx) == ("comp", EM, 0) and plain(sy) == ("comp", EM, 1)))
        okc = okc and own_chip and ps_[2] == plain(RES_S)
    flags = []
    for c in calls_in(ck, "sa_add_vertex_to_chip"):
        n = K.cfg.node_containing(c)
        flags.append((K.term(c.args[-1], n), K.term(c.args[1], n)))
    okf = len(flags) == 1
    if okf:
        f_, v_ = flags[0]
        okf = f_[0] == "cmp" and f_[1] == "In" and \
            plain(f_[3]) in (MOV, ("call", ("global", "set"), (MOV,), ()))
    rep.check(okc and okf, "C02-R2", qual(ck), "the C kernel is given each "
              "chip's own free resources, each vertex's requirement per "
              "resource, and the movable/fixed split",
              construct="C kernel inputs", node=ck)


def r3_dispatch(program, rep):
    sig = {}
    for name, spec in PLACERS.items():
        fn = program.get(spec)
        fl = Flow(fn)
        loops = [n for n in ast.walk(fn) if isinstance(n, ast.For) and
                 unparse(n.iter) == "constraints"]
        ok = len(loops) == 1
        kinds = []
        if ok:
            for n in ast.walk(loops[0]):
                if isinstance(n, ast.Call) and call_name(n)[0] == \
                        "isinstance" and chain(n.args[0]) == \
                        chain(loops[0].target):
                    kinds.append(unparse(n.args[1]))
            ar = [c for c in calls_in(loops[0],
                                      "apply_reserve_resource_constraint")]
            ok = sorted(kinds) == ["LocationConstraint",
                                   "ReserveResourceConstraint"] and \
                len(ar) == 1 and [unparse(a) for a in ar[0].args] == [
                    "machine", chain(loops[0].target)]
            if ok:
                f = fl.facts(fl.cfg.node_containing(ar[0]))
                ok = any("ReserveResourceConstraint" in unparse(c) and p
                         for c, p, _ in f)
            # the loop runs over the constraints returned by the merge
            ds = fl.reaching("constraints", fl.cfg.loop_head[id(loops[0])])
            ok = ok and len(ds) == 1 and ds[0].mode == "unpack"
            called = set(c.func.id for c in ast.walk(loops[0])
                         if isinstance(c, ast.Call) and
                         isinstance(c.func, ast.Name))
            helpers = [h for h in ast.walk(fn)
                       if isinstance(h, ast.FunctionDef) and h is not fn and
                       h.name in called]
            errs = sorted(set(
                [raise_name(r) for r in raises_of(fn)
                 if _inside(r, loops[0])] +
                [raise_name(r) for h in helpers for r in raises_of(h)]))
            sig[name] = errs
            ok = ok and errs == ["InsufficientResourceError",
                                 "InvalidConstraintError"]
        rep.check(ok, "C02-R3", qual(fn), "%s handles location constraints "
                  "(invalid chip / no capacity errors) and reservation "
                  "constraints (applied to its working machine) for every "
                  "constraint of the merged list" % name,
                  construct="constraint dispatch %s" % sorted(kinds),
                  node=fn)
    seq = program.get(PLACERS["sequential"])
    for name, spec in WRAPPERS.items():
        fn = program.get(spec)
        cs = calls_in(fn, "sequential_place")
        ok = len(cs) == 1
        if ok:
            b = bind(cs[0], seq, skip_self=False)
            ps = formals(fn)
            ok = [chain(b.get(k)) for k in ("vertices_resources", "nets",
                                            "machine", "constraints")] == \
                ps[:4] and ps[:4] == ["vertices_resources", "nets",
                                      "machine", "constraints"]
            rets = returns_of(fn)
            ok = ok and len(rets) == 1 and rets[0].value is cs[0]
        rep.check(ok, "C02-R3", qual(fn), "%s forwards its own graph, "
                  "machine and constraints to the sequential placer and "
                  "returns its result" % name,
                  construct="%s wrapper" % name, node=fn)
    rep.floor("C02-R3", 6)


def _inside(node, anc):
    n = node
    while n is not None:
        if n is anc:
            return True
        n = getattr(n, "_parent", None)
    return False


def _order_rewrite(fn):
    """sequential.place: the guard set of vertex_order.remove() starts with
    the member that the merged vertex replaced, and every member removed is
    added to it (value terms: literals, set([..]) and temporaries are all
    the same)."""
    T = Terms(fn)
    cfg = T.cfg
    mc = method_calls(T, ["remove", "add"])
    rms = [x for x in mc if x[1].func.attr == "remove" and any(
        st == ("param", "vertex_order") for st in subterms(x[2]))]
    if len(rms) != 1:
        raise AnalysisError("sequential.place: expected one vertex_order."
                            "remove(), found %d" % len(rms))
    rn, rc, VO, (E,) = rms[0][0], rms[0][1], rms[0][2], rms[0][3]
    # the guard: E not in G on the way to the removal
    G = None
    for t, p in T.all_facts(rn):
        if t[0] == "cmp" and t[1] == "In" and not p and plain(t[2]) == \
                plain(E):
            G = t[3]
    if G is None:
        # unguarded: wrong when the members removed are read straight off
        # the merged vertex's own list (it may repeat a member, and holds
        # the one replaced); a collection made from it first is not read
        e = plain(E)
        src = e[1] if e[0] == "elem" else None
        if src is not None and src[0] == "item" and src[2][0] == "slice":
            src = src[1]
        if src is not None and src[0] == "attr" and src[2] == "vertices":
            return False
        raise AnalysisError("sequential.place: the members removed from the "
                            "vertex order come from a collection built "
                            "beforehand; not analysed")
    # the member replaced: vertex_order[vertex_order.index(R)] = merged
    R = None
    for n, st, base, key, val in stores(T):
        k = plain(key)
        if plain(base) == plain(VO) and k[0] in ("call", "callv") and \
                k[1][0] == "attr" and k[1][2] == "index" and len(k[2]) == 1:
            R = k[2][0]
    if R is None:
        raise AnalysisError("sequential.place: the replacement of a member "
                            "by the merged vertex was not found")
    inner = plain(G)
    start = None
    if inner[0] == "set":
        start = list(inner[1:])
    elif inner[0] in ("call", "callv") and inner[1] in (
            ("global", "set"), ("global", "frozenset")) and \
            len(inner[2]) == 1 and inner[2][0][0] in ("list", "tuple",
                                                      "set"):
        start = list(inner[2][0][1:])
    elif inner[0] in ("call", "callv") and inner[1] in (
            ("global", "set"), ("global", "frozenset")) and not inner[2]:
        start = []
    if start is None:
        raise AnalysisError("sequential.place: the initial content of the "
                            "guard set is not a literal collection")
    adds = [x for x in mc if x[1].func.attr == "add" and x[2] == G and
            len(x[3]) == 1 and plain(x[3][0]) == plain(E)]
    return R in start and len(adds) == 1 and cfg.dominates(rn, adds[0][0])


def r4_pairing(program, rep):
    for name, spec in PLACERS.items():
        fn = program.get(spec)
        inst = qual(fn)
        fl = Flow(fn)
        cfg = fl.cfg
        ap = calls_in(fn, "apply_same_chip_constraints")
        ok = len(ap) == 1 and [chain(a) for a in ap[0].args] == [
            "vertices_resources", "nets", "constraints"]
        subs = None
        if ok:
            asg = ap[0]._parent
            ok = isinstance(asg, ast.Assign) and \
                isinstance(asg.targets[0], ast.Tuple) and \
                [chain(t) for t in asg.targets[0].elts][:3] == [
                    "vertices_resources", "nets", "constraints"]
            if ok:
                subs = chain(asg.targets[0].elts[3])
                an = cfg.node_of(asg)
                # nothing reads the un-merged structures afterwards: the
                # rebinding dominates every later use (same names)
                # and the original parameters are not read before it
                ok = all(not _reads(fn, nm, before=asg)
                         for nm in ("nets", "constraints"))
        rep.check(ok, "C02-R4", inst, "%s merges same-chip groups first and "
                  "continues with the merged graph and constraints" % name,
                  construct="apply same-chip", node=fn)
        for r in returns_of(fn):
            v = chain(r.value)
            if v is None:
                continue
            rn = cfg.node_of(r)
            fins = [c for c in calls_in(fn, "finalise_same_chip_constraints")
                    if [chain(a) for a in c.args] == [subs, v]]
            nodes = [cfg.node_containing(c) for c in fins]
            okf = bool(nodes) and cfg.must_pass(
                cfg.entry, lambda n: n in nodes, targets=[rn])
            # nothing redefines the returned map between expansion and
            # return
            rep.check(okf, "C02-R4", inst, "the placement returned (%s) was "
                      "expanded with the substitutions of this call on "
                      "every path to that return" % v,
                      construct="finalise before return %s" % v, node=r,
                      fail="%s can return %s without expanding the merged "
                           "same-chip vertices: merged pseudo-vertices leak "
                           "into the result and constrained vertices are "
                           "missing" % (name, v))
    # the annealer expands merged vertices for its progress callback on a
    # copy: the kernel's own placement map must keep the merged vertices
    # while the kernel is still stepping
    fn = program.get(PLACERS["sa"])
    T = Terms(fn)
    n_fin = 0
    for c in calls_in(fn, "finalise_same_chip_constraints"):
        if len(c.args) < 2:
            continue
        node = T.cfg.node_containing(c)
        arg = T.term(c.args[1], node)
        src = arg
        copied = False
        if arg[0] in ("callv", "call") and arg[1][0] == "attr" and \
                arg[1][2] == "copy":
            copied, src = True, arg[1][1]
        if arg[0] == "new" and arg[2][0] == "call" and \
                arg[2][1] == ("global", "dict") and len(arg[2][2]) == 1:
            copied, src = True, arg[2][2][0]
        if not (src[0] in ("callv", "call") and src[1][0] == "attr" and
                src[1][2] == "get_placements"):
            continue
        K = src[1][1]
        later = False
        for c2 in ast.walk(fn):
            if isinstance(c2, ast.Call) and \
                    isinstance(c2.func, ast.Attribute) and c2 is not c:
                n2 = T.cfg.node_containing(c2)
                if n2 is node or not T.cfg.reaches(node, n2):
                    continue
                if T.term(c2.func.value, n2) == K and \
                        c2.func.attr != "get_placements":
                    later = True
        n_fin += 1
        rep.check(copied or not later, "C02-R4", qual(fn), "merged "
                  "vertices are expanded on a copy of the kernel's "
                  "placements while the kernel is still used afterwards",
                  construct="finalise on %s" % ("a copy" if copied else
                                                "the kernel's own map"),
                  node=c,
                  fail="finalise_same_chip_constraints is applied to the "
                       "dictionary the annealing kernel itself works on "
                       "(k.get_placements() without a copy) and the kernel "
                       "runs on afterwards: the merged vertex has been "
                       "popped from its placement map and the next step "
                       "raises KeyError")
    rep.check(n_fin >= 2, "C02-R4", qual(fn), "the annealer expands the "
              "kernel's placements for the callback and for the result",
              construct="finalise sites %d" % n_fin, node=fn)
    rep.guard("C02-R4", _sa_fixed_included, program, rep)
    # element-presence discipline in sequential's vertex-order rewrite
    fn = program.get(PLACERS["sequential"])
    ok = rep.guard("C02-R4", _order_rewrite, fn)
    if ok is None:
        return
    rep.check(ok, "C02-R4", qual(fn), "when the vertex order is rewritten "
              "for a merged vertex, the member it replaced counts as "
              "already removed, and each member is removed at most once "
              "(list.remove can never miss)",
              construct="vertex order rewrite", node=fn,
              fail="the guard set protecting vertex_order.remove() does not "
                   "start with the member that was replaced by the merged "
                   "vertex: a group listing that member again raises "
                   "ValueError - not a documented placement error")
    rep.floor("C02-R4", 7)


def _reads(fn, name, before):
    """Is parameter ``name`` read in a statement preceding ``before``?"""
    for st in fn.body:
        if st is before:
            return False
        for n in ast.walk(st):
            if isinstance(n, ast.Name) and n.id == name and \
                    isinstance(n.ctx, ast.Load):
                return True
    return False


def _Pm(n):
    return ("param", n)


def r5_reservations(program, rep):
    """Decided on value terms: what is stored where, under which case of the
    constraint's location, and which test guards each raise."""
    fn = program.get(PL + ".utils:resources_after_reservation")
    T = Terms(fn)
    res, con = formals(fn)[:2]
    COPY = ("call", ("attr", _Pm(res), "copy"), (), ())
    rets = [T.term(r.value) for r in returns_of(fn) if r.value is not None]
    ok = len(rets) == 1 and plain(rets[0]) == COPY
    amount_ok = False
    KEY = ("attr", _Pm(con), "resource")
    AMT = ("binop", "Sub", ("attr", ("attr", _Pm(con), "reservation"),
                            "stop"),
           ("attr", ("attr", _Pm(con), "reservation"), "start"))
    n_mut = 0
    for n in T.cfg.nodes:
        st = n.ast
        if n.kind != "stmt":
            continue
        tgt = val = None
        if isinstance(st, ast.AugAssign) and \
                isinstance(st.target, ast.Subscript) and \
                isinstance(st.op, ast.Sub):
            tgt = T.term(st.target, n)
            val = T.term(st.value, n)
        elif isinstance(st, ast.Assign) and len(st.targets) == 1 and \
                isinstance(st.targets[0], ast.Subscript):
            tgt = T.term(st.targets[0], n)
            v = T.term(st.value, n)
            if v[0] == "binop" and v[1] == "Sub" and v[2] == tgt:
                val = v[3]
        if tgt is None:
            continue
        n_mut += 1
        amount_ok = rets and tgt == ("item", rets[0], KEY) and val == AMT
    rep.check(ok and amount_ok and n_mut == 1, "C02-R5", qual(fn),
              "a reservation removes stop - start units of its resource "
              "from a copy", construct="reservation arithmetic", node=fn)
    ap = program.get(PL + ".utils:apply_reserve_resource_constraint")
    A = Terms(ap)
    mach, con = formals(ap)[:2]
    LOC = ("attr", _Pm(con), "location")
    M = _Pm(mach)
    EXC = ("attr", M, "chip_resource_exceptions")

    def stores(view):
        out = []
        for n in view.cfg.nodes:
            st = n.ast
            if n.kind == "stmt" and isinstance(st, ast.Assign) and \
                    len(st.targets) == 1 and view.live(n) and \
                    isinstance(st.targets[0], (ast.Subscript,
                                               ast.Attribute)):
                out.append((n, plain(view.term(st.targets[0], n)),
                            plain(view.term(st.value, n))))
        return out

    def rar(x):
        return ("call", ("global", "resources_after_reservation"),
                (x, _Pm(con)), ())

    def guarded(view, n, what):
        """Every way on from the store passes a test overallocated(x) with x
        the stored value or the place it was stored in."""
        gates = []
        for a in view.cfg.nodes:
            if a.kind == "assume" and a.polarity:
                t, p_ = view.cond(a.ast, a, True)
                t = plain(t)
                if t[0] == "call" and t[1] == ("global", "overallocated") \
                        and len(t[2]) == 1 and t[2][0] in what:
                    gates.append(a)
        if not gates:
            return False
        tests = [g.pred[0] if g.pred else g for g in gates]
        gate_ids = set()
        for a in view.cfg.nodes:
            if a.kind == "assume":
                t, _ = view.cond(a.ast, a, True)
                t = plain(t)
                if t[0] == "call" and t[1] == ("global", "overallocated") \
                        and len(t[2]) == 1 and t[2][0] in what:
                    gate_ids.add(a.id)
        heads = [h for h in view.cfg.loop_head.values()]
        return view.must_pass(n, lambda x: x.id in gate_ids,
                              targets=[view.cfg.exit] + heads)

    loc = A.under((is_none(LOC), False))
    glo = A.under((is_none(LOC), True))
    sl = stores(loc)
    CELL = ("item", M, LOC)
    okl = len(sl) == 1 and sl[0][1] == CELL and sl[0][2] == rar(CELL) and \
        guarded(loc, sl[0][0], (CELL, rar(CELL)))
    sg = stores(glo)
    DEF = ("attr", M, "chip_resources")
    L = ("elem", EXC)
    ECELL = ("comp", ("elem", ("items", EXC)), 1)   # EXC[k], k over EXC
    okg = len(sg) == 2 and sorted(x[1:] for x in sg) == sorted(
        [(DEF, rar(DEF)), (ECELL, rar(ECELL))])
    if okg:
        for n, tgt, val in sg:
            okg = okg and guarded(glo, n, (tgt, val, ("item", M, L))
                                  if tgt == ECELL else (tgt, val))
    rs = raises_of(ap)
    okr = bool(rs) and all(raise_name(r) == "InsufficientResourceError"
                           for r in rs) and all(
        any(p and t[0] == "call" and t[1] == ("global", "overallocated")
            for t, p in A.all_facts(A.cfg.node_of(r))) for r in rs)
    rep.check(okg, "C02-R5", qual(ap), "a global reservation is "
              "applied to the default resources and to every exception, "
              "each result being tested for over-allocation",
              construct="global reservation", node=ap)
    rep.check(okl and okr, "C02-R5", qual(ap), "a local reservation is "
              "applied to that chip only; a negative result raises "
              "InsufficientResourceError", construct="local reservation",
              node=ap)
    ov = program.get(PL + ".utils:overallocated")
    O = Terms(ov)
    r_ = formals(ov)[0]
    VALS = ("values", _Pm(r_))
    want = ("call", ("global", "any"),
            (("genexp", mk_cmp("Lt", ("elem", VALS), ("const", 0)),
              ((VALS, ()),)),), ())
    got = [O.term(r.value) for r in returns_of(ov) if r.value is not None]
    if len(got) != 1:
        got = [O.search_loop()]
    rep.check(got == [want], "C02-R5", qual(ov), "overallocated = some "
              "quantity negative", construct="overallocated", node=ov)
    for nm, op in (("add_resources", "Add"), ("subtract_resources", "Sub")):
        f = program.get(PL + ".utils:" + nm)
        F = Terms(f)
        a, b = formals(f)
        E = ("elem", ("items", _Pm(a)))
        want = ("dictcomp", ("pair", ("comp", E, 0),
                             ("binop", op, ("comp", E, 1),
                              ("get", _Pm(b), ("comp", E, 0),
                               ("const", 0)))),
                ((("items", _Pm(a)), ()),))
        got = [plain(F.term(r.value)) for r in returns_of(f)
               if r.value is not None]
        if len(got) == 1 and got[0][0] != "dictcomp":
            # the same dictionary filled by a loop over the first operand's
            # items: one store per pass, nothing else done to it
            raw = [F.term(r.value) for r in returns_of(f)
                   if r.value is not None][0]
            from ..terms import stores as _term_stores
            sts = [x for x in _term_stores(F) if x[2] == raw]
            lp = sts[0][1]._parent if len(sts) == 1 else None
            other = [x for x in method_calls(F, ["update", "pop", "clear",
                                                 "setdefault", "popitem"])
                     if x[2] == raw]
            if raw[0] == "new" and len(sts) == 1 and not other and \
                    isinstance(lp, ast.For) and not lp.orelse and \
                    plain(F.term(lp.iter, F.cfg.loop_head[id(lp)])) == \
                    ("items", _Pm(a)) and not any(
                        isinstance(x, (ast.Break, ast.Continue, ast.Return))
                        for x in ast.walk(lp)):
                got = [("dictcomp", ("pair", plain(sts[0][3]),
                                     plain(sts[0][4])),
                        ((("items", _Pm(a)), ()),))]
            else:
                raise AnalysisError("%s: the result is neither a dictionary "
                                    "comprehension nor one dictionary filled "
                                    "by a loop over the first operand's "
                                    "items; that form is not analysed" % nm)
        rep.check(got == [want], "C02-R5", qual(f), "%s keeps the first "
                  "operand's keys and treats missing second-operand entries "
                  "as 0" % nm, construct=nm, node=f)
    rep.floor("C02-R5", 6)


def r6_raises(program, rep):
    mods = [m for m in program.modules if m.startswith(PL)]
    for m in sorted(mods):
        names = set()
        for q, fn in program.functions(m):
            for r in raises_of(fn):
                nm = raise_name(r)
                if nm is not None:
                    names.add(nm)
        extra = names - DOCUMENTED - {"StopIteration"}
        if m.endswith(".sa.kernel"):
            # abstract kernel interface: every method only raises
            # NotImplementedError; concrete kernels override them
            extra -= {"NotImplementedError"}
        rep.check(not extra, "C02-R6", m, "explicit raises are the "
                  "documented placement errors (%s)" % sorted(names),
                  construct="raises %s" % sorted(extra),
                  fail="%s raises %s, which is not one of the two documented "
                       "placement errors" % (m, sorted(extra)))
    rep.floor("C02-R6", 8)


def _nonempty_known(T, node, L):
    """Is there a fact in force at ``node`` saying the collection ``L`` is
    not empty (a test made since L was last changed)?"""
    LEN = ("call", ("global", "len"), (L,), ())
    pl = plain(L)
    PLEN = ("call", ("global", "len"), (pl,), ())
    for t, p in T.all_facts(node):
        for l_, n_ in ((L, LEN), (pl, PLEN)):
            tt = plain(t) if l_ is pl else t
            if (tt, p) in ((l_, True),
                           (mk_cmp("Lt", ("const", 0), n_), True),
                           (mk_cmp("LtE", ("const", 1), n_), True),
                           (mk_cmp("Eq", n_, ("const", 0)), False),
                           (mk_cmp("Eq", ("const", 0), n_), False),
                           (n_, True)):
                return True
    return False


def r6_empty_population(program, rep):
    """random.sample(P, k >= 1) / random.choice(P) raise ValueError /
    IndexError on an empty population - not a documented placement error.
    Where the function itself shrinks the population (remove, discard, pop,
    clear, -=) on a path that reaches the draw, a test that it is not empty
    must be in force at the draw (made after the last removal)."""
    n = 0
    for m in sorted(m for m in program.modules if m.startswith(PL)):
        for q, fn in program.functions(m):
            draws = [c for c in ast.walk(fn) if isinstance(c, ast.Call) and
                     isinstance(c.func, ast.Attribute) and
                     c.func.attr in ("sample", "choice") and c.args and
                     fn is _owner_fn(c)]
            if not draws:
                continue
            T = Terms(fn)
            for c in draws:
                node = T.cfg.node_containing(c)
                pop = c.args[0]
                while isinstance(pop, ast.Call) and isinstance(
                        pop.func, ast.Name) and pop.func.id in (
                        "sorted", "list", "tuple") and len(pop.args) >= 1:
                    pop = pop.args[0]
                L = T.term(pop, node)
                shrinks = [x for x in method_calls(T, (
                    "remove", "discard", "pop", "clear",
                    "difference_update", "intersection_update"))
                    if x[2] == L or plain(x[2]) == plain(L)]
                shrinks = [x for x in shrinks
                           if T.cfg.reaches(x[0], node)]
                if not shrinks:
                    continue
                n += 1
                ok = _nonempty_known(T, node, L)
                rep.check(ok, "C02-R6", "%s:%s" % (m, q), "a draw from a "
                          "population this function shrinks is made only "
                          "after a test that something is left",
                          construct="draw from %s" % show(L)[:60], node=c,
                          fail="%s draws from %s, which this function "
                               "shrinks, without a test that it is not "
                               "empty in force at the draw: when the last "
                               "candidate has been removed the draw raises "
                               "ValueError / IndexError, not one of the "
                               "documented placement errors" % (
                                   unparse(c.func), show(L)[:60]))
    if n == 0:
        raise AnalysisError("no draw from a shrinking population found "
                            "(rand.place was expected to have one)")


def r1_chip_order(program, rep):
    """The sequential placer takes chips from a caller-supplied order that
    may name dead or non-existent chips (its documentation allows that):
    every chip it tries must be one of the machine's, or machine[chip] /
    the subtraction raises IndexError / KeyError - not a documented error."""
    fn = program.get(PLACERS["sequential"])
    T = Terms(fn)
    ps = formals(fn)
    if "chip_order" not in ps:
        raise AnalysisError("sequential.place no longer takes chip_order")
    ORDER, MACH = ("param", "chip_order"), ("param", ps[2])
    cyc = [c for c in calls_in(fn, "cycle") if len(c.args) == 1]
    if len(cyc) != 1:
        raise AnalysisError("sequential.place: the cyclic chip iterator was "
                            "not found in the form analysed")
    H = T.under((is_none(ORDER), False))
    n = H.cfg.node_containing(cyc[0])
    X = plain(H.term(cyc[0].args[0], n))
    def is_machine(t):
        # the machine given, or the working copy made of it
        return t == MACH or (t[0] == "call" and t[1] == ("attr", MACH,
                                                         "copy"))
    ok = None
    if is_machine(X):
        ok = True
    elif X == ORDER:
        ok = False
    elif X[0] in ("genexp", "listcomp") and len(X[2]) == 1:
        it_, conds_ = X[2][0]
        if it_ == ORDER and X[1] == ("elem", ORDER):
            ok = any(c_[:3] == ("cmp", "In", ("elem", ORDER)) and
                     is_machine(c_[3]) for c_ in conds_)
    if ok is None:
        raise AnalysisError("sequential.place: what the chip iterator "
                            "ranges over is not read in this form")
    rep.check(ok, "C02-R1", qual(fn), "a caller-supplied chip order is "
              "filtered to the machine's own (working) chips before chips "
              "are tried", construct="chip order filtered", node=cyc[0],
              fail="the chips of a caller-supplied chip_order are tried as "
                   "they come (%s): a dead or non-existent chip in the "
                   "order makes machine[chip] raise IndexError instead of "
                   "being skipped" % show(X)[:60])


def _owner_fn(node):
    p = getattr(node, "_parent", None)
    while p is not None and not isinstance(p, (ast.FunctionDef,
                                               ast.AsyncFunctionDef,
                                               ast.Lambda)):
        p = getattr(p, "_parent", None)
    return p


def r7_link(program, rep):
    mods = sorted(m for m in program.modules if m.startswith(PL)) + [
        "rig.place_and_route.machine", "rig.place_and_route.constraints",
        "rig.place_and_route.exceptions", "rig.netlist", "rig.geometry",
        "rig.links"]
    for name in mods:
        m = program.module(name)
        bad = list(check_module(m))
        for node, msg in bad:
            rep.bad("C02-R7", name, msg, "%s: %s" % (name, msg), node)
        for v_, nm_, c_ in shared_mutable_values(m.tree):
            bad.append((v_, "shared value"))
            rep.bad("C02-R7", name, "one mutable object under every key",
                    "%s binds %s to %s: every key / position holds the SAME "
                    "object, and %s changes an entry in place - the change "
                    "shows through every entry (a chip's list of vertices "
                    "is every chip's list)" % (name, nm_, unparse(v_),
                                               unparse(c_)[:60]), v_)
        for q, fn in program.functions(name):
            hits = sample_of_set(fn, Flow(fn))
            for c in hits:
                rep.bad("C02-R7", "%s:%s" % (name, q), "sample of a set",
                        "%s calls %s with a set population: TypeError on "
                        "Python >= 3.11 for every input with a movable "
                        "vertex - the placer 'fails with another "
                        "exception'" % (q, unparse(c)), c)
        if not bad:
            rep.ok("C02-R7", name, "all standard-library names referenced "
                   "exist on this interpreter; no Random.sample of a set")
    rep.floor("C02-R7", 12)


def r2_kernel_lookups(program, rep):
    """The Python kernel's lookups are total: l2v has an entry for every
    chip of the machine and v2n one for every vertex, so that _step /
    _vertex_net_cost can index them with any vertex or chip they come by (a
    vertex that is in no net - every net it was in was filtered out - still
    gets moved and displaced).  A table filled only from the nets has no
    entry for such a vertex: KeyError, not a placement error."""
    pk = PL + ".sa.python_kernel"
    init = program.get(pk + ":PythonKernel.__init__")
    inst = qual(init)
    I = Terms(init)
    ps = formals(init)
    for attr, dom, what in (("self.v2n", ("param", ps[1]), "vertex"),
                            ("self.l2v", ("param", "machine"), "chip")):
        bs = [b_ for b_ in I.binds if b_.var == attr]
        if len(bs) != 1:
            raise AnalysisError("PythonKernel.__init__: %s is bound %d "
                                "times" % (attr, len(bs)))
        t = I._bind_term(bs[0])
        built = I.built_map(t)
        doms = [it for it, k, v, c in (built or [])
                if c is None and plain(k) == ("elem", plain(it))]
        ok = any(plain(d) in (dom, ("attr", ("param", "self"), dom[1]))
                 for d in doms)
        if not ok:
            # filled entry by entry from some other collection?
            other = [plain(args[0]) for n_, c_, recv, args in method_calls(
                I, ["setdefault"]) if recv == t and args]
            other += [plain(k) for n_, st, base, k, v in stores(I)
                      if base == t]
            partial = [k for k in other if any(
                st == ("param", "nets") for st in subterms(k))]
            if not partial:
                raise AnalysisError("PythonKernel.__init__: how %s is "
                                    "populated is not read" % attr)
        rep.check(ok, "C02-R2", inst, "%s has an entry for every %s" % (
            attr, what), construct="%s total" % attr, node=bs[0].node.ast,
            fail="%s only has entries for the vertices that are members of "
                 "a net: a vertex that is in none (all its nets were "
                 "filtered out as trivial) has no entry, and moving or "
                 "displacing it raises KeyError" % attr)


def r2_steps(program, rep):
    """The annealer makes at least one swap attempt per temperature: the
    acceptance rate divides by the number of attempts, and the kernel
    divides by the number of cost changes it collected (one per attempt)."""
    from ..terms import eval_closed, subst_params, reify
    fn = program.get(PLACERS["sa"])
    inst = qual(fn)
    T = Terms(fn)
    divs = [n for n in ast.walk(fn) if isinstance(n, ast.BinOp) and
            isinstance(n.op, (ast.Div, ast.FloorDiv, ast.Mod)) and any(
                isinstance(x, ast.Name) and x.id == "num_steps"
                for x in ast.walk(n.right))]
    if not divs:
        raise AnalysisError("sa.place: no division by the number of steps")
    n_ = T.cfg.node_containing(divs[0])
    t = plain(T.term(ast.Name(id="num_steps", ctx=ast.Load()), n_))
    if any(st[0] in ("mu", "phi", "rec", "opaque") for st in subterms(t)):
        raise AnalysisError("sa.place: the number of steps is a merged "
                            "value; not analysed")
    # max(1, ...) / max(..., 1) at the top: at least one
    if t[0] == "call" and t[1] == ("global", "max") and any(
            x[0] == "const" and isinstance(x[1], int) and x[1] >= 1
            for x in t[2]):
        rep.ok("C02-R2", inst, "num_steps = max(1, ...): at least one swap "
               "attempt per temperature", divs[0])
        return
    # otherwise: fold it for small efforts and netlists
    lens = sorted(set(st for st in subterms(t) if st[0] == "call" and
                      st[1] == ("global", "len")), key=repr)
    eff = formals(fn)[4] if "effort" not in formals(fn) else "effort"
    witness = None
    decided = True
    for e_ in (0.001, 0.01, 0.1, 1.0):
        for n_v in (1, 2, 10):
            x = t
            for L_ in lens:
                x = _replace_term(x, L_, ("const", n_v))
            x = subst_params(x, {eff: ("const", e_)})
            try:
                v = eval_closed(x)
            except AnalysisError:
                decided = False
                continue
            if not v:
                witness = (e_, n_v, v)
    if witness is None and not decided:
        raise AnalysisError("sa.place: the number of steps does not fold")
    if witness is None:
        raise AnalysisError("sa.place: the number of steps is not max(1, "
                            "...) and no small case makes it zero; not "
                            "decided")
    rep.check(False, "C02-R2", inst, "at least one swap attempt per "
              "temperature", construct="num_steps >= 1", node=divs[0],
              fail="with effort = %r and %d vertices the number of swap "
                   "attempts per temperature is %r: the acceptance rate "
                   "num_accepted / num_steps (and the kernel's mean over "
                   "the cost changes) divides by zero - ZeroDivisionError, "
                   "not a placement error" % witness)


def _replace_term(t, old, new):
    if t == old:
        return new
    if not isinstance(t, tuple) or not t or t[0] == "const":
        return t
    return tuple(_replace_term(x, old, new) if isinstance(x, tuple) else x
                 for x in t)



def r9_hilbert_levels(program, rep):
    """The Hilbert placer walks a curve of 2**levels x 2**levels points and
    keeps those that are chips: every chip is on the walk only if 2**levels
    reaches the longer side, i.e. levels = ceil(log2(max(width, height))).
    A level count rounded to nearest or down leaves the outer rows and
    columns of most machine sizes unvisited - vertices that fit are then
    refused (InsufficientResourceError)."""
    fn = program.get(PL + ".hilbert:hilbert_chip_order")
    inst = qual(fn)
    T = Terms(fn)
    cs = calls_in(fn, "hilbert")
    if len(cs) != 1 or len(cs[0].args) < 1:
        raise AnalysisError("hilbert_chip_order: one hilbert(levels) call "
                            "expected")
    n = T.cfg.node_containing(cs[0])
    lv = T.term(cs[0].args[0], n)
    from ..terms import alternatives as _alts

    def strip(t):
        t = plain(t)
        while t[0] in ("call", "callv") and t[1] == ("global", "int") \
                and len(t[2]) == 1:
            t = plain(t[2][0])
        return t

    def fname(t):
        if not t or not isinstance(t[0], str):
            return None
        if t[0] in ("call", "callv") and len(t) > 1 and t[1] and \
                isinstance(t[1], tuple):
            f = t[1]
            if f[0] == "global":
                return f[1]
            if f[0] == "attr":
                return f[2]
        return None
    judged = 0
    for alt in _alts(lv):
        a = strip(alt)
        if a[0] == "const":
            continue
        judged += 1
        if fname(a) == "ceil" and len(a[2]) == 1:
            inner = plain(a[2][0])
            if fname(inner) in ("log", "log2"):
                base_ok = fname(inner) == "log2" or (
                    len(inner[2]) == 2 and inner[2][1][0] == "const" and
                    inner[2][1][1] in (2, 2.0))
                arg = plain(inner[2][0]) if inner[2] else ("?",)
                if not base_ok:
                    raise AnalysisError("hilbert_chip_order: logarithm to a "
                                        "base other than 2; not analysed")
                names = set()
                for st_ in [arg] + [x for x in _subterms(arg)]:
                    if len(st_) == 3 and st_[0] == "attr" and \
                            st_[2] in ("width", "height"):
                        names.add(st_[2])
                if fname(arg) == "max" and names == {"width", "height"}:
                    rep.ok("C02-R9", inst, "levels = ceil(log2(max(width, "
                           "height))): the curve covers the longer side",
                           cs[0])
                    continue
                raise AnalysisError("hilbert_chip_order: the size the level "
                                    "count is taken from is not max(width, "
                                    "height); whether the curve covers the "
                                    "machine is not decided in that form")
            raise AnalysisError("hilbert_chip_order: ceil of something "
                                "other than a logarithm; not analysed")
        if fname(a) in ("round", "floor", "log", "log2", "trunc"):
            deep = [fname(x) for x in [a] + list(_subterms(a))]
            if ("log" in deep or "log2" in deep) and "ceil" not in deep:
                rep.bad("C02-R9", inst, "levels not rounded up",
                        "the number of Hilbert levels is the logarithm of "
                        "the machine's size rounded with %s(), not rounded "
                        "up: 2**levels can be smaller than the longer side "
                        "(e.g. 5 chips -> 2 levels -> a 4 x 4 curve) and the "
                        "chips beyond it are never offered to the placer" %
                        fname(a), cs[0], positive=True)
                continue
        raise AnalysisError("hilbert_chip_order: the level count is "
                            "computed in a form these rules do not read")
    if not judged:
        raise AnalysisError("hilbert_chip_order: no level count found")


def _subterms(t):
    if isinstance(t, tuple):
        for x in t:
            if isinstance(x, tuple):
                yield x
                for y in _subterms(x):
                    yield y

def check(program, rep):
    rep.guard("C02-R1", r1_commits, program, rep)
    rep.guard("C02-R1", r1_chip_order, program, rep)
    rep.guard("C02-R2", r2_kernel, program, rep)
    rep.guard("C02-R2", r2_kernel_lookups, program, rep)
    rep.guard("C02-R2", r2_steps, program, rep)
    rep.guard("C02-R3", r3_dispatch, program, rep)
    rep.guard("C02-R4", r4_pairing, program, rep)
    rep.guard("C02-R5", r5_reservations, program, rep)
    rep.guard("C02-R6", r6_raises, program, rep)
    rep.guard("C02-R6", r6_empty_population, program, rep)
    rep.guard("C02-R7", r7_link, program, rep)
    rep.guard("C02-R9", r9_hilbert_levels, program, rep)
    # the constraint-rewriting helpers work on copies: the caller's lists
    # (re-used for the next call, or given to the router) stay as they were
    from . import C17
    rep.guard("C17-R1", C17.r1_for, program, rep,
              ["rig.place_and_route.place.utils"])
    # arguments handed to package functions under the wrong name / same-
    # named optional parameters not passed on (NAMELINK, DESIGN.md 9.13)
    from .. import namelink as _nl
    rep.guard("C02-R8", _nl.rule, program, rep, "C02-R8",
              [m for m in sorted(program.modules) if m.startswith("rig.place_and_route")])
    return finish(rep, program, EXPLANATION, NOT_DECIDED,
                  trusted=["resource-role table in rules/C02.py"])
