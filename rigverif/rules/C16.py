"""C16 - fixed-point conversion saturates, is monotone and inverts exactly.

R1 scalar: truncate with int() first, then clamp between the integer bounds
   (clamp structure by ORDTYPE); bounds are the format's extremes
R2 the array converter uses the same bounds and scale; dtype table complete
R3 the array converter clips in floating point: every integer bound must not
   round upwards when converted to a double
R4 inverse scales; deprecated unsigned-word variants: sign-bit test and
   two's-complement adjustment
"""
import ast

from ..core import AnalysisError, finish, unparse
from ..constfold import Folder, Opaque, fold_body, FoldErrorValue
from ..dataflow import Flow, chain, call_name
from ..ordtype import weak_orderings, Ordering, Evaluator
from ..poly import Poly, le, lt, eq
from ..absint import Interp
from ..terms import Terms, reify, plain, match, V, ANY, show, alternatives, subterms
from ..util import calls_in, qual, formals, returns_of, has_fact

MOD = "rig.type_casts"

EXPLANATION = (
    "R1: float_to_fp's returned expression is evaluated abstractly on every "
    "weak ordering of (value, min, max) with min <= max and must be the "
    "clamp; the value clamped is int(scale * x) (truncation toward zero "
    "happens before clamping, against exact integer bounds); the bounds' "
    "normal forms are 2^(n-1)-1 / -2^(n-1) (signed) and 2^n-1 / 0. R2: "
    "NumpyFloatToFixConverter's bounds and scale have the same normal forms; "
    "its dtype table is folded and covers exactly the admitted (signed, "
    "bits) pairs with the matching numpy type. R3: for each admitted width "
    "the integer clip bounds are folded and converted to a double: a bound "
    "that rounds up makes np.clip let values through that overflow the "
    "cast. R4: scale exponents and operators of the inverse conversions; "
    "sign-bit test of fix_to_float.")
EXPLANATION += (
    " R2 reads class-level tables through self when folding __init__, and "
    "decides saturation made under np.any() tests by cases on the tests.")
NOT_DECIDED = [
    "monotonicity, within-one-LSB and exact round trip over the float line "
    "(floating-point semantics; a numerical/runtime technique)",
    "numpy's clip/cast semantics beyond the representability of the bounds",
]


def _wp(e):
    for n in ast.walk(e):
        for c in ast.iter_child_nodes(n):
            c._parent = n
    ast.fix_missing_locations(e)
    return e


def _poly(fl, t):
    """Linear/pow2 normal form of a value term (over the function's inputs)."""
    return fl.sym(_wp(reify(t)), fl.cfg.entry)


def _def_node(T, nested):
    for n in T.cfg.nodes:
        if n.kind == "stmt" and n.ast is nested:
            return n
    return T.cfg.exit


def _opaque_scale(t):
    """Does the term contain a call of something other than a builtin
    conversion (a helper or method computing the scale)?"""
    for st_ in subterms(plain(t)):
        if st_[0] not in ("call", "callv"):
            continue
        f_ = st_[1]
        # a function of the module, or a method of the converter itself
        # (methods of the values - astype, ... - and numpy's are not that)
        if f_[0] == "global" and f_[1] not in (
                "int", "float", "pow", "len", "abs", "min", "max", "np"):
            return True
        if f_[0] == "attr" and f_[1] == ("param", "self"):
            return True
    return False


def r1_scalar(program, rep):
    """The clamp is decided semantically: the outer function is folded for
    every format to find which captured values are the bounds, and the inner
    function is interpreted in the three cases v < lo, lo <= v <= hi, v > hi
    (whatever mixture of min/max calls and branches it is written with)."""
    fn = program.get(MOD + ":float_to_fp")
    closures = [x for x in ast.walk(fn) if isinstance(x, ast.FunctionDef)
                and x is not fn]
    if len(closures) > 1:
        raise AnalysisError("float_to_fp builds one of several converter "
                            "closures (%s); the rule reads the one-closure "
                            "form" % ", ".join(sorted(set(
                                x.name for x in closures))))
    inner = program.get(MOD + ":float_to_fp.bitsk")
    inst = qual(inner)
    fl = Flow(fn)
    T = Terms(fn)
    signed, n_bits, n_frac = formals(fn)
    folder = Folder(program)
    TI = Terms(inner, outer=(T, _def_node(T, inner)))
    free = sorted(set(n.id for n in ast.walk(inner)
                      if isinstance(n, ast.Name) and
                      isinstance(n.ctx, ast.Load) and
                      any(b_.var == n.id for b_ in T.binds) and
                      not any(b_.var == n.id for b_ in TI.binds)))
    hi_names, lo_names = set(free), set(free)
    n = 0
    for b in range(1, 65):
        for sg in (True, False):
            env = fold_body(folder, fn, {signed: sg, n_bits: b, n_frac: 0})
            wmx = (1 << (b - 1)) - 1 if sg else (1 << b) - 1
            wmn = -(1 << (b - 1)) if sg else 0
            n += 1
            for nm in free:
                v = env.get(nm)
                if isinstance(v, bool) or v != wmx:
                    hi_names.discard(nm)
                if isinstance(v, bool) or v != wmn:
                    lo_names.discard(nm)
    okb = len(hi_names) >= 1 and len(lo_names) >= 1
    rep.check(okb, "C16-R1", qual(fn), "the values the converter closes "
              "over include the format's extremes (2^(n-1)-1 / -2^(n-1) "
              "signed, 2^n-1 / 0 unsigned) for every width 1..64 and both "
              "signednesses (%d formats folded)" % n,
              construct="scalar bounds", node=fn,
              fail="none of the values captured by float_to_fp's converter "
                   "(%s) folds to the format's %s for all %d formats" % (
                       free, "maximum" if not hi_names else "minimum", n))
    # scale = 2 ** n_frac, the clamped value is int(scale * value)
    val = formals(inner)[0]
    trunc = None
    for c in calls_in(inner, "int"):
        if len(c.args) == 1:
            t = TI.term(c.args[0], TI.cfg.node_containing(c))
            if t[0] == "binop" and t[1] == "Mult" and \
                    ("param", val) in (t[2], t[3]):
                sc = t[3] if t[2] == ("param", val) else t[2]
                if _poly(fl, sc) == fl._pow2(Poly.atom(n_frac)):
                    trunc = c
    rep.check(trunc is not None, "C16-R1", inst, "the value is scaled by "
              "2 ** n_frac and truncated with int(): truncation toward "
              "zero, in exact integers", construct="truncate before clamp",
              node=inner)
    ok = okb and trunc is not None
    detail = ""
    if ok:
        HI, LO = sorted(hi_names)[0], sorted(lo_names)[0]
        it0 = Interp(inner)
        V = it0.sym(trunc, it0.cfg.node_containing(trunc))
        hi, lo = Poly.atom(HI), Poly.atom(LO)
        cases = [("below", [lt(V, lo)], lo), ("inside", [le(lo, V),
                                                         le(V, hi)], V),
                 ("above", [lt(hi, V)], hi)]
        for name, cons, want in cases:
            # (the captured bounds fold to the format's extremes for every
            # format - checked above - so min <= 0 <= max)
            it = Interp(inner, entry_cons=[le(lo, hi), le(lo, 0),
                                           le(0, hi)] + cons)
            reached = 0
            for r in returns_of(inner):
                node = it.cfg.node_of(r)
                if not it.reachable(node):
                    continue
                reached += 1
                got = it.sym(r.value, node)
                if not it.holds_at(node, eq(got, want)):
                    if any(isinstance(x, ast.Subscript)
                           for x in ast.walk(r.value)):
                        # the result is looked up in a table: which entry
                        # is chosen is not followed by the interval proof
                        raise AnalysisError(
                            "float_to_fp: the converter returns %s, a table "
                            "look-up these rules do not follow" %
                            unparse(r.value))
                    ok = False
                    detail = "%s the range: returns %s" % (name,
                                                           unparse(r.value))
            ok = ok and reached >= 1
    rep.check(ok, "C16-R1", inst, "the converter returns clamp(int(scale * "
              "value), min, max): the bound when the truncated value lies "
              "outside, the truncated value itself otherwise (no "
              "conversion after clamping)", construct="clamp", node=inner,
              fail="the value returned is not the truncated integer "
                   "clamped between the integer bounds (%s): e.g. clamping "
                   "in floating point and truncating afterwards lets "
                   "values through for wide formats" % detail)
    rep.floor("C16-R1", 3)


def r2_array(program, folder, rep):
    init = program.get(MOD + ":NumpyFloatToFixConverter.__init__")
    inst = qual(init)
    fl = Flow(init)
    _, signed, n_bits, n_frac = formals(init)
    bounds = {}
    # admitted widths and dtype table
    widths = None
    for n in ast.walk(init):
        if isinstance(n, ast.Compare) and chain(n.left) == n_bits and \
                isinstance(n.ops[0], ast.NotIn):
            widths = folder.eval(n.comparators[0], {}, init._module)
    cls = program.get(MOD + ":NumpyFloatToFixConverter")
    table = None
    for st in cls.body:
        if isinstance(st, ast.Assign) and chain(st.targets[0]) == "dtypes":
            table = {}
            for k, v in zip(st.value.keys, st.value.values):
                table[folder.eval(k, {}, init._module)] = unparse(v)
    if widths is None or table is None:
        raise AnalysisError("NumpyFloatToFixConverter: the admitted widths "
                            "or the dtype table were not found in the form "
                            "analysed (a test `n_bits not in <tuple>` in "
                            "__init__, a class-level dict display)")
    ok = widths is not None and table is not None and \
        set(table) == set((s, b) for s in (True, False) for b in widths)
    rep.check(ok, "C16-R2", qual(cls), "the dtype table has exactly one "
              "entry per admitted (signed, bits) pair %s" % (widths,),
              construct="dtype keys", node=cls)
    if ok:
        for (s, b), v in sorted(table.items()):
            w = "np.%sint%d" % ("" if s else "u", b)
            rep.check(v == w, "C16-R2", qual(cls), "(%s, %d) -> %s" % (
                "signed" if s else "unsigned", b, w),
                construct="dtype (%s,%d) = %s" % (s, b, v), node=cls)
    TI_ = Terms(init)
    SELF = ("param", "self")

    def attr_bind(name):
        bs = [b_ for b_ in TI_.binds if b_.var == "self." + name and
              b_.mode == "assign"]
        return TI_._bind_term(bs[0]) if len(bs) == 1 else None
    rep.check(attr_bind("dtype") == ("item", ("attr", SELF, "dtypes"),
                                     ("tuple", ("param", signed),
                                      ("param", n_bits))),
              "C16-R2", inst, "the dtype is looked up "
              "with (signed, n_bits)", construct="dtype lookup", node=init)
    call = program.get(MOD + ":NumpyFloatToFixConverter.__call__")
    C = Terms(call)
    cfl = Flow(call)
    vals = formals(call)[1]
    rets = [C.term(r.value) for r in returns_of(call) if r.value is not None]
    okc = okr = False
    if len(rets) == 1:
        t = plain(rets[0])
        m = match(("call", ("attr", ("global", "np"), "array"), (V("x"),),
                   V("kw")), t)
        if m is not None:
            kw = dict(m["kw"])
            okr = kw.get("dtype") == ("attr", SELF, "dtype")
            NP = ("global", "np")
            LO, HI = ("attr", SELF, "min_value"), ("attr", SELF, "max_value")
            m2 = None
            for pat in (
                    ("call", ("attr", NP, "clip"), (V("v"), LO, HI), ()),
                    ("call", ("attr", NP, "clip"), (V("v"),),
                     (("a_max", HI), ("a_min", LO))),
                    ("call", ("attr", NP, "clip"), (V("v"), LO),
                     (("a_max", HI),)),
                    ("call", ("attr", NP, "minimum"),
                     (("call", ("attr", NP, "maximum"), (V("v"), LO), ()),
                      HI), ()),
                    ("call", ("attr", NP, "minimum"),
                     (HI, ("call", ("attr", NP, "maximum"), (V("v"), LO),
                           ())), ()),
                    ("call", ("attr", NP, "maximum"),
                     (("call", ("attr", NP, "minimum"), (V("v"), HI), ()),
                      LO), ())):
                m2 = m2 or match(pat, m["x"])
            if m2 is None and any(st_[0] in ("phi", "mu")
                                  for st_ in subterms(rets[0])):
                # saturation made only when something is out of range: for
                # each outcome of the np.any(<values> (<|>) <bound>) tests,
                # an end that has values beyond it must be clamped
                import itertools
                tests = []
                for a_ in C.cfg.nodes:
                    if a_.kind != "assume" or not a_.polarity:
                        continue
                    tc, _ = C.cond(a_.ast, a_, True)
                    ptc = plain(tc)
                    if ptc[0] == "call" and ptc[1] == ("attr", NP, "any") \
                            and len(ptc[2]) == 1 and ptc[2][0][0] == "cmp":
                        cmp_ = ptc[2][0]
                        end = "hi" if HI in (cmp_[2], cmp_[3]) else \
                            "lo" if LO in (cmp_[2], cmp_[3]) else None
                        if end and (tc, end) not in tests:
                            tests.append((tc, end))
                if len(tests) > 3:
                    raise AnalysisError(
                        "NumpyFloatToFixConverter.__call__: the saturation "
                        "step was not found in the form analysed")

                def clamps(t_):
                    hi = lo = False
                    for st_ in subterms(plain(t_)):
                        if st_[0] == "call" and st_[1][0] == "attr" and \
                                st_[1][1] == NP:
                            if st_[1][2] == "clip":
                                hi = lo = True
                            elif st_[1][2] == "minimum" and HI in st_[2]:
                                hi = True
                            elif st_[1][2] == "maximum" and LO in st_[2]:
                                lo = True
                    return hi, lo
                r_ = returns_of(call)[0]
                for vals_ in (itertools.product((True, False),
                                                repeat=len(tests))
                              if tests else ()):
                    Hc = C.under(*[(t_[0], v_) for t_, v_ in zip(tests,
                                                                 vals_)])
                    rn_ = Hc.cfg.node_of(r_)
                    if not Hc.live(rn_):
                        continue
                    xt = Hc.term(r_.value, rn_)
                    if any(st_[0] in ("phi", "mu") for st_ in subterms(xt)):
                        raise AnalysisError(
                            "NumpyFloatToFixConverter.__call__: what is "
                            "cast is not settled by the outcome of the "
                            "range tests; not analysed")
                    hi_, lo_ = clamps(xt)
                    for (t_, end), v_ in zip(tests, vals_):
                        if v_ and not (hi_ if end == "hi" else lo_):
                            rep.bad("C16-R2", qual(call),
                                    "conditional saturation",
                                    "when the array holds values beyond the "
                                    "%s of the range%s, the values cast are "
                                    "not clamped at that end: they wrap "
                                    "around in the integer cast (whether an "
                                    "element saturates depends on the other "
                                    "elements)" % (
                                        "maximum" if end == "hi" else
                                        "minimum",
                                        " and beyond the other end too"
                                        if all(vals_) and len(tests) > 1
                                        else ""), call)
                            return widths, bounds, fl, n_bits
                if tests:
                    raise AnalysisError(
                        "NumpyFloatToFixConverter.__call__: saturation is "
                        "made conditionally; each tested end is clamped, "
                        "the scaling is not re-checked in that form")
            if m2 is None and not any(
                    st_[0] == "call" and st_[1][0] == "attr" and
                    st_[1][2] in ("clip", "minimum", "maximum")
                    for st_ in subterms(m["x"])):
                raise AnalysisError("NumpyFloatToFixConverter.__call__: the "
                                    "saturation step was not found in the "
                                    "form analysed")
            if m2 is not None:
                okc = _poly(cfl, m2["v"]) == Poly.atom(vals) * cfl._pow2(
                    Poly.atom("self.n_frac"))
                if not okc and _opaque_scale(m2["v"]):
                    raise AnalysisError(
                        "NumpyFloatToFixConverter.__call__: the scale is "
                        "obtained from a helper / method; not analysed")
    rep.check(okc and attr_bind("n_frac") == ("param", n_frac),
              "C16-R2", qual(call), "array path: values * 2**n_frac, then "
              "clip(min_value, max_value), then cast",
              construct="array pipeline", node=call)
    rep.check(okr, "C16-R2", qual(call), "the clipped values are cast to "
              "the sized integer type", construct="array cast", node=call)
    return widths, bounds, fl, n_bits


def r3_representable(program, folder, rep, widths, init_fl, n_bits):
    """Fold the integer bounds for each admitted (signed, width): they must
    equal the scalar converter's bounds (R2) and converting them to a double
    must not round them outwards (R3): np.clip compares in floating point."""
    init = program.get(MOD + ":NumpyFloatToFixConverter.__init__")
    inst = qual(init)
    _, signed, nb, nf = formals(init)
    for b in sorted(widths or []):
        for sg in (True, False):
            env = fold_body(folder, init, {signed: sg, nb: b, nf: 0})
            mx, mn = env.get("self.max_value"), env.get("self.min_value")
            if not isinstance(mx, int) or not isinstance(mn, int):
                raise AnalysisError("NumpyFloatToFixConverter.__init__: the "
                                    "clip bounds do not fold to integers "
                                    "(taken from a library call such as "
                                    "np.iinfo?); that form is not analysed")
            wmx = (1 << (b - 1)) - 1 if sg else (1 << b) - 1
            wmn = -(1 << (b - 1)) if sg else 0
            what = "%s %d-bit" % ("signed" if sg else "unsigned", b)
            rep.check((mx, mn) == (wmx, wmn), "C16-R2", inst,
                      "array converter %s: clip bounds %d / %d, the same as "
                      "the scalar converter's" % (what, wmn, wmx),
                      construct="array bounds %s min=%r max=%r" % (what, mn,
                                                                   mx),
                      node=init,
                      fail="the array converter clips %s values to [%r, %r] "
                           "but the scalar converter (and the format) has "
                           "[%d, %d]: the two disagree at an end of the "
                           "range" % (what, mn, mx, wmn, wmx))
            if not isinstance(mx, int) or not isinstance(mn, int):
                continue
            fmx, fmn = float(mx), float(mn)
            ok = (int(fmx) <= mx) and (int(fmn) >= mn)
            rep.check(ok, "C16-R3", inst,
                      "%s: clip bounds %d / %d are exactly representable "
                      "(or round inwards) as doubles" % (what, mn, mx),
                      construct="clip bound %s max=%d rounds to %d" % (
                          what, mx, int(fmx)), node=init,
                      fail="%s: the clip bound %d becomes %d as a double, so "
                           "np.clip lets values up to that through and the "
                           "cast wraps around: a large positive input "
                           "converts to %s" % (
                               what, mx, int(fmx), "the most negative value"
                               if sg else "0"))
    rep.floor("C16-R3", 8)


def r4_inverse(program, rep):
    fn = program.get(MOD + ":fp_to_float")
    fl = Flow(fn)
    T = Terms(fn)
    nf = formals(fn)[0]
    inner = program.get(MOD + ":fp_to_float.kbits")
    TI = Terms(inner, outer=(T, _def_node(T, inner)))
    v = ("param", formals(inner)[0])
    rets = [TI.term(r.value) for r in returns_of(inner)
            if r.value is not None]
    ok = len(rets) == 1 and rets[0][0] == "binop" and rets[0][1] == "Mult" \
        and v in (rets[0][2], rets[0][3])
    if ok:
        sc = rets[0][3] if rets[0][2] == v else rets[0][2]
        ok = _poly(fl, sc) == fl._pow2(-Poly.atom(nf))
    rep.check(ok, "C16-R4", qual(fn), "fp_to_float multiplies by 2 ** "
              "(-n_frac)", construct="scalar inverse scale", node=fn)
    call = program.get(MOD + ":NumpyFixToFloatConverter.__call__")
    cfl = Flow(call)
    C = Terms(call)
    rets = [C.term(r.value) for r in returns_of(call) if r.value is not None]
    ok = len(rets) == 1 and rets[0][0] == "binop" and rets[0][1] == "Div" \
        and rets[0][2] == ("param", formals(call)[1]) and \
        _poly(cfl, rets[0][3]) == cfl._pow2(Poly.atom("self.n_frac"))
    if not ok and len(rets) == 1 and _opaque_scale(rets[0]):
        raise AnalysisError("NumpyFixToFloatConverter.__call__: the scale is "
                            "obtained from a helper / method; not analysed")
    init = program.get(MOD + ":NumpyFixToFloatConverter.__init__")
    I = Terms(init)
    nfd = [b_ for b_ in I.binds if b_.var == "self.n_frac"]
    ok = ok and len(nfd) == 1 and I._bind_term(nfd[0]) == (
        "param", formals(init)[1])
    rep.check(ok, "C16-R4", qual(call), "the array inverse divides by 2 ** "
              "n_frac", construct="array inverse scale", node=call)
    # deprecated fix_to_float: sign-bit test and adjustment
    fn = program.get(MOD + ":fix_to_float")
    inner = program.get(MOD + ":fix_to_float.kbits")
    F = Terms(fn)
    ffl = Flow(fn)
    K = Terms(inner, outer=(F, _def_node(F, inner)))
    signed, n_bits, n_frac = formals(fn)
    vname = formals(inner)[0]
    VAL = ("param", vname)
    NB = Poly.atom(n_bits)
    ok_adj = ok_test = False
    detail = ""
    for b_ in K.binds:
        if b_.var != vname or b_.mode == "param":
            continue
        t = K._bind_term(b_)
        if not (t[0] == "binop" and t[1] == "Sub" and t[2] == VAL):
            continue
        ok_adj = _poly(ffl, t[3]) == ffl._pow2(NB)
        for c, pol in K.all_facts(b_.node):
            if not pol or c == ("param", signed):
                continue
            detail = show(c)
            if c[0] == "binop" and c[1] == "BitAnd" and VAL in (c[2], c[3]):
                bit = c[3] if c[2] == VAL else c[2]
                ok_test = _poly(ffl, bit) == ffl._pow2(NB - 1)
            elif c[0] == "cmp" and c[1] in ("Lt", "LtE") and c[3] == VAL:
                rhs = _poly(ffl, c[2])
                ok_test = (c[1] == "LtE" and rhs == ffl._pow2(NB - 1)) or \
                    (c[1] == "Lt" and rhs == ffl._pow2(NB - 1) - 1)
    if not detail:
        # no subtraction from the word under a test was found: the two's
        # complement adjustment is made in a form (a helper, an arithmetic
        # identity) these rules do not read
        raise AnalysisError("fix_to_float.kbits: the sign adjustment "
                            "(value - 2 ** n_bits under a sign test) was "
                            "not found in this form")
    rep.check(ok_adj and ok_test, "C16-R4", qual(inner), "a word is "
              "negative iff its sign bit (bit n_bits-1) is set; then 2 ** "
              "n_bits is subtracted (two's complement)",
              construct="sign test %s" % detail, node=inner,
              fail="fix_to_float decides the sign with '%s', which is not "
                   "the sign-bit test: the most negative word (only the "
                   "sign bit set) decodes as positive" % detail)
    fn2 = program.get(MOD + ":float_to_fix")
    in2 = program.get(MOD + ":float_to_fix.bitsk")
    F2 = Terms(fn2)
    f2 = Flow(fn2)
    K2 = Terms(in2, outer=(F2, _def_node(F2, in2)))
    rets = [K2.term(r.value) for r in returns_of(in2) if r.value is not None]
    okm = False
    if len(rets) == 1 and rets[0][0] == "binop" and rets[0][1] == "BitAnd":
        for m_ in (rets[0][2], rets[0][3]):
            mm = plain(m_)
            if mm[0] == "call" and mm[1] == ("global", "int") and \
                    len(mm[2]) == 1:
                mm = mm[2][0]
            try:
                if _poly(f2, mm) == f2._pow2(Poly.atom(formals(fn2)[1])) - 1:
                    okm = True
            except AnalysisError:
                pass
    rep.check(okm, "C16-R4", qual(fn2), "the deprecated encoder masks the "
              "word to n_bits", construct="float_to_fix mask", node=fn2)


def r1_stateless(program, rep):
    """The conversions are functions of the format and the value: a function
    of the module that stores into module-level state does so only as a memo
    whose entries are determined by their keys (decided by MEMO; the format
    parameters are folded over signed x 1..64 bits)."""
    from ..effects import Effects
    from ..memo import memo_verdict
    eff = Effects(program)
    for q, fn in program.functions(MOD):
        inst = "%s:%s" % (MOD, q)
        if getattr(fn, "_virtual", False):
            continue
        for e in eff.analyse(fn):
            if e.kind != "mutate":
                continue
            for o in e.origins:
                if o[0] != "G" or o[1] == "?":
                    continue
                dom = {}
                for a_ in formals(fn):
                    if a_ == "signed":
                        dom[a_] = (True, False)
                    elif a_ in ("n_bits", "n_frac"):
                        dom[a_] = range(1, 65) if a_ == "n_bits" else \
                            range(0, 65)
                verdict, text = memo_verdict(fn, o[2], dom)
                if verdict == "unknown":
                    raise AnalysisError("%s writes the module-level %s: %s"
                                        % (q, o[2], text))
                rep.check(verdict == "ok", "C16-R1", inst, "module-level %s "
                          "is a memo: %s" % (o[2], text),
                          construct="module state %s" % o[2], node=e.node,
                          fail="%s answers from the module-level %s: %s" % (
                              q, o[2], text))


r1_stateless.helper_aware = True



def r2_deprecated_bounds(program, folder, rep):
    """The bounds the deprecated float_to_fix clips to, folded for every
    format validate_fp_params admits: -(2 ** (n_int - n_frac)) (0 unsigned)
    and (2 ** n_int - 1) / 2 ** n_frac.  A lower bound that is too low lets
    inputs below the range through the clip, and the two's-complement step
    wraps them instead of saturating."""
    from ..constfold import FoldError
    try:
        fn = program.get(MOD + ":validate_fp_params")
    except AnalysisError:
        raise AnalysisError("validate_fp_params not found: the bounds of "
                            "the deprecated converters are not read")
    inst = qual(fn)
    ps = formals(fn)
    if len(ps) != 3:
        raise AnalysisError("validate_fp_params: signature")
    bad_lo = bad_hi = None
    n = 0
    for b in range(1, 65):
        for sg in (True, False):
            n_int = b - 1 if sg else b
            for nf in range(0, n_int + 1):
                try:
                    env = fold_body(folder, fn, {ps[0]: sg, ps[1]: b,
                                                 ps[2]: nf})
                except FoldError as e:
                    raise AnalysisError("validate_fp_params does not fold: "
                                        "%s" % e)
                ex = env.get("<exit>")
                if not (isinstance(ex, tuple) and ex[0] == "ret" and
                        isinstance(ex[1], tuple) and len(ex[1]) == 2) or \
                        any(isinstance(v, (FoldErrorValue, Opaque))
                            for v in ex[1]):
                    raise AnalysisError("validate_fp_params: what it "
                                        "returns for (%s, %d, %d) does not "
                                        "fold to a pair" % (sg, b, nf))
                lo, hi = ex[1]
                n += 1
                wlo = -(2 ** (n_int - nf)) if sg else 0
                whi = (2 ** n_int - 1) / float(2 ** nf)
                if lo != wlo and bad_lo is None:
                    bad_lo = (sg, b, nf, lo, wlo)
                if abs(hi - whi) > abs(whi) * 2.0 ** -50 and bad_hi is None:
                    bad_hi = (sg, b, nf, hi, whi)
    rep.check(bad_lo is None, "C16-R2", inst, "the lower clip bound is "
              "-(2 ** (n_int - n_frac)), 0 unsigned, for all %d formats" % n,
              construct="deprecated lower bound", node=fn, positive=True,
              fail="for signed=%s, n_bits=%d, n_frac=%d the lower clip "
                   "bound folds to %r, the format's lowest value is %r: "
                   "inputs between the two are not saturated, and the "
                   "two's-complement step wraps them" % (bad_lo or (0,) * 5))
    rep.check(bad_hi is None, "C16-R2", inst, "the upper clip bound is "
              "(2 ** n_int - 1) / 2 ** n_frac for all %d formats" % n,
              construct="deprecated upper bound", node=fn, positive=True,
              fail="for signed=%s, n_bits=%d, n_frac=%d the upper clip "
                   "bound folds to %r, the format's highest value is %r"
                   % (bad_hi or (0,) * 5))


def r2_bounds_on_scaled(program, rep):
    """In the array converter, whatever is compared with or clipped against
    the integer bounds (self.min_value / self.max_value) is the *scaled*
    value (values * 2 ** n_frac), never the caller's unscaled array: a
    saturation decided on the unscaled input forces in-range elements to
    the extreme whenever n_frac is not 0 (and leaves out-of-range ones)."""
    fn = program.get(MOD + ":NumpyFloatToFixConverter.__call__")
    inst = qual(fn)
    T = Terms(fn)
    ps = formals(fn)
    if len(ps) < 2:
        raise AnalysisError("NumpyFloatToFixConverter.__call__: signature")
    RAW = ("param", ps[1])

    def is_bound(t):
        t = plain(t)
        return t[0] == "attr" and t[2] in ("max_value", "min_value") and \
            t[1] == ("param", ps[0])
    n = 0
    for c in ast.walk(fn):
        sides = None
        if isinstance(c, ast.Compare) and len(c.ops) == 1:
            sides = [c.left, c.comparators[0]]
        elif isinstance(c, ast.Call) and isinstance(c.func, ast.Attribute) \
                and c.func.attr in ("clip", "minimum", "maximum",
                                    "fmin", "fmax") and len(c.args) >= 2:
            sides = list(c.args[:3])
        if sides is None:
            continue
        try:
            node = T.cfg.node_containing(c)
            ts = [T.term(x, node) for x in sides]
        except AnalysisError:
            continue
        if not any(is_bound(t) for t in ts):
            continue
        n += 1
        raw = [t for t in ts if plain(t) == RAW]
        rep.check(not raw, "C16-R2", inst, "what is compared with / clipped "
                  "against the integer bounds is the scaled value",
                  construct="bound applied to the unscaled input", node=c,
                  fail="'%s' applies the integer bound (min_value / "
                       "max_value, in units of 2 ** -n_frac) to the caller's "
                       "unscaled array %s: for n_frac != 0 elements well "
                       "inside the range are forced to the extreme" % (
                           unparse(c)[:70], ps[1]), positive=True)
    if not n:
        raise AnalysisError("NumpyFloatToFixConverter.__call__: no use of "
                            "the integer bounds found")

def check(program, rep):
    program.module(MOD)
    folder = Folder(program)
    rep.guard("C16-R1", r1_scalar, program, rep)
    rep.guard("C16-R1", r1_stateless, program, rep)
    widths, bounds, fl, n_bits = rep.guard(
        "C16-R2", r2_array, program, folder, rep) or (None,) * 4
    rep.guard("C16-R3", r3_representable, program, folder, rep, widths, fl, n_bits)
    rep.guard("C16-R4", r4_inverse, program, rep)
    rep.guard("C16-R2", r2_bounds_on_scaled, program, rep)
    rep.guard("C16-R2", r2_deprecated_bounds, program, folder, rep)
    # the signed flag selects the clip bounds, the dtype and the sign
    # handling: each reader takes it the same way (FALSY, falsy.py)
    from .. import falsy
    rep.guard("C16-R2", falsy.rule, program, rep, "C16-R2", [MOD])
    rep.floor("C16-R2", 18)
    # the slips that are visible wherever they occur (NAMELINK, FALSY, STALE,
    # NOEFFECT, SLIPS - DESIGN.md 9.13-9.15), over the property's modules
    from .. import namelink as _nl
    rep.guard("C16-R5", _nl.rule, program, rep, "C16-R5",
              ['rig.type_casts'], floor=0)
    return finish(rep, program, EXPLANATION, NOT_DECIDED,
                  trusted=["IEEE-754 double conversion of Python ints in the "
                           "checker's interpreter (float(int))",
                           "ORDTYPE evaluator"], exhaustive=False)
