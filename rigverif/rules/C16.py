"""C16 - fixed-point conversion saturates, is monotone and inverts exactly.

R1 scalar: truncate with int() first, then clamp between the integer bounds
   (clamp structure by ORDTYPE); bounds are the format's extremes
R2 the array converter uses the same bounds and scale; dtype table complete
R3 the array converter clips in floating point: every integer bound must not
   round upwards when converted to a double
R4 inverse scales; deprecated unsigned-word variants: sign-bit test and
   two's-complement adjustment
"""
import ast

from ..core import AnalysisError, finish, unparse
from ..constfold import Folder, Opaque, fold_body, FoldErrorValue
from ..dataflow import Flow, chain, call_name
from ..ordtype import weak_orderings, Ordering, Evaluator
from ..poly import Poly
from ..util import calls_in, qual, formals, returns_of, has_fact

MOD = "rig.type_casts"

EXPLANATION = (
    "R1: float_to_fp's returned expression is evaluated abstractly on every "
    "weak ordering of (value, min, max) with min <= max and must be the "
    "clamp; the value clamped is int(scale * x) (truncation toward zero "
    "happens before clamping, against exact integer bounds); the bounds' "
    "normal forms are 2^(n-1)-1 / -2^(n-1) (signed) and 2^n-1 / 0. R2: "
    "NumpyFloatToFixConverter's bounds and scale have the same normal forms; "
    "its dtype table is folded and covers exactly the admitted (signed, "
    "bits) pairs with the matching numpy type. R3: for each admitted width "
    "the integer clip bounds are folded and converted to a double: a bound "
    "that rounds up makes np.clip let values through that overflow the "
    "cast. R4: scale exponents and operators of the inverse conversions; "
    "sign-bit test of fix_to_float.")
NOT_DECIDED = [
    "monotonicity, within-one-LSB and exact round trip over the float line "
    "(floating-point semantics; a numerical/runtime technique)",
    "numpy's clip/cast semantics beyond the representability of the bounds",
]


def r1_scalar(program, rep):
    fn = program.get(MOD + ":float_to_fp")
    inner = program.get(MOD + ":float_to_fp.bitsk")
    inst = qual(inner)
    fl = Flow(fn)
    signed, n_bits, n_frac = formals(fn)
    folder = Folder(program)
    bad = []
    n = 0
    for b in range(1, 65):
        for sg in (True, False):
            env = fold_body(folder, fn, {signed: sg, n_bits: b, n_frac: 0})
            mx, mn = env.get("max_v"), env.get("min_v")
            wmx = (1 << (b - 1)) - 1 if sg else (1 << b) - 1
            wmn = -(1 << (b - 1)) if sg else 0
            n += 1
            if (mx, mn) != (wmx, wmn) or isinstance(mx, bool):
                bad.append((sg, b, mn, mx))
    rep.check(not bad, "C16-R1", qual(fn), "scalar clamp bounds are the "
              "format's extremes (2^(n-1)-1 / -2^(n-1) signed, 2^n-1 / 0 "
              "unsigned) for every width 1..64 and both signednesses (%d "
              "formats folded)" % n, construct="scalar bounds %s" % (
                  bad[:2],), node=fn,
              fail="float_to_fp clamps at the wrong bounds for %d formats, "
                   "e.g. (signed, bits, min, max) = %s" % (len(bad),
                                                          bad[:2]))
    p2 = lambda e: fl._pow2(e)   # noqa
    scale = [d for d in fl.defs if d.var == "scale" and d.mode == "assign"]
    rep.check(len(scale) == 1 and fl.sym(scale[0].value, scale[0].node) ==
              p2(Poly.atom(n_frac)), "C16-R1", qual(fn),
              "scale = 2 ** n_frac", construct="scalar scale", node=fn)
    # inner: returned clamp over (int_val, min_v, max_v)
    ifl = Flow(inner)
    rets = returns_of(inner)
    if len(rets) != 1:
        raise AnalysisError("bitsk: one return expected")
    e = rets[0].value
    names = sorted(set(n.id for n in ast.walk(e) if isinstance(n, ast.Name)
                       and n.id not in ("max", "min", "int", "float")))
    valname = [n for n in names if n not in ("min_v", "max_v")]
    okshape = set(names) >= {"min_v", "max_v"} and len(valname) == 1 and \
        not any(isinstance(n, ast.Call) and call_name(n)[0] in ("int",
                                                                 "float")
                for n in ast.walk(e))
    rep.check(okshape, "C16-R1", inst, "the value returned is a min/max "
              "expression over the truncated value and the integer bounds "
              "(no conversion after clamping)",
              construct="clamp expression %s" % unparse(e), node=rets[0],
              fail="the returned value %s is not a clamp of the truncated "
                   "integer between the integer bounds (e.g. clamping in "
                   "floating point and truncating afterwards lets values "
                   "through for wide formats)" % unparse(e))
    if okshape:
        v = valname[0]
        terms = ["v", "lo", "hi"]
        bad = []
        n = 0
        for ranks in weak_orderings(3):
            o = Ordering(terms, ranks)
            r = o.rank
            if r["lo"] > r["hi"]:
                continue
            n += 1
            env = {v: Poly.atom("v"), "min_v": Poly.atom("lo"),
                   "max_v": Poly.atom("hi")}
            got = Evaluator(inner, o, env).ev(e)
            want_t = "lo" if r["v"] < r["lo"] else "hi" if r["v"] > r["hi"] \
                else "v"
            if o.sign(got - Poly.atom(want_t)) != 0:
                bad.append((ranks, got))
        rep.check(not bad, "C16-R1", inst, "the expression is clamp(v, min, "
                  "max) on all %d orderings with min <= max" % n,
                  construct="clamp orderings", node=rets[0],
                  fail="not a clamp: %s" % (bad[:2],))
        # the clamped value is int(scale * value)
        ds = ifl.reaching(v, ifl.cfg.node_of(rets[0]))
        okt = len(ds) == 1 and isinstance(ds[0].value, ast.Call) and \
            call_name(ds[0].value)[0] == "int" and \
            isinstance(ds[0].value.args[0], ast.BinOp) and \
            isinstance(ds[0].value.args[0].op, ast.Mult) and \
            {unparse(ds[0].value.args[0].left),
             unparse(ds[0].value.args[0].right)} == {"scale",
                                                    formals(inner)[0]}
        rep.check(okt, "C16-R1", inst, "the clamped value is int(scale * "
                  "value): truncation toward zero, in exact integers",
                  construct="truncate before clamp", node=inner)
    rep.floor("C16-R1", 4)


def r2_array(program, folder, rep):
    init = program.get(MOD + ":NumpyFloatToFixConverter.__init__")
    inst = qual(init)
    fl = Flow(init)
    _, signed, n_bits, n_frac = formals(init)
    bounds = {}
    # admitted widths and dtype table
    widths = None
    for n in ast.walk(init):
        if isinstance(n, ast.Compare) and chain(n.left) == n_bits and \
                isinstance(n.ops[0], ast.NotIn):
            widths = folder.eval(n.comparators[0], {}, init._module)
    cls = program.get(MOD + ":NumpyFloatToFixConverter")
    table = None
    for st in cls.body:
        if isinstance(st, ast.Assign) and chain(st.targets[0]) == "dtypes":
            table = {}
            for k, v in zip(st.value.keys, st.value.values):
                table[folder.eval(k, {}, init._module)] = unparse(v)
    ok = widths is not None and table is not None and \
        set(table) == set((s, b) for s in (True, False) for b in widths)
    rep.check(ok, "C16-R2", qual(cls), "the dtype table has exactly one "
              "entry per admitted (signed, bits) pair %s" % (widths,),
              construct="dtype keys", node=cls)
    if ok:
        for (s, b), v in sorted(table.items()):
            w = "np.%sint%d" % ("" if s else "u", b)
            rep.check(v == w, "C16-R2", qual(cls), "(%s, %d) -> %s" % (
                "signed" if s else "unsigned", b, w),
                construct="dtype (%s,%d) = %s" % (s, b, v), node=cls)
    dt = [d for d in fl.defs if d.var == "self.dtype"]
    rep.check(len(dt) == 1 and unparse(dt[0].value) == "self.dtypes[%s, %s]"
              % (signed, n_bits), "C16-R2", inst, "the dtype is looked up "
              "with (signed, n_bits)", construct="dtype lookup", node=init)
    nf = [d for d in fl.defs if d.var == "self.n_frac"]
    call = program.get(MOD + ":NumpyFloatToFixConverter.__call__")
    cfl = Flow(call)
    okc = False
    vals = formals(call)[1]
    steps = [d for d in cfl.defs if d.mode == "assign"]
    if len(steps) >= 2:
        a, b = steps[0], steps[1]
        okc = cfl.sym(a.value, a.node) == Poly.atom(vals) * cfl._pow2(
            Poly.atom("self.n_frac")) and isinstance(b.value, ast.Call) and \
            call_name(b.value)[0] == "clip" and \
            [unparse(x) for x in b.value.args] == [a.var, "self.min_value",
                                                   "self.max_value"]
    rep.check(okc and len(nf) == 1 and chain(nf[0].value) == n_frac,
              "C16-R2", qual(call), "array path: values * 2**n_frac, then "
              "clip(min_value, max_value), then cast",
              construct="array pipeline", node=call)
    rets = returns_of(call)
    okr = len(rets) == 1 and isinstance(rets[0].value, ast.Call) and \
        call_name(rets[0].value)[0] == "array" and any(
            k.arg == "dtype" and unparse(k.value) == "self.dtype"
            for k in rets[0].value.keywords)
    rep.check(okr, "C16-R2", qual(call), "the clipped values are cast to "
              "the sized integer type", construct="array cast", node=call)
    return widths, bounds, fl, n_bits


def r3_representable(program, folder, rep, widths, init_fl, n_bits):
    """Fold the integer bounds for each admitted (signed, width): they must
    equal the scalar converter's bounds (R2) and converting them to a double
    must not round them outwards (R3): np.clip compares in floating point."""
    init = program.get(MOD + ":NumpyFloatToFixConverter.__init__")
    inst = qual(init)
    _, signed, nb, nf = formals(init)
    for b in sorted(widths or []):
        for sg in (True, False):
            env = fold_body(folder, init, {signed: sg, nb: b, nf: 0})
            mx, mn = env.get("self.max_value"), env.get("self.min_value")
            wmx = (1 << (b - 1)) - 1 if sg else (1 << b) - 1
            wmn = -(1 << (b - 1)) if sg else 0
            what = "%s %d-bit" % ("signed" if sg else "unsigned", b)
            rep.check((mx, mn) == (wmx, wmn), "C16-R2", inst,
                      "array converter %s: clip bounds %d / %d, the same as "
                      "the scalar converter's" % (what, wmn, wmx),
                      construct="array bounds %s min=%r max=%r" % (what, mn,
                                                                   mx),
                      node=init,
                      fail="the array converter clips %s values to [%r, %r] "
                           "but the scalar converter (and the format) has "
                           "[%d, %d]: the two disagree at an end of the "
                           "range" % (what, mn, mx, wmn, wmx))
            if not isinstance(mx, int) or not isinstance(mn, int):
                continue
            fmx, fmn = float(mx), float(mn)
            ok = (int(fmx) <= mx) and (int(fmn) >= mn)
            rep.check(ok, "C16-R3", inst,
                      "%s: clip bounds %d / %d are exactly representable "
                      "(or round inwards) as doubles" % (what, mn, mx),
                      construct="clip bound %s max=%d rounds to %d" % (
                          what, mx, int(fmx)), node=init,
                      fail="%s: the clip bound %d becomes %d as a double, so "
                           "np.clip lets values up to that through and the "
                           "cast wraps around: a large positive input "
                           "converts to %s" % (
                               what, mx, int(fmx), "the most negative value"
                               if sg else "0"))
    rep.floor("C16-R3", 8)


def r4_inverse(program, rep):
    fn = program.get(MOD + ":fp_to_float")
    fl = Flow(fn)
    nf = formals(fn)[0]
    sc = [d for d in fl.defs if d.var == "scale"]
    ok = len(sc) == 1 and fl.sym(sc[0].value, sc[0].node) == fl._pow2(
        -Poly.atom(nf))
    inner = program.get(MOD + ":fp_to_float.kbits")
    r = returns_of(inner)
    ok = ok and len(r) == 1 and isinstance(r[0].value, ast.BinOp) and \
        isinstance(r[0].value.op, ast.Mult) and \
        {unparse(r[0].value.left), unparse(r[0].value.right)} == \
        {"scale", formals(inner)[0]}
    rep.check(ok, "C16-R4", qual(fn), "fp_to_float multiplies by 2 ** "
              "(-n_frac)", construct="scalar inverse scale", node=fn)
    call = program.get(MOD + ":NumpyFixToFloatConverter.__call__")
    cfl = Flow(call)
    r = returns_of(call)
    ok = len(r) == 1 and isinstance(r[0].value, ast.BinOp) and \
        isinstance(r[0].value.op, ast.Div) and \
        chain(r[0].value.left) == formals(call)[1] and \
        cfl.sym(r[0].value.right, cfl.cfg.node_of(r[0])) == cfl._pow2(
            Poly.atom("self.n_frac"))
    init = program.get(MOD + ":NumpyFixToFloatConverter.__init__")
    ifl = Flow(init)
    nfd = [d for d in ifl.defs if d.var == "self.n_frac"]
    ok = ok and len(nfd) == 1 and chain(nfd[0].value) == formals(init)[1]
    rep.check(ok, "C16-R4", qual(call), "the array inverse divides by 2 ** "
              "n_frac", construct="array inverse scale", node=call)
    # deprecated fix_to_float: sign-bit test and adjustment
    fn = program.get(MOD + ":fix_to_float")
    inner = program.get(MOD + ":fix_to_float.kbits")
    ifl = Flow(inner)
    signed, n_bits, n_frac = formals(fn)
    v = formals(inner)[0]
    NB = Poly.atom(n_bits)
    adj = [d for d in ifl.defs if d.var == v and d.mode == "aug"]
    ok_adj = len(adj) == 1 and isinstance(adj[0].value.op, ast.Sub) and \
        ifl.sym(adj[0].value.value, adj[0].node) == ifl._pow2(NB)
    ok_test = False
    detail = ""
    if adj:
        for cond, pol, a in ifl.facts(adj[0].node):
            if not pol:
                continue
            t = unparse(cond)
            if t == signed:
                continue
            detail = t
            if isinstance(cond, ast.BinOp) and isinstance(cond.op,
                                                          ast.BitAnd):
                sides = [cond.left, cond.right]
                bit = [x for x in sides if chain(x) != v]
                ok_test = len(bit) == 1 and ifl.sym(bit[0], a) == \
                    ifl._pow2(NB - 1)
            elif isinstance(cond, ast.Compare) and len(cond.ops) == 1 and \
                    chain(cond.left) == v:
                rhs = ifl.sym(cond.comparators[0], a)
                opn = type(cond.ops[0]).__name__
                ok_test = (opn == "GtE" and rhs == ifl._pow2(NB - 1)) or \
                    (opn == "Gt" and rhs == ifl._pow2(NB - 1) - 1)
    rep.check(ok_adj and ok_test, "C16-R4", qual(inner), "a word is "
              "negative iff its sign bit (bit n_bits-1) is set; then 2 ** "
              "n_bits is subtracted (two's complement)",
              construct="sign test %s" % detail, node=inner,
              fail="fix_to_float decides the sign with '%s', which is not "
                   "the sign-bit test: the most negative word (only the "
                   "sign bit set) decodes as positive" % detail)
    fn2 = program.get(MOD + ":float_to_fix")
    f2 = Flow(fn2)
    mk = [d for d in f2.defs if d.var == "mask"]
    okm = len(mk) == 1 and isinstance(mk[0].value, ast.Call) and \
        f2.sym(mk[0].value.args[0], mk[0].node) == f2._pow2(
            Poly.atom(formals(fn2)[1])) - 1
    rep.check(okm, "C16-R4", qual(fn2), "the deprecated encoder masks the "
              "word to n_bits", construct="float_to_fix mask", node=fn2)


def check(program, rep):
    program.module(MOD)
    folder = Folder(program)
    rep.guard("C16-R1", r1_scalar, program, rep)
    widths, bounds, fl, n_bits = rep.guard(
        "C16-R2", r2_array, program, folder, rep) or (None,) * 4
    rep.guard("C16-R3", r3_representable, program, folder, rep, widths, fl, n_bits)
    rep.guard("C16-R4", r4_inverse, program, rep)
    rep.floor("C16-R2", 18)
    return finish(rep, program, EXPLANATION, NOT_DECIDED,
                  trusted=["IEEE-754 double conversion of Python ints in the "
                           "checker's interpreter (float(int))",
                           "ORDTYPE evaluator"], exhaustive=False)
