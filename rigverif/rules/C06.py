"""C06 - SCP bursts complete each command exactly once despite loss and
reordering.  All rules are over SCPConnection.send_scp_burst (one CFG) plus
the consts.py tables.

R1 window invariant  R2 fresh sequence numbers  R3 exactly-once hand-off
R4 retry accounting  R5 return-code partition  R6 reply parsing offsets
"""
import ast

from ..core import AnalysisError, finish, unparse
from ..constfold import Folder, consts_for
from ..dataflow import Flow, chain, call_name
from ..poly import Poly, le, lt, entails
from ..terms import Terms, plain, match, V, ANY, show, subterms, mk_cmp, \
    is_none, stores, method_calls, alternatives, owner_views, one_level, \
    facts_at
from ..util import calls_in, qual, has_fact, raises_of, raise_name

MOD = "rig.machine_control.scp_connection"
CONSTS = "rig.machine_control.consts"
FN = MOD + ":SCPConnection.send_scp_burst"

# SC&MP / SARK return codes (spinnaker_tools sark.h, enum rc_code) - the wire
# values the machine actually sends, and which of them SC&MP documents as
# transient ("retry") conditions.
RC_WIRE = {"ok": 0x80, "len": 0x81, "sum": 0x82, "cmd": 0x83, "arg": 0x84,
           "port": 0x85, "timeout": 0x86, "route": 0x87, "cpu": 0x88,
           "dead": 0x89, "buf": 0x8a, "p2p_noreply": 0x8b,
           "p2p_reject": 0x8c, "p2p_busy": 0x8d, "p2p_timeout": 0x8e,
           "pkt_tx": 0x8f}
RC_RETRY = {"sum", "p2p_busy"}

EXPLANATION = (
    "Typestate / dominance analysis of the burst loop: the outstanding table "
    "grows at exactly one site, which is dominated by a still-valid "
    "'len(table) < window' test and by a still-valid 'seq not in table' test "
    "for the very key inserted (facts are invalidated by any re-definition "
    "or mutation in between); callbacks are only invoked on pairs taken from "
    "the completion queue, which is only fed where the matching entry has "
    "just been popped from the table; retransmission is dominated by "
    "deadline-expired and tries-not-exhausted tests and followed by the "
    "try-count increment and a deadline recomputed from the current time; "
    "the timeout error needs expired-and-exhausted; the return-code tables "
    "are folded and checked to partition the enum, whose wire values are "
    "compared with the SC&MP table kept in the checker.")
NOT_DECIDED = [
    "real-time behaviour (select timeout values)",
    "sequence-number reuse after 65536 commands while one is still "
    "outstanding beyond the skip loop (acknowledged XXX in the source)",
    "malformed / short datagrams",
    "termination is not proved beyond: every retransmission increments the "
    "try counter that bounds it",
]


def _table_mutations(fl, var):
    out = []
    for d in fl.defs:
        if d.var == var and d.mode in ("mut", "assign", "aug", "del"):
            out.append(d)
    return out


class _Burst(object):
    """The anchors of send_scp_burst, found on value terms (in the function
    itself or in its nested helpers)."""

    def __init__(self, program):
        self.fn = fn = program.get(FN)
        self.T = T = Terms(fn)
        self.inst = qual(fn)
        ps = [a.arg for a in fn.args.args]
        if len(ps) < 4:
            raise AnalysisError("send_scp_burst signature changed")
        self.window = ("param", ps[2])
        found = []
        for n in ast.walk(fn):
            if isinstance(n, ast.Assign) and len(n.targets) == 1 and \
                    isinstance(n.targets[0], ast.Subscript):
                for view in owner_views(T, n):
                    node = view.cfg.node_of(n)
                    val = view.term(n.value, node)
                    pv = plain(val)
                    if pv[0] == "call" and pv[1][0] in ("global", "local") \
                            and pv[1][1] == "TransmittedPacket":
                        found.append((view, node, n, view.term(
                            n.targets[0].value, node), view.term(
                                n.targets[0].slice, node), val))
        if len(found) != 1:
            raise AnalysisError("send_scp_burst: expected exactly one "
                                "insertion of a TransmittedPacket, found %d"
                                % len(found))
        (self.view, self.snode, self.store, self.TABLE, self.KEY,
         self.ENTRY) = found[0]

    def facts(self):
        return self.view.full_facts(self.snode)


def _all_views(T):
    """(view, function) for the function and each nested helper call site."""
    out = [(T, T.fn)]
    for sub in ast.walk(T.fn):
        if isinstance(sub, ast.FunctionDef) and sub is not T.fn:
            try:
                for v in T.inners(sub):
                    out.append((v, sub))
            except AnalysisError:
                pass
    return out


def _view_calls(T, names):
    """method calls ``recv.<name>(...)`` in the function or its helpers:
    [(view, node, call, receiver term, [arg terms])]."""
    out = []
    for view, f in _all_views(T):
        for c in ast.walk(f):
            if isinstance(c, ast.Call) and isinstance(c.func, ast.Attribute) \
                    and c.func.attr in names and _own(c, f):
                n = view.cfg.node_containing(c)
                out.append((view, n, c, view.term(c.func.value, n),
                            [view.term(a, n) for a in c.args]))
    return out


def r1_window(program, rep, B):
    T, inst = B.T, B.inst
    pt = plain(B.TABLE)
    rep.check(B.TABLE[0] == "new" and pt in (("dict", ()), (
        "call", ("global", "dict"), (), ())), "C06-R1", inst,
        "the outstanding table starts empty", construct="table init",
        node=B.fn)
    for view, n, c, recv, args in _view_calls(
            T, ("update", "setdefault", "__setitem__", "pop", "popitem",
                "clear")):
        if recv != B.TABLE:
            continue
        rep.check(c.func.attr in ("pop", "popitem", "clear"), "C06-R1", inst,
                  "other mutation of the table only removes entries (%s)" %
                  c.func.attr, construct="table mutation %s" % c.func.attr,
                  node=c,
                  fail="the outstanding table is also modified by '%s', "
                       "which may add entries outside the window test" %
                       unparse(c)[:60])
    n_other = 0
    for view, f in _all_views(T):
        for n_, st, base, key, val in stores(getattr(view, "t", view)):
            if st is not B.store and view.term(
                    st.targets[0].value if isinstance(st, ast.Assign)
                    else st.target.value, n_) == B.TABLE:
                n_other += 1
    rep.check(n_other == 0, "C06-R1", inst, "entries are added to the "
              "outstanding table at one site only",
              construct="table stores %d" % (n_other + 1), node=B.fn)
    L = ("call", ("global", "len"), (B.TABLE,), ())
    ok = (mk_cmp("Lt", L, B.window), True) in B.facts()
    if not ok:
        # a window enforced by counting (e.g. at most window - len(table)
        # items taken per round with islice) instead of a test before each
        # insertion is not something this rule follows
        lp_ = B.store
        while lp_ is not None and not isinstance(lp_, (ast.For, ast.While)):
            lp_ = getattr(lp_, "_parent", None)
        if isinstance(lp_, ast.For) and any(
                isinstance(x, ast.Call) and call_name(x)[0] in (
                    "islice", "range", "zip") for x in ast.walk(lp_.iter)):
            raise AnalysisError("send_scp_burst: the number of commands "
                                "added per round is bounded by the loop's "
                                "iterable, not by a test before each "
                                "insertion; that form is not analysed")
    rep.check(ok, "C06-R1", inst,
              "the only insertion into the outstanding table is dominated by "
              "a still-valid test len(table) < window_size, so len <= "
              "window_size always", construct="window guard", node=B.store,
              fail="a command can be added to the outstanding table without "
                   "len(table) < window_size having been established since "
                   "the last change of the table")


def _fresh_from_helper(B):
    """The key comes from a local helper that returns only numbers it has
    tested not to be in the table, and the table is not changed between that
    call and the insertion."""
    key = B.store.targets[0].slice
    vt = getattr(B.view, "t", B.view)
    if not isinstance(key, ast.Name):
        return False
    binds = [b_ for b_ in vt.binds if b_.var == key.id and
             b_.mode == "assign"]
    if len(binds) != 1 or not (isinstance(binds[0].value, ast.Call) and
                               isinstance(binds[0].value.func, ast.Name)):
        return False
    helper = vt._nested.get(binds[0].value.func.id)
    if helper is None:
        return False
    views = [v for v in B.T.inners(helper)]
    if len(views) != 1:
        return False
    hv = views[0]
    rets = [r for r in ast.walk(helper) if isinstance(r, ast.Return) and
            _own(r, helper) and r.value is not None]
    if not rets:
        return False
    for r in rets:
        rn = hv.cfg.node_of(r)
        rt = hv.t.term(r.value, rn)
        facts = [(hv._x(t), p) for t, p in hv.t.all_facts(rn)]
        if not any(p is False and t[0] == "cmp" and t[1] == "In" and
                   t[3] == B.TABLE and t[2] == hv._x(rt) for t, p in facts):
            return False
    # nothing touches the table between the helper call and the insertion
    cn = binds[0].node
    for n in vt.cfg.nodes:
        if n is B.snode or n is cn or not (vt.cfg.reaches(cn, n) and
                                           vt.cfg.reaches(n, B.snode)):
            continue
        for sub in ast.walk(n.ast) if n.ast is not None else []:
            if isinstance(sub, ast.Call) and \
                    isinstance(sub.func, ast.Attribute) and \
                    B.view.term(sub.func.value, n) == B.TABLE and \
                    sub.func.attr not in ("get", "values", "items", "keys"):
                return False
    return True


def _fresh_from_search(program, B):
    """``for key in self.seq: if key not in table: break`` - the counter
    never runs out (seqs() is an endless generator), so the loop is only
    left through the break, where the key has just been tested."""
    key = B.store.targets[0].slice
    vt = getattr(B.view, "t", B.view)
    if not isinstance(key, ast.Name):
        return False
    loops = [lp for lp in ast.walk(vt.fn) if isinstance(lp, ast.For) and
             isinstance(lp.target, ast.Name) and lp.target.id == key.id and
             id(lp) in vt.cfg.loop_head]
    if len(loops) != 1 or loops[0].orelse:
        return False
    lp = loops[0]
    SEQ = ("attr", ("param", "self"), "seq")
    if B.view.term(lp.iter, vt.cfg.loop_head[id(lp)]) != SEQ:
        return False
    brks = [b_ for b_ in ast.walk(lp) if isinstance(b_, ast.Break)]
    if len(brks) != 1 or any(isinstance(x, (ast.Return, ast.Continue))
                             for x in ast.walk(lp)):
        return False
    bn = ([n for n in vt.cfg.nodes if n.ast is brks[0]] or [None])[0]
    if bn is None:
        return False
    E = B.view.term(ast.Name(id=key.id, ctx=ast.Load()), bn)
    if (mk_cmp("In", E, B.TABLE), False) not in B.view.all_facts(bn):
        return False
    # the generator never ends
    seqs = program.get(MOD + ":seqs")
    tops = [s_ for s_ in seqs.body if isinstance(s_, ast.While)]
    if len(tops) != 1 or not (isinstance(tops[0].test, ast.Constant) and
                              tops[0].test.value) or any(
            isinstance(x, (ast.Break, ast.Return)) for x in ast.walk(seqs)):
        return False
    # nothing rebinds the key or touches the table before the insertion
    pre = vt.cfg.stmt_node[id(lp)]
    for n in vt.cfg.nodes:
        if n is B.snode or n is bn or n is pre or not (
                vt.cfg.reaches(bn, n, avoid=[pre]) and
                vt.cfg.reaches(n, B.snode, avoid=[pre])) or \
                _own_inside(n.ast, lp):
            continue
        for sub in ast.walk(n.ast) if n.ast is not None else []:
            if isinstance(sub, ast.Call) and \
                    isinstance(sub.func, ast.Attribute) and \
                    B.view.term(sub.func.value, n) == B.TABLE and \
                    sub.func.attr not in ("get", "values", "items", "keys"):
                return False
            if isinstance(sub, ast.Name) and sub.id == key.id and \
                    isinstance(sub.ctx, ast.Store):
                return False
    return True


def _own_inside(node, anc):
    n = node
    while n is not None:
        if n is anc:
            return True
        n = getattr(n, "_parent", None)
    return False



def _harms_outstanding(st):
    for n in ast.walk(st):
        if isinstance(n, ast.Call):
            f = n.func
            nm = f.attr if isinstance(f, ast.Attribute) else (
                f.id if isinstance(f, ast.Name) else "")
            if nm in ("pop", "popitem", "clear", "send", "sendto",
                      "callback", "appendleft", "append", "remove") or \
                    "callback" in nm:
                return True
        elif isinstance(n, ast.Delete):
            return True
        elif isinstance(n, (ast.Assign, ast.AugAssign)):
            tg = n.targets if isinstance(n, ast.Assign) else [n.target]
            for t in tg:
                if isinstance(t, ast.Attribute) and t.attr == "n_tries":
                    return True
                if isinstance(t, ast.Attribute) and \
                        t.attr in ("timeout_time", "deadline"):
                    if not (isinstance(n, ast.AugAssign) and
                            isinstance(n.op, ast.Add)):
                        return True
                if isinstance(t, ast.Subscript):
                    return True     # an entry of a table replaced
        elif isinstance(n, (ast.Raise, ast.Return)):
            return True
    return False

def r2_fresh(program, rep, B, folder):
    T, inst = B.T, B.inst
    fresh = (mk_cmp("In", B.KEY, B.TABLE), False) in B.facts()
    if not fresh:
        fresh = _fresh_from_helper(B)
    if not fresh:
        fresh = _fresh_from_search(program, B)
    if not fresh and any(
            st_[0] in ("call", "callv") and st_[1] == ("global", "next") and
            st_[2] and any(x_[0] in ("call", "callv") and
                           x_[1][0] in ("local", "attr") and
                           x_[1] != ("attr", ("param", "self"), "seq")
                           for x_ in subterms(st_[2][0]))
            for st_ in subterms(B.KEY)):
        # the key comes out of a generator made by a helper: whether that
        # generator only hands out numbers that are not outstanding is not
        # followed
        raise AnalysisError("send_scp_burst: the sequence number is taken "
                            "from a generator built by a helper; how it "
                            "avoids outstanding numbers is not analysed")
    if not fresh and any(
            getattr(h, "_virtual", False) for h in ast.walk(B.T.fn)) and any(
                x[0] in ("call", "callv") for x in alternatives(B.KEY)
                if isinstance(x, tuple)):
        # the number comes out of a helper the reference tree did not have
        # and whose search for an unused number was not recognised above
        raise AnalysisError("send_scp_burst: the sequence number is the "
                            "result of a new helper; how it avoids "
                            "outstanding numbers was not read")
    rep.check(fresh, "C06-R2", inst,
              "the key inserted has just been tested not to be in the table "
              "(the test dominates the insertion and neither the key nor the "
              "table changed since)", construct="fresh key guard",
              node=B.store,
              fail="the sequence number used as key may still be "
                   "outstanding: no valid 'seq not in table' fact dominates "
                   "the insertion; the older command's entry would be "
                   "overwritten and its reply ignored")
    SEQ = ("attr", ("param", "self"), "seq")
    okc = all((x[0] == "callv" and x[1] == ("global", "next") and
               x[2][:1] == (SEQ,)) or x[:2] == ("elem", SEQ)
              for x in alternatives(B.KEY))
    rep.check(okc, "C06-R2", inst, "sequence numbers are drawn from the "
              "per-connection counter self.seq", construct="seq source",
              node=B.store)
    okp = False
    for st_ in subterms(B.ENTRY):
        if st_[0] in ("call", "callv") and st_[1][0] == "global" and \
                st_[1][1] == "SCPPacket":
            okp = dict(st_[3]).get("seq") == B.KEY
    rep.check(okp, "C06-R2", inst, "the packet sent carries the sequence "
              "number it is filed under", construct="packet seq = key",
              node=B.store)
    mod = program.module(MOD)
    creators = [c for c in ast.walk(mod.tree) if isinstance(c, ast.Call) and
                call_name(c)[0] == "seqs"]
    init = program.get(MOD + ":SCPConnection.__init__")
    okw = len(creators) == 1 and any(c is x for x in ast.walk(init)
                                     for c in creators)
    from ..core import enclosing_def
    writers = sorted(set(getattr(enclosing_def(n), "name", "?")
                         for n in ast.walk(mod.tree)
                         if isinstance(n, ast.Attribute) and
                         isinstance(n.ctx, ast.Store) and
                         chain(n) == "self.seq"))
    rep.check(okw and writers == ["__init__"], "C06-R2", inst,
              "the counter is created once, in __init__, so numbering "
              "continues across bursts", construct="seq counter creation",
              node=init)
    r2_seq_numbers(program, rep, folder)


def _seq_induction(fn, var, mask):
    """-> (proved, why not).  The counter ``var`` of seqs() starts at a
    constant and is updated by one assignment whose value is a conditional
    expression on a comparison of var and mask; 0 <= var <= mask is shown
    inductive.  Any other form: AnalysisError."""
    I, Mk = Poly.atom(var), Poly.atom(mask)

    def pol(e):
        if isinstance(e, ast.Constant) and isinstance(e.value, int) and \
                not isinstance(e.value, bool):
            return Poly.const(e.value)
        if isinstance(e, ast.Name) and e.id == var:
            return I
        if isinstance(e, ast.Name) and e.id == mask:
            return Mk
        if isinstance(e, ast.BinOp) and isinstance(e.op, (ast.Add, ast.Sub)):
            l_, r_ = pol(e.left), pol(e.right)
            return l_ + r_ if isinstance(e.op, ast.Add) else l_ - r_
        raise AnalysisError("seqs(): '%s' is not a form the range proof "
                            "reads" % unparse(e)[:40])
    binds = [n for n in ast.walk(fn) if isinstance(n, (ast.Assign,
                                                        ast.AugAssign))
             and any(isinstance(x, ast.Name) and x.id == var and
                     isinstance(x.ctx, ast.Store) for x in ast.walk(n))]
    inits = [b_ for b_ in binds if isinstance(b_, ast.Assign) and
             isinstance(b_.value, ast.Constant)]
    steps = [b_ for b_ in binds if b_ not in inits]
    if len(inits) != 1 or len(steps) != 1 or not (
            isinstance(steps[0], ast.Assign) and
            isinstance(steps[0].value, ast.IfExp) and
            isinstance(steps[0].value.test, ast.Compare) and
            len(steps[0].value.test.ops) == 1):
        raise AnalysisError("seqs(): the counter is not started at a "
                            "constant and advanced by one conditional "
                            "expression; that form is not analysed")
    inv = [le(0, I), le(I, Mk), le(0, Mk)]
    i0 = pol(inits[0].value)
    if not entails([le(0, Mk)], [le(0, i0), le(i0, Mk)]):
        return False, "it starts at %s" % unparse(inits[0].value)
    t = steps[0].value
    l_, r_ = pol(t.test.left), pol(t.test.comparators[0])
    op = type(t.test.ops[0]).__name__
    table = {"Lt": ([lt(l_, r_)], [le(r_, l_)]),
             "LtE": ([le(l_, r_)], [lt(r_, l_)]),
             "Gt": ([lt(r_, l_)], [le(l_, r_)]),
             "GtE": ([le(r_, l_)], [lt(l_, r_)])}
    if op in ("Eq", "NotEq") and {repr(l_), repr(r_)} == {repr(I),
                                                          repr(Mk)}:
        # var == mask / var != mask, with var <= mask: below it otherwise
        yes, no = [le(I, Mk), le(Mk, I)], [lt(I, Mk)]
        if op == "NotEq":
            yes, no = no, yes
    elif op in table:
        yes, no = table[op]
    else:
        raise AnalysisError("seqs(): the wrap test is not a comparison this "
                            "rule reads")
    for cond, e in ((yes, t.body), (no, t.orelse)):
        v = pol(e)
        if not entails(inv + cond, [le(0, v), le(v, Mk)]):
            return False, "from a counter in 0..mask the update '%s' " \
                "gives %s on the branch where (%s) is %s" % (
                    unparse(steps[0])[:50], unparse(e), unparse(t.test),
                    "true" if cond is yes else "false")
    return True, ""


def r2_seq_numbers(program, rep, folder):
    """seqs(): what is yielded is 0 or something ANDed with the mask as the
    last operation, and the mask is, by default, the 16 bits of the wire
    field (C15: '<2H').  A mask applied before the increment yields mask + 1
    at the wrap - a number the field cannot hold: struct.error on a healthy
    machine after 65536 commands."""
    seqs = program.get(MOD + ":seqs")
    mask_default = None
    if seqs.args.defaults:
        mask_default = folder.eval(seqs.args.defaults[-1], {}, seqs._module)
    S = Terms(seqs)
    if not seqs.args.args:
        raise AnalysisError("seqs(): no mask parameter")
    M = ("param", seqs.args.args[0].arg)
    ys = [y for y in ast.walk(seqs) if isinstance(y, ast.Yield)]
    if not ys or any(not isinstance(y.value, ast.Name) for y in ys) or \
            len(set(y.value.id for y in ys)) != 1:
        raise AnalysisError("seqs(): the number yielded is not one local "
                            "variable")
    okm = True
    late = []
    n = 0
    for y in ys:
        yn = S.cfg.node_containing(y)
        for t in alternatives(S.term(y.value, yn)):
            t = plain(t)
            n += 1
            if t[0] == "const" and isinstance(t[1], int) and t[1] == 0:
                continue
            if t[0] == "binop" and t[1] == "BitAnd" and M in (t[2], t[3]):
                continue
            if t[0] == "binop" and t[1] == "Mod" and t[3][0] == "binop" and \
                    t[3][1] == "Add" and M in (t[3][2], t[3][3]) and \
                    ("const", 1) in (t[3][2], t[3][3]):
                continue        # % (mask + 1)
            if t[0] == "rec":
                continue
            if any(st_[0] == "binop" and st_[1] == "BitAnd" and
                   M in (st_[2], st_[3]) for st_ in subterms(t)):
                late.append(y)
            else:
                okm = False
    if not okm and not late:
        # not masked at all (``i = 0 if i >= mask else i + 1``): the range
        # 0..mask by induction over the one conditional update, for any
        # mask >= 0 (linear integer arithmetic: a failed entailment has a
        # model, i.e. a value of the counter for which the next one leaves
        # the range)
        okm, why_ = _seq_induction(seqs, ys[0].value.id, M[1])
        if not okm:
            rep.check(False, "C06-R2", qual(seqs), "every number yielded "
                      "lies in 0..mask", construct="seq range",
                      node=seqs, positive=True,
                      fail="seqs() can yield a number outside 0..mask: %s - "
                           "a number above 0xffff does not fit the 16-bit "
                           "field (struct.error on a healthy machine)"
                           % why_)
            okm = True      # (reported above; the default is checked below)
    if n == 0:
        raise AnalysisError("seqs(): the counter is never bound")
    rep.check(not late, "C06-R2", qual(seqs), "the mask is the last "
              "operation on a number before it is yielded",
              construct="seq mask last", positive=True,
              node=late[0] if late else seqs,
              fail="the mask is applied before the arithmetic, not after "
                   "it: at the wrap the generator yields mask + 1 (0x10000), "
                   "which the 16-bit field cannot hold - struct.error on a "
                   "healthy machine")
    rep.check(okm and mask_default == 0xffff, "C06-R2", qual(seqs),
              "sequence numbers are masked to 16 bits (the '<2H' wire field)",
              construct="seq mask %r" % (mask_default,), node=seqs)


def r3_once(program, rep, B):
    T, inst, fn = B.T, B.inst, B.fn
    feeds = [x for x in _view_calls(T, ("append", "appendleft"))
             if len(x[4]) == 1 and x[4][0][0] == "tuple" and
             len(x[4][0]) == 3 and x[3][0] == "new"]
    rep.check(len(feeds) == 1, "C06-R3", inst, "completions are queued at "
              "exactly one site", construct="completion feeds %d" %
              len(feeds), node=fn)
    if len(feeds) != 1:
        return
    view, fnode, feed, QUEUE, (pair,) = feeds[0]
    CB, REPLY = pair[1], pair[2]
    okpop = False
    SEQ = None
    if CB[0] == "attr" and CB[2] == "callback":
        ENT = CB[1]
        if ENT[0] == "callv" and ENT[1] == ("attr", B.TABLE, "pop") and \
                ENT[2]:
            SEQ = ENT[2][0]
            facts = view.full_facts(fnode)
            # (the membership test is in force where the pop is made; the
            # pop itself then changes the table)
            pfacts = []
            for v_, n_, c_, recv_, args_ in _view_calls(T, ("pop",)):
                if v_ is view and v_.term(c_, n_) == ENT:
                    pfacts = v_.full_facts(n_)
            okpop = (is_none(ENT), False) in facts or (
                len(ENT[2]) == 1 and ((mk_cmp("In", SEQ, B.TABLE), True)
                                      in facts or
                                      (mk_cmp("In", SEQ, B.TABLE), True)
                                      in pfacts))
            if not okpop and len(ENT[2]) == 1:
                # try: entry = table.pop(seq) / except KeyError: ... / else:
                # <queue the completion>: the else clause runs only when the
                # pop found (and removed) the entry
                for v_, n_, c_, recv_, args_ in _view_calls(T, ("pop",)):
                    if not (v_ is view and v_.term(c_, n_) == ENT):
                        continue
                    tr_ = getattr(c_, "_parent", None)
                    while tr_ is not None and not isinstance(tr_, ast.Try):
                        tr_ = getattr(tr_, "_parent", None)
                    if tr_ is None or not any(
                            _own_inside(c_, st__) for st__ in tr_.body):
                        continue
                    catches = any(
                        h_.type is not None and any(
                            isinstance(x_, ast.Name) and
                            x_.id in ("KeyError", "LookupError")
                            for x_ in ast.walk(h_.type))
                        for h_ in tr_.handlers)
                    leaves = all(not any(_own_inside(feed, st__)
                                         for st__ in h_.body)
                                 for h_ in tr_.handlers)
                    in_else = any(_own_inside(feed, st__) for st__ in tr_.orelse
                                  ) or any(_own_inside(feed, st__)
                                           for st__ in tr_.body)
                    okpop = catches and leaves and in_else
            # a pop without default under a membership test must follow it
            # directly (the table is a local mutable: the fact is only kept
            # while nothing changed it)
    rep.check(okpop, "C06-R3", inst, "a completion is queued only for an "
              "entry just removed (pop) from the outstanding table, with "
              "that entry's own callback - duplicates and unknown replies "
              "find nothing", construct="completion from popped entry",
              node=feed,
              fail="the completion is not tied to an entry removed from "
                   "the table (get instead of pop, or no None test): a "
                   "duplicated reply would invoke the callback twice")
    okr = False
    if SEQ is not None:
        if not (REPLY[0] == "callv" and REPLY[1][0] == "attr" and
                REPLY[1][2] == "recv"):
            # the datagram reaches the callback through something else than
            # the value of sock.recv() (a generator that drains the socket,
            # a helper): which datagram it is is not read off that form
            raise AnalysisError("send_scp_burst: the reply handed to the "
                                "callback is not the value of a recv() call "
                                "in this function; not followed")
        if not (SEQ[0] == "comp" and plain(SEQ[1])[0] == "call" and
                plain(SEQ[1])[1][-1] == "unpack_from" and
                len(SEQ[1][2]) >= 2):
            raise AnalysisError("send_scp_burst: the sequence number is not "
                                "an item of one unpack_from(); not followed")
        okr = SEQ[2] == 1 and REPLY in (SEQ[1][2][0], SEQ[1][2][1])
    rep.check(okr, "C06-R3", inst, "the callback receives the bytes of "
              "the very datagram whose sequence number selected the "
              "entry", construct="reply bytes = datagram of seq",
              node=feed)
    # callbacks are invoked only on pairs taken from the queue
    invoked = []
    for v_, f_ in _all_views(T):
        for c in ast.walk(f_):
            if isinstance(c, ast.Call) and _own(c, f_) and \
                    not isinstance(c.func, ast.Attribute):
                n = v_.cfg.node_containing(c)
                ft = v_.term(c.func, n)
                if ft[0] == "comp" and ft[1][0] == "callv" and \
                        ft[1][1][0] == "attr" and ft[1][1][1] == QUEUE:
                    invoked.append((c, ft, [v_.term(a, n) for a in c.args]))
    other_cb = [c for c in ast.walk(fn) if isinstance(c, ast.Call) and
                isinstance(c.func, ast.Attribute) and
                c.func.attr == "callback"]
    if not invoked and not other_cb:
        raise AnalysisError("send_scp_burst: where completed commands' "
                            "callbacks are invoked was not found in the "
                            "form analysed (pairs popped from a queue)")
    okq = len(invoked) == 1 and not other_cb
    if okq:
        c, ft, args = invoked[0]
        okq = ft[1][1][2] in ("pop", "popleft") and ft[2] == 0 and \
            args == [("comp", ft[1], 1)]
    rep.check(okq, "C06-R3", inst, "callbacks are invoked only on pairs "
              "taken (pop) from the completion queue, once each",
              construct="callback invocation sites %d" % (
                  len(invoked) + len(other_cb)), node=fn,
              fail="a callback is invoked outside the single "
                   "take-from-queue site: a command could complete "
                   "twice")
    outer = None
    for n in fn.body:
        if isinstance(n, ast.While):
            outer = n
    okl = False
    if outer is not None and isinstance(outer.test, ast.Constant):
        raise AnalysisError("send_scp_burst: the burst loop is 'while "
                            "True' left by a test inside its body; where "
                            "it is left is not read by this rule")
    if outer is not None:
        tt = T.term(outer.test, T.cfg.loop_head[id(outer)])
        okl = any(st_ == B.TABLE for st_ in subterms(tt)) and \
            any(st_ == QUEUE for st_ in subterms(tt)) and tt[0] == "or"
    rep.check(okl, "C06-R3", inst, "the burst loop continues while commands "
              "are outstanding or completions are queued",
              construct="burst loop condition", node=outer or fn)
    rets = [n for n in ast.walk(fn) if isinstance(n, ast.Return)
            and _own(n, fn)]
    rep.check(not rets, "C06-R3", inst, "the burst has no early return",
              construct="early return", node=fn)


def r4_retry(program, rep, B):
    T, inst, fn = B.T, B.inst, B.fn
    SELF = ("param", "self")
    SOCK = ("attr", SELF, "sock")
    sends = [x for x in _view_calls(T, ("send",)) if x[3] == SOCK and
             len(x[4]) == 1]
    cur = ("item", B.TABLE, B.KEY)
    first = [x for x in sends if x[4][0] in (("attr", cur, "bytestring"),
                                             ("attr", B.ENTRY,
                                              "bytestring"))]
    retx = [x for x in sends if x not in first]
    rep.check(len(first) == 1 and len(retx) == 1, "C06-R4", inst,
              "one first-transmission site and one retransmission site",
              construct="send sites %d/%d" % (len(first), len(retx)),
              node=fn)
    if len(first) == 1:
        v_, n_, c, recv, args = first[0]
        ok1 = getattr(v_, "t", v_).fn is getattr(B.view, "t", B.view).fn \
            and v_.cfg.dominates(v_.cfg.nodes[B.snode.id], n_)
        rep.check(ok1, "C06-R4", inst, "the first transmission sends the "
                  "entry just filed, once", construct="first transmission",
                  node=c)
    if len(retx) != 1:
        return
    v_, cn, c, recv, args = retx[0]
    if v_ is not T:
        raise AnalysisError("the retransmission is inside a helper: its "
                            "deadline / try-count discipline is not analysed "
                            "in that form")
    fl = Flow(fn, consts=None)
    cfg = T.cfg
    ENT = args[0][1] if args[0][0] == "attr" and \
        args[0][2] == "bytestring" else None
    if ENT is None:
        raise AnalysisError("retransmission does not send <entry>."
                            "bytestring")
    # the entry re-sent must be read straight from the table of outstanding
    # commands (not from a collection derived from it earlier)
    tab_elem = [st_ for st_ in subterms(ENT) if st_ == B.TABLE]
    if not tab_elem:
        raise AnalysisError("send_scp_burst: the entries retransmitted are "
                            "taken from a collection derived from the "
                            "table; that form is not analysed")
    facts = T.all_facts(cn)
    NOW = None
    for t, p in facts:
        if p and t[0] == "cmp" and t[1] in ("Lt",) and \
                plain(t[2]) == plain(("attr", ENT, "timeout_time")):
            NOW = t[3]
    okn = NOW is not None and plain(NOW) == (
        "call", ("attr", ("global", "time"), "time"), (), ())
    rep.check(okn, "C06-R4", inst, "a command is "
              "retransmitted only after its deadline has passed "
              "(deadline < time.time())", construct="retransmit after "
              "deadline", node=c)
    TRIES = ("attr", ENT, "n_tries")
    LIMIT = ("attr", SELF, "n_tries")
    below = any(p and plain(t) in (plain(mk_cmp("Lt", TRIES, LIMIT)),)
                for t, p in facts)
    rep.check(below, "C06-R4", inst,
              "a command is retransmitted only while its try count is "
              "below the configured number of tries",
              construct="retransmit below limit", node=c)
    # afterwards: n_tries += 1 and deadline = now + timeout on every path to
    # the next iteration
    heads = [cfg.exit] + list(cfg.loop_head.values())
    oki = okd = False
    dval = None
    for n in cfg.nodes:
        st = n.ast
        if n.kind != "stmt" or not cfg.reaches(cn, n):
            continue
        tgt = val = None
        if isinstance(st, ast.AugAssign) and \
                isinstance(st.target, ast.Attribute):
            tgt = plain(T.term(st.target.value, n)), st.target.attr
            val = ("binop", type(st.op).__name__,
                   ("attr", tgt[0], tgt[1]), plain(T.term(st.value, n)))
        elif isinstance(st, ast.Assign) and len(st.targets) == 1 and \
                isinstance(st.targets[0], ast.Attribute):
            tgt = plain(T.term(st.targets[0].value, n)), st.targets[0].attr
            val = plain(T.term(st.value, n))
        if tgt is None or tgt[0] != plain(ENT):
            continue
        passes = cfg.must_pass(cn, lambda x, n=n: x is n, targets=heads)
        if tgt[1] == "n_tries":
            cur_t = ("attr", plain(ENT), "n_tries")
            oki = passes and val in (("binop", "Add", cur_t, ("const", 1)),
                                     ("binop", "Add", ("const", 1), cur_t))
        if tgt[1] == "timeout_time":
            dval = val
            to = ("attr", plain(ENT), "timeout")
            okd = passes and val in (("binop", "Add", plain(NOW), to),
                                     ("binop", "Add", to, plain(NOW))) \
                if NOW is not None else False
    rep.check(oki, "C06-R4", inst, "every retransmission increments the "
              "try count by one", construct="try count increment",
              node=c)
    rep.check(okd, "C06-R4", inst, "after a retransmission the "
              "deadline is the current time plus the command's "
              "timeout", construct="new deadline", node=c,
              fail="after a retransmission the deadline becomes %s, not now "
                   "+ timeout: a late loop turn retransmits again before "
                   "the timeout has elapsed" % (show(dval)[:80] if dval
                                                else "nothing new"))
    for r in raises_of(fn):
        if raise_name(r) != "TimeoutError":
            continue
        rf = T.all_facts(cfg.node_of(r))
        exp = any(p and t[0] == "cmp" and t[1] == "Lt" and
                  plain(t[2]) == plain(("attr", ENT, "timeout_time"))
                  for t, p in rf)
        exh = any(p and plain(t) == plain(mk_cmp("LtE", LIMIT, TRIES))
                  for t, p in rf)
        rep.check(exp and exh, "C06-R4", inst,
                  "TimeoutError is raised only for a command whose "
                  "deadline has passed and which has been sent the "
                  "configured number of times",
                  construct="timeout condition", node=r)
    tp = program.get(FN + ".TransmittedPacket.__init__")
    P = Terms(tp)
    ok_init = ok_dead = False
    now = ("call", ("attr", ("global", "time"), "time"), (), ())
    for b_ in P.binds:
        if b_.var == "self.n_tries" and b_.mode == "assign":
            ok_init = P._bind_term(b_) == ("const", 1)
        if b_.var == "self.timeout_time" and b_.mode == "assign":
            v = plain(P._bind_term(b_))
            to = [x for x in (v[2], v[3]) if x != now] if v[0] == "binop" \
                and v[1] == "Add" else []
            ok_dead = len(to) == 1 and now in (v[2], v[3]) and \
                to[0] in (("param", "timeout"),
                          ("attrv", SELF, "timeout", ANY),
                          ("attr", SELF, "timeout")) or (
                    len(to) == 1 and to[0][0] in ("attr", "attrv", "param")
                    and show(to[0]).endswith("timeout"))
    rep.check(ok_init and ok_dead, "C06-R4", inst, "a new entry starts with "
              "try count 1 and deadline time.time() + timeout",
              construct="entry initial state", node=tp)
    pe = plain(B.ENTRY)
    ARGS = None
    okt = False
    # (arguments by position or by the constructor's parameter names)
    pa = list(pe[2])
    if pe[3]:
        names_ = formals(tp)[1:]        # TransmittedPacket.__init__
        kw_ = dict(pe[3])
        pa = pa + [kw_.get(nm_) for nm_ in names_[len(pa):]]
    if len(pa) == 3 and None not in pa:
        cb, _, to = pa
        if cb[0] == "attr" and cb[2] == "callback":
            ARGS = cb[1]
            okt = to in (("binop", "Add", ("attr", SELF, "default_timeout"),
                          ("attr", ARGS, "timeout")),
                         ("binop", "Add", ("attr", ARGS, "timeout"),
                          ("attr", SELF, "default_timeout")))
    rep.check(okt, "C06-R4", inst, "the per-command timeout is the "
              "connection default plus the command's extra timeout; the "
              "entry holds the command's own callback",
              construct="entry timeout/callback", node=B.store)


def r3_closures(program, rep):
    """A function object made inside a loop and kept for later (queued,
    stored) does not read variables that the loop re-binds: a closure sees
    the variable, not the value it had when the closure was made, so every
    queued callback would act on the last reply / command of the loop."""
    fn = program.get(FN)
    inst = qual(fn)
    n_seen = 0
    for lam in ast.walk(fn):
        if not isinstance(lam, (ast.Lambda, ast.FunctionDef)) or lam is fn:
            continue
        loops = []
        p_ = getattr(lam, "_parent", None)
        while p_ is not None and p_ is not fn:
            if isinstance(p_, (ast.For, ast.While)):
                loops.append(p_)
            if isinstance(p_, (ast.FunctionDef, ast.Lambda)):
                loops = None            # nested deeper: judged there
                break
            p_ = getattr(p_, "_parent", None)
        if not loops:
            continue
        # kept for later?  (an argument of a call other than a direct call
        # of the function itself, or the value of a store)
        KEEP = ("append", "appendleft", "add", "put", "put_nowait",
                "insert", "extend", "setdefault", "push")

        def stored(e):
            """Is expression ``e`` put into a container / attribute?"""
            par = getattr(e, "_parent", None)
            if isinstance(par, (ast.Tuple, ast.List)):
                return stored(par)
            if isinstance(par, ast.Call) and par.func is not e and \
                    isinstance(par.func, ast.Attribute) and \
                    par.func.attr in KEEP:
                return True
            if isinstance(par, ast.Assign) and par.value is e and any(
                    isinstance(t_, (ast.Subscript, ast.Attribute))
                    for t_ in par.targets):
                return True
            return False
        if isinstance(lam, ast.FunctionDef):
            # a local def: kept when its name is put somewhere
            kept = any(isinstance(n_, ast.Name) and n_.id == lam.name and
                       isinstance(n_.ctx, ast.Load) and stored(n_)
                       for lp_ in loops for n_ in ast.walk(lp_))
        else:
            kept = stored(lam)
            par = getattr(lam, "_parent", None)
            if not kept and isinstance(par, ast.Assign) and \
                    len(par.targets) == 1 and \
                    isinstance(par.targets[0], ast.Name):
                nm_ = par.targets[0].id
                kept = any(isinstance(n_, ast.Name) and n_.id == nm_ and
                           isinstance(n_.ctx, ast.Load) and stored(n_)
                           for lp_ in loops for n_ in ast.walk(lp_))
        if not kept:
            continue
        a = lam.args
        own = set(x.arg for x in a.posonlyargs + a.args + a.kwonlyargs)
        if a.vararg:
            own.add(a.vararg.arg)
        if a.kwarg:
            own.add(a.kwarg.arg)
        body = lam.body if isinstance(lam.body, list) else [lam.body]
        loaded = set(n_.id for b_ in body for n_ in ast.walk(b_)
                     if isinstance(n_, ast.Name) and
                     isinstance(n_.ctx, ast.Load))
        stored_in = set(n_.id for b_ in body for n_ in ast.walk(b_)
                        if isinstance(n_, ast.Name) and
                        isinstance(n_.ctx, ast.Store))
        free = loaded - own - stored_in
        rebound = set()
        for lp in loops:
            for n_ in ast.walk(lp):
                if isinstance(n_, ast.Name) and isinstance(
                        n_.ctx, ast.Store) and not _within(n_, lam):
                    rebound.add(n_.id)
        n_seen += 1
        late = sorted(free & rebound)
        rep.check(not late, "C06-R3", inst, "a function kept for later in "
                  "the burst loop reads no variable the loop re-binds",
                  construct="closure in loop", node=lam,
                  fail="a function object created in the burst loop and "
                       "kept for later reads %s, which the loop assigns "
                       "again before the function is called: every queued "
                       "call acts on the last value (the wrong reply goes "
                       "to the wrong command's callback)" % ", ".join(late))
    if n_seen == 0:
        rep.check(True, "C06-R3", inst, "no function object is created in "
                  "the burst loop and kept for later",
                  construct="closure in loop", node=fn)


def _within(node, anc):
    n = node
    while n is not None:
        if n is anc:
            return True
        n = getattr(n, "_parent", None)
    return False


r3_closures.helper_aware = True


def check(program, rep):
    fn = program.get(FN)
    inst = qual(fn)
    folder = Folder(program)
    fl = Flow(fn, consts=consts_for(folder, fn))
    cfg = fl.cfg
    B = rep.guard(["C06-R1", "C06-R2", "C06-R3", "C06-R4"], _Burst, program)
    if B is not None:
        rep.guard("C06-R1", r1_window, program, rep, B)
        rep.guard("C06-R2", r2_fresh, program, rep, B, folder)
        rep.guard("C06-R3", r3_once, program, rep, B)
        rep.guard("C06-R4", r4_retry, program, rep, B)
    rep.guard("C06-R3", r3_closures, program, rep)
    rep.guard(["C06-R5", "C06-R6"], r5_codes, program, rep, folder, fn, fl,
              cfg, inst)
    rep.floor("C06-R1", 3)
    rep.floor("C06-R2", 5)
    rep.floor("C06-R3", 6)
    rep.floor("C06-R4", 8)
    rep.floor("C06-R5", 20)
    # arguments handed to package functions under the wrong name / same-
    # named optional parameters not passed on (NAMELINK, DESIGN.md 9.13)
    from .. import namelink as _nl
    rep.guard("C06-R7", _nl.rule, program, rep, "C06-R7",
              [m for m in sorted(program.modules) if m.startswith("rig.machine_control")])
    return finish(rep, program, EXPLANATION, NOT_DECIDED,
                  trusted=["SC&MP return-code table RC_WIRE / RC_RETRY in "
                           "rules/C06.py (transcribed from sark.h)"])


def r5_codes(program, rep, folder, fn, fl, cfg, inst):
    # ---- R5 return codes ------------------------------------------------------------------
    rc, retry, fatal = r5_code_tables(program, rep, folder)
    return _r5_codes_rest(program, rep, folder, fn, fl, cfg, inst, rc, retry,
                          fatal)


def r5_code_tables(program, rep, folder):
    """The return-code tables: the members carry the numbers SC&MP sends,
    and every member other than ok is in exactly one of the retryable / fatal
    tables (a code in neither makes FatalReturnCodeError.__init__ fail with
    KeyError - not an SCPError, so callers that treat a failed command as a
    dead chip crash instead)."""
    rc = folder.name(CONSTS, "SCPReturnCodes")
    retry = folder.name(CONSTS, "RETRYABLE_SCP_RETURN_CODES")
    fatal = folder.name(CONSTS, "FATAL_SCP_RETURN_CODES")
    rinst = CONSTS + ":SCPReturnCodes"
    members = {m.name: m.value for m in rc}
    for name, val in sorted(RC_WIRE.items()):
        rep.check(members.get(name) == val, "C06-R5", rinst,
                  "return code %s = 0x%02x as SC&MP sends it" % (name, val),
                  construct="rc %s = %r" % (name, members.get(name)),
                  fail="SCPReturnCodes.%s is %r but SC&MP sends 0x%02x for "
                       "that condition: replies are classified under the "
                       "wrong name" % (name, members.get(name), val))
    rnames = set(m.name for m in retry)
    fnames = set(m.name for m in fatal)
    rep.check(rnames == RC_RETRY, "C06-R5", CONSTS +
              ":RETRYABLE_SCP_RETURN_CODES", "retryable codes are exactly "
              "%s" % sorted(RC_RETRY), construct="retryable %s" %
              sorted(rnames))
    allm = set(members)
    rep.check(not (rnames & fnames) and "ok" not in rnames | fnames and
              rnames | fnames | {"ok"} == allm, "C06-R5", CONSTS +
              ":FATAL_SCP_RETURN_CODES", "{ok}, retryable and fatal codes "
              "partition the %d members of SCPReturnCodes" % len(allm),
              construct="partition missing=%s overlap=%s" % (
                  sorted(allm - rnames - fnames - {"ok"}),
                  sorted(rnames & fnames)))
    return rc, retry, fatal


def _r5_codes_rest(program, rep, folder, fn, fl, cfg, inst, rc, retry, fatal):
    rnames = set(m.name for m in retry)
    fnames = set(m.name for m in fatal)
    members = {m.name: m.value for m in rc}
    allm = set(members)
    rinst = CONSTS + ":SCPReturnCodes"
    # receive loop: non-ok -> retryable: nothing happens; else raise
    T = Terms(fn)
    OK = ("attr", ("attr", ("global", "consts"), "SCPReturnCodes"), "ok")
    RETRY = ("attr", ("global", "consts"), "RETRYABLE_SCP_RETURN_CODES")
    fat = [r for r in ast.walk(fn) if isinstance(r, ast.Raise) and
           raise_name(r) == "FatalReturnCodeError"]
    if not fat:
        raise AnalysisError("send_scp_burst: where FatalReturnCodeError is "
                            "raised was not found")
    okret = False
    RC = None
    for r in fat:
        views = owner_views(T, r)
        if len(views) != 1:
            raise AnalysisError("send_scp_burst: the fatal raise is in a "
                                "helper called from several places")
        rn = views[0].cfg.node_of(r) if hasattr(views[0].cfg, "node_of") \
            else None
        f = facts_at(views[0], views[0].cfg.node_of(r))
        for t, p in f:
            if not p and t[0] == "cmp" and t[1] == "Eq" and OK in (t[2],
                                                                   t[3]):
                RC = t[3] if t[2] == OK else t[2]
        okret = RC is not None and (mk_cmp("In", RC, RETRY), False) in f
        if RC is None:
            raise AnalysisError("send_scp_burst: the fatal error is not "
                                "raised under a comparison of the return "
                                "code with 'ok' (e.g. the action is looked "
                                "up in a table); that form is not analysed")
    rep.check(len(fat) == 1 and okret, "C06-R5", inst,
              "FatalReturnCodeError is raised exactly for a non-ok, "
              "non-retryable reply", construct="fatal raise condition",
              node=fn)
    # the retryable branch changes no state
    n_quiet = 0
    for n in cfg.nodes:
        if n.kind != "assume" or RC is None:
            continue
        tn = T.cfg.nodes[n.id]
        if T.cond(tn.ast, tn, tn.polarity) != (mk_cmp("In", RC, RETRY),
                                                True):
            continue
        n_quiet += 1
        quiet = True
        seen = set()
        stack = list(n.succ)
        # the statements of the branch taken for a retryable code: the body
        # of the ``if`` the test belongs to (tests nested in that body are
        # gone through), up to the next loop head / test outside it
        owner_if = getattr(n.ast, "_parent", None)
        while owner_if is not None and not isinstance(owner_if, ast.If):
            owner_if = getattr(owner_if, "_parent", None)
        body_ = owner_if.body if owner_if is not None else []

        def in_branch(node_):
            a_ = getattr(node_, "ast", None)
            return a_ is not None and any(_own_inside(a_, b_)
                                          for b_ in body_)
        while stack:
            x = stack.pop()
            if x.id in seen or x.kind in ("join", "iter") or \
                    getattr(x, "label", None) == "foriter" or \
                    (x.kind == "test" and not in_branch(x)):
                # (the next test / the head of the enclosing loop, of either
                # kind: taking the next element is not an effect of the
                # branch)
                continue
            seen.add(x.id)
            if x.kind in ("test", "assume"):
                stack += x.succ
                continue
            if x.kind == "stmt" and not in_branch(x) and body_:
                continue
            if x.kind == "stmt" and not isinstance(x.ast, (ast.Pass,
                                                          ast.Continue)):
                # (``continue`` goes on to the next datagram: no effect.)
                # What must not happen to a command answered 'busy': it is
                # not completed (no callback, not taken out of the table),
                # not sent again at once, its try count is not touched and
                # its deadline is not brought forward.  Other bookkeeping
                # (a deadline postponed with +=, a note that the machine was
                # busy) leaves the treatment 'as a lost reply' intact.
                if _harms_outstanding(x.ast):
                    quiet = False
            stack += x.succ
        rep.check(quiet, "C06-R5", inst, "a retryable error reply "
                  "changes no state (treated as a lost reply)",
                  construct="retryable branch effects", node=n.ast)
    # the select() timeout can never be negative (select raises ValueError)
    sel = [c for c in calls_in(fn, "select") if len(c.args) == 4]
    if len(sel) == 1:
        from ..absint import Interp
        it = Interp(fn)
        sn = it.cfg.node_containing(sel[0])
        tv = it.sym(sel[0].args[3], sn)
        rep.check(it.holds_at(sn, [le(0, tv)]), "C06-R4", inst,
                  "the timeout handed to select() is never negative (a "
                  "deadline that has already passed waits 0 seconds)",
                  construct="select timeout >= 0", node=sel[0],
                  fail="select() can be called with a negative timeout "
                       "(%r is not provably >= 0): it raises ValueError and "
                       "the burst neither completes nor times out; state: "
                       "%s" % (tv, it.describe(sn)))
    # and the ok branch is the only one that pops
    # ---- R6 offsets ---------------------------------------------------------------------------
    up = [c for c in ast.walk(fn) if isinstance(c, ast.Call) and
          isinstance(c.func, ast.Attribute) and c.func.attr == "unpack_from"]
    ok6 = False
    if len(up) != 1:
        raise AnalysisError("send_scp_burst: where the reply header is "
                            "unpacked was not found")
    import struct
    menv = folder.module_env(MOD)
    if len(up[0].args) == 3:
        off = folder.eval(up[0].args[2], menv, fn._module)
        fmt = folder.eval(up[0].args[0], menv, fn._module)
    elif len(up[0].args) == 2 and isinstance(up[0].func.value, ast.Name):
        # a precompiled struct.Struct(<format>) of the module
        off = folder.eval(up[0].args[1], menv, fn._module)
        fmt = None
        for st_ in fn._module.tree.body:
            if isinstance(st_, ast.Assign) and len(st_.targets) == 1 and \
                    chain(st_.targets[0]) == up[0].func.value.id and \
                    isinstance(st_.value, ast.Call) and \
                    unparse(st_.value.func) in ("struct.Struct", "Struct") \
                    and len(st_.value.args) == 1:
                fmt = folder.eval(st_.value.args[0], menv, fn._module)
        if fmt is None:
            raise AnalysisError("send_scp_burst: the reply header format")
    else:
        raise AnalysisError("send_scp_burst: the reply header unpack call")
    # ('<2H' and '<HH' are the same layout: compared field by field)
    def _expand(f_):
        import re
        return f_[:1] + "".join(c_ * (int(n_) if n_ else 1) for n_, c_ in
                                re.findall(r"(\d*)([A-Za-z?])", f_[1:]))
    ok6 = off == struct.calcsize("<2x8B") and isinstance(fmt, str) and \
        _expand(fmt.replace(" ", "")) == "<HH"
    # the receive buffer takes the largest reply whole: 2 bytes of padding,
    # the SDP header, cmd_rc and seq, and buffer_size bytes of data
    recvs = [c for c in ast.walk(fn) if isinstance(c, ast.Call) and
             isinstance(c.func, ast.Attribute) and c.func.attr == "recv" and
             len(c.args) == 1]
    if len(recvs) != 1:
        raise AnalysisError("send_scp_burst: one recv() expected")
    views = owner_views(T, recvs[0])
    if len(views) != 1:
        raise AnalysisError("send_scp_burst: recv() in a helper called "
                            "from several places")
    rt = plain(views[0].term(recvs[0].args[0],
                             views[0].cfg.node_containing(recvs[0])))
    # int(2 ** ceil(log(M, 2))) >= M
    M = None
    m_ = match(("call", ("global", "int"), (("binop", "Pow", ("const", 2), (
        "call", ("attr", ("global", "math"), "ceil"), ((
            "call", ("attr", ("global", "math"), "log"),
            (V("m"), ("const", 2)), ()),), ())),), ()), rt)
    if m_ is not None:
        M = m_["m"]
    else:
        M = rt          # a plain length
    BUF = ("param", [a.arg for a in fn.args.args][1])
    need = 2 + struct.calcsize("<2x8B") - 2 + 4
    slack = None
    try:
        from ..terms import reify
        flr = Flow(fn, consts=None)
        pm = flr.sym(_wp(reify(M)), flr.cfg.entry)
        pb = flr.sym(_wp(reify(BUF)), flr.cfg.entry)
        d = pm - pb
        vals = {}
        for a_ in d.atoms():
            v = folder.eval(ast.parse(str(a_), mode="eval").body, menv,
                            fn._module)
            vals[a_] = v
        if all(isinstance(v, int) for v in vals.values()):
            slack = d.evaluate(vals) if hasattr(d, "evaluate") else None
            if slack is None:
                tot = 0
                for mono, c_ in d.t.items():
                    x = c_
                    for a_ in mono:
                        x *= vals[a_]
                    tot += x
                slack = tot
    except (AnalysisError, SyntaxError, KeyError):
        slack = None
    if slack is None:
        raise AnalysisError("send_scp_burst: the receive length %s is not "
                            "buffer_size plus a constant" % show(rt)[:80])
    rep.check(slack >= need, "C06-R6", inst, "the receive buffer takes a "
              "reply carrying buffer_size bytes of data whole (data + %d "
              "bytes of padding and headers; it has room for data + %d)" % (
                  need, slack), construct="receive length", node=recvs[0],
              fail="recv() is given room for buffer_size + %d bytes, but a "
                   "reply with buffer_size bytes of data is buffer_size + "
                   "%d bytes long: for buffer sizes just below a power of "
                   "two the reply is truncated and the read fails" % (
                       slack, need))
    rep.check(ok6, "C06-R6", inst, "cmd_rc and seq are read with '<2H' at "
              "byte 10 = size of the SDP header format (pad + 8 bytes)",
              construct="reply offset", node=fn)


def _wp(e):
    for n in ast.walk(e):
        for c in ast.iter_child_nodes(n):
            c._parent = n
    ast.fix_missing_locations(e)
    return e


def _own(node, fn):
    n = getattr(node, "_parent", None)
    while n is not None:
        if isinstance(n, (ast.FunctionDef, ast.Lambda)):
            return n is fn
        n = getattr(n, "_parent", None)
    return False
