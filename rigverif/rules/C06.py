"""C06 - SCP bursts complete each command exactly once despite loss and
reordering.  All rules are over SCPConnection.send_scp_burst (one CFG) plus
the consts.py tables.

R1 window invariant  R2 fresh sequence numbers  R3 exactly-once hand-off
R4 retry accounting  R5 return-code partition  R6 reply parsing offsets
"""
import ast

from ..core import AnalysisError, finish, unparse
from ..constfold import Folder, consts_for
from ..dataflow import Flow, chain, call_name
from ..poly import Poly, le, lt, entails
from ..util import calls_in, qual, has_fact, raises_of, raise_name

MOD = "rig.machine_control.scp_connection"
CONSTS = "rig.machine_control.consts"
FN = MOD + ":SCPConnection.send_scp_burst"

# SC&MP / SARK return codes (spinnaker_tools sark.h, enum rc_code) - the wire
# values the machine actually sends, and which of them SC&MP documents as
# transient ("retry") conditions.
RC_WIRE = {"ok": 0x80, "len": 0x81, "sum": 0x82, "cmd": 0x83, "arg": 0x84,
           "port": 0x85, "timeout": 0x86, "route": 0x87, "cpu": 0x88,
           "dead": 0x89, "buf": 0x8a, "p2p_noreply": 0x8b,
           "p2p_reject": 0x8c, "p2p_busy": 0x8d, "p2p_timeout": 0x8e,
           "pkt_tx": 0x8f}
RC_RETRY = {"sum", "p2p_busy"}

EXPLANATION = (
    "Typestate / dominance analysis of the burst loop: the outstanding table "
    "grows at exactly one site, which is dominated by a still-valid "
    "'len(table) < window' test and by a still-valid 'seq not in table' test "
    "for the very key inserted (facts are invalidated by any re-definition "
    "or mutation in between); callbacks are only invoked on pairs taken from "
    "the completion queue, which is only fed where the matching entry has "
    "just been popped from the table; retransmission is dominated by "
    "deadline-expired and tries-not-exhausted tests and followed by the "
    "try-count increment and a deadline recomputed from the current time; "
    "the timeout error needs expired-and-exhausted; the return-code tables "
    "are folded and checked to partition the enum, whose wire values are "
    "compared with the SC&MP table kept in the checker.")
NOT_DECIDED = [
    "real-time behaviour (select timeout values)",
    "sequence-number reuse after 65536 commands while one is still "
    "outstanding beyond the skip loop (acknowledged XXX in the source)",
    "malformed / short datagrams",
    "termination is not proved beyond: every retransmission increments the "
    "try counter that bounds it",
]


def _table_mutations(fl, var):
    out = []
    for d in fl.defs:
        if d.var == var and d.mode in ("mut", "assign", "aug", "del"):
            out.append(d)
    return out


def check(program, rep):
    fn = program.get(FN)
    inst = qual(fn)
    folder = Folder(program)
    fl = Flow(fn, consts=consts_for(folder, fn))
    cfg = fl.cfg

    # identify the table: the dict that is subscript-stored with a
    # TransmittedPacket(...) value
    stores = []
    for n in ast.walk(fn):
        if isinstance(n, ast.Assign) and isinstance(n.targets[0],
                                                    ast.Subscript) and \
                isinstance(n.value, ast.Call) and \
                call_name(n.value)[0] == "TransmittedPacket":
            stores.append(n)
    if len(stores) != 1:
        raise AnalysisError("send_scp_burst: expected exactly one insertion "
                            "of a TransmittedPacket, found %d" % len(stores))
    store = stores[0]
    table = chain(store.targets[0].value)
    key = store.targets[0].slice
    snode = cfg.node_of(store)
    ps = [a.arg for a in fn.args.args]
    if len(ps) < 4:
        raise AnalysisError("send_scp_burst signature changed")
    window = ps[2]

    # ---- R1 window ---------------------------------------------------------
    grow = []
    for d in fl.defs:
        if d.var != table:
            continue
        if d.mode == "assign":
            # initialisation to an empty dict is fine
            ok0 = isinstance(d.value, ast.Dict) and not d.value.keys
            rep.check(ok0, "C06-R1", inst, "the outstanding table starts "
                      "empty", construct="table init %s" % unparse(d.value),
                      node=d.node.ast)
            continue
        st = d.node.ast
        txt = unparse(st)[:60]
        if st is store:
            grow.append(d)
            continue
        # any other mutation must be a removal
        rem = [c for c in calls_in(st, ("pop", "popitem", "clear"))
               if chain(call_name(c)[1]) == table] if st is not None else []
        is_del = isinstance(st, ast.Delete)
        rep.check(bool(rem) or is_del, "C06-R1", inst,
                  "other mutation of the table only removes entries (%s)" %
                  txt, construct="table mutation %s" % txt, node=st,
                  fail="the outstanding table is also modified by '%s', "
                       "which may add entries outside the window test" % txt)
    cons = fl.constraints(snode)
    L = fl.sym(ast.parse("len(%s)" % table, mode="eval").body, snode)
    W = fl.sym(ast.parse(window, mode="eval").body, snode)
    rep.check(entails(cons, [lt(L, W)]), "C06-R1", inst,
              "the only insertion into the outstanding table is dominated by "
              "a still-valid test len(table) < window_size, so len <= "
              "window_size always", construct="window guard", node=store,
              fail="a command can be added to the outstanding table without "
                   "len(table) < window_size having been established since "
                   "the last change of the table (facts: %s)" % [
                       unparse(c) for c, p, _ in fl.facts(snode)])

    # ---- R2 fresh sequence numbers -------------------------------------------
    facts = fl.facts(snode)
    keyname = chain(key)
    fresh = has_fact(facts, "%s in %s" % (keyname, table), False)
    rep.check(fresh, "C06-R2", inst,
              "the key inserted has just been tested not to be in the table "
              "(the test dominates the insertion and neither the key nor the "
              "table changed since)", construct="fresh key guard",
              node=store,
              fail="the sequence number used as key may still be "
                   "outstanding: no valid '%s not in %s' fact dominates the "
                   "insertion; the older command's entry would be "
                   "overwritten and its reply ignored" % (keyname, table))
    # every definition of the key comes from the per-connection counter
    okc = True
    for d in fl.reaching(keyname, snode):
        okc &= (d.mode == "assign" and isinstance(d.value, ast.Call) and
                call_name(d.value)[0] == "next" and d.value.args and
                chain(d.value.args[0]) == "self.seq")
    rep.check(okc, "C06-R2", inst, "sequence numbers are drawn from the "
              "per-connection counter self.seq", construct="seq source",
              node=store)
    # the packet carries the same seq
    pk = [c for c in calls_in(fn, "SCPPacket")]
    okp = False
    for c in pk:
        for k in c.keywords:
            if k.arg == "seq" and chain(k.value) == keyname:
                pn = cfg.node_containing(c)
                okp = [d.id for d in fl.reaching(keyname, pn)] == \
                    [d.id for d in fl.reaching(keyname, snode)] and \
                    cfg.dominates(pn, snode)
    rep.check(okp, "C06-R2", inst, "the packet sent carries the sequence "
              "number it is filed under", construct="packet seq = key",
              node=store)
    # the counter is created once per connection and is 16 bit
    mod = program.module(MOD)
    creators = [c for c in ast.walk(mod.tree) if isinstance(c, ast.Call) and
                call_name(c)[0] == "seqs"]
    init = program.get(MOD + ":SCPConnection.__init__")
    okw = len(creators) == 1 and any(c is x for x in ast.walk(init)
                                     for c in creators)
    writers = [n for n in ast.walk(mod.tree) if isinstance(n, ast.Attribute)
               and isinstance(n.ctx, ast.Store) and chain(n) == "self.seq"]
    rep.check(okw and len(writers) == 1, "C06-R2", inst,
              "the counter is created once, in __init__, so numbering "
              "continues across bursts", construct="seq counter creation",
              node=init)
    seqs = program.get(MOD + ":seqs")
    mask_default = None
    if seqs.args.defaults:
        mask_default = folder.eval(seqs.args.defaults[-1], {}, seqs._module)
    fls = Flow(seqs)
    okm = False
    for d in fls.defs:
        if d.mode == "assign" and isinstance(d.value, ast.BinOp) and \
                isinstance(d.value.op, ast.BitAnd):
            okm = chain(d.value.right) == seqs.args.args[0].arg or \
                chain(d.value.left) == seqs.args.args[0].arg
    rep.check(okm and mask_default == 0xffff, "C06-R2", qual(seqs),
              "sequence numbers are masked to 16 bits (the '<2H' wire field)",
              construct="seq mask %r" % (mask_default,), node=seqs)

    # ---- R3 exactly once ----------------------------------------------------------
    # the completion queue: fed by append/appendleft of a tuple
    feeds = []
    for c in calls_in(fn, ("append", "appendleft")):
        rc = chain(call_name(c)[1])
        if rc and c.args and isinstance(c.args[0], ast.Tuple):
            feeds.append((rc, c))
    queues = set(q for q, _ in feeds)
    rep.check(len(feeds) == 1, "C06-R3", inst, "completions are queued at "
              "exactly one site", construct="completion feeds %d" %
              len(feeds), node=fn)
    if len(feeds) == 1:
        queue, feed = feeds[0]
        fnode = cfg.node_containing(feed)
        cbexpr, reply = feed.args[0].elts[:2] if len(
            feed.args[0].elts) == 2 else (None, None)
        entry = chain(cbexpr.value) if isinstance(cbexpr, ast.Attribute) \
            else None
        okpop = False
        popkey = None
        if entry:
            ds = fl.reaching(entry, fnode)
            if len(ds) == 1 and ds[0].mode == "assign" and \
                    isinstance(ds[0].value, ast.Call) and \
                    call_name(ds[0].value)[0] == "pop" and \
                    chain(call_name(ds[0].value)[1]) == table:
                okpop = has_fact(fl.facts(fnode), "%s is not None" % entry,
                                 True) or has_fact(fl.facts(fnode),
                                                   "%s is None" % entry,
                                                   False)
                popkey = ds[0].value.args[0] if ds[0].value.args else None
        rep.check(okpop and cbexpr is not None and cbexpr.attr == "callback",
                  "C06-R3", inst, "a completion is queued only for an entry "
                  "just removed (pop) from the outstanding table, with that "
                  "entry's own callback - duplicates and unknown replies "
                  "find nothing", construct="completion from popped entry",
                  node=feed,
                  fail="the completion is not tied to an entry removed from "
                       "the table (get instead of pop, or no None test): a "
                       "duplicated reply would invoke the callback twice")
        # reply bytes and seq come from this iteration's datagram
        okr = False
        if reply is not None and popkey is not None:
            rn = chain(reply)
            rdefs = fl.reaching(rn, fnode)
            kdefs = fl.reaching(chain(popkey), fnode)
            okr = len(rdefs) == 1 and isinstance(rdefs[0].value, ast.Call) \
                and call_name(rdefs[0].value)[0] == "recv" and \
                len(kdefs) == 1 and kdefs[0].mode == "unpack" and \
                isinstance(kdefs[0].value, ast.Call) and \
                call_name(kdefs[0].value)[0] == "unpack_from" and \
                len(kdefs[0].value.args) >= 2 and \
                chain(kdefs[0].value.args[1]) == rn and \
                cfg.dominates(rdefs[0].node, kdefs[0].node)
        rep.check(okr, "C06-R3", inst, "the callback receives the bytes of "
                  "the very datagram whose sequence number selected the "
                  "entry", construct="reply bytes = datagram of seq",
                  node=feed)
        # callbacks are invoked only on pairs taken from the queue
        invoked = []
        for c in ast.walk(fn):
            if isinstance(c, ast.Call):
                f = c.func
                nm = chain(f)
                if nm and (nm.endswith(".callback") or nm == "callback"):
                    invoked.append(c)
        okq = len(invoked) == 1
        if okq:
            c = invoked[0]
            cn = cfg.node_containing(c)
            ds = fl.reaching(chain(c.func), cn)
            okq = len(ds) == 1 and isinstance(ds[0].value, ast.Call) and \
                call_name(ds[0].value)[0] in ("pop", "popleft") and \
                chain(call_name(ds[0].value)[1]) == queue
        rep.check(okq, "C06-R3", inst, "callbacks are invoked only on pairs "
                  "taken (pop) from the completion queue, once each",
                  construct="callback invocation sites %d" % len(invoked),
                  node=fn,
                  fail="a callback is invoked outside the single "
                       "take-from-queue site: a command could complete "
                       "twice")
        # the burst cannot return while completions or commands are pending
        outer = None
        for n in fn.body:
            if isinstance(n, ast.While):
                outer = n
        names = set()
        if outer is not None:
            t = outer.test
            vals = t.values if isinstance(t, ast.BoolOp) and \
                isinstance(t.op, ast.Or) else [t]
            names = set(chain(v) for v in vals)
        rep.check(outer is not None and table in names and queue in names,
                  "C06-R3", inst, "the burst loop continues while commands "
                  "are outstanding or completions are queued",
                  construct="burst loop condition %s" % sorted(
                      str(n) for n in names), node=outer or fn)
        rets = [n for n in ast.walk(fn) if isinstance(n, ast.Return)
                and _own(n, fn)]
        rep.check(not rets, "C06-R3", inst, "the burst has no early return",
                  construct="early return", node=fn)

    # ---- R4 retry accounting ---------------------------------------------------------
    sends = [c for c in calls_in(fn, "send")
             if chain(call_name(c)[1]) == "self.sock"]
    first = [c for c in sends if table in unparse(c.args[0])]
    retx = [c for c in sends if c not in first]
    rep.check(len(first) == 1 and len(retx) == 1, "C06-R4", inst,
              "one first-transmission site and one retransmission site",
              construct="send sites %d/%d" % (len(first), len(retx)),
              node=fn)
    if len(first) == 1:
        c = first[0]
        cn = cfg.node_containing(c)
        sub = c.args[0].value if isinstance(c.args[0], ast.Attribute) \
            else None
        ok1 = isinstance(sub, ast.Subscript) and chain(sub.value) == table \
            and chain(sub.slice) == keyname and cfg.dominates(snode, cn) and \
            [d.id for d in fl.reaching(keyname, cn)] == \
            [d.id for d in fl.reaching(keyname, snode)]
        rep.check(ok1, "C06-R4", inst, "the first transmission sends the "
                  "entry just filed, once", construct="first transmission",
                  node=c)
    if len(retx) == 1:
        c = retx[0]
        cn = cfg.node_containing(c)
        ent = chain(c.args[0].value) if isinstance(c.args[0],
                                                   ast.Attribute) else None
        facts = fl.facts(cn)
        cons = fl.constraints(cn)
        now = None
        expired = False
        for cond, pol, a in facts:
            if isinstance(cond, ast.Compare) and len(cond.ops) == 1:
                l, r = chain(cond.left), chain(cond.comparators[0])
                op = type(cond.ops[0]).__name__
                if ent and l == ent + ".timeout_time" and (
                        (op == "Lt" and pol) or (op == "GtE" and not pol)):
                    now = r
                    expired = True
                if ent and r == ent + ".timeout_time" and (
                        (op == "Gt" and pol) or (op == "LtE" and not pol)):
                    now = l
                    expired = True
        okn = False
        if now:
            ds = fl.reaching(now, cn)
            okn = len(ds) == 1 and isinstance(ds[0].value, ast.Call) and \
                unparse(ds[0].value.func) == "time.time"
        rep.check(expired and okn, "C06-R4", inst, "a command is "
                  "retransmitted only after its deadline has passed "
                  "(deadline < time.time())", construct="retransmit after "
                  "deadline", node=c)
        T = fl.sym(ast.parse("%s.n_tries" % ent, mode="eval").body, cn)
        N = fl.sym(ast.parse("self.n_tries", mode="eval").body, cn)
        rep.check(entails(cons, [lt(T, N)]), "C06-R4", inst,
                  "a command is retransmitted only while its try count is "
                  "below the configured number of tries",
                  construct="retransmit below limit", node=c)
        # afterwards: n_tries += 1 and deadline = now + timeout on every path
        # to the next iteration
        incs = [d for d in fl.defs if d.var == ent + ".n_tries" and
                cfg.reaches(cn, d.node)]
        oki = False
        for d in incs:
            if d.mode == "aug" and isinstance(d.value.op, ast.Add) and \
                    isinstance(d.value.value, ast.Constant) and \
                    d.value.value.value == 1:
                oki = cfg.must_pass(cn, lambda n: n is d.node,
                                    targets=[cfg.exit] + [
                                        h for h in cfg.loop_head.values()])
        rep.check(oki, "C06-R4", inst, "every retransmission increments the "
                  "try count by one", construct="try count increment",
                  node=c)
        okd = False
        for d in fl.defs:
            if d.var == ent + ".timeout_time" and cfg.reaches(cn, d.node) \
                    and d.mode in ("assign", "aug"):
                if d.mode == "assign":
                    val = fl.sym(d.value, d.node)
                else:
                    s = d.value
                    fake = ast.BinOp(left=s.target, op=s.op, right=s.value)
                    ast.copy_location(fake, s)
                    fake._parent = s
                    val = fl.sym(fake, d.node)
                want = fl.sym(ast.parse("%s + %s.timeout" % (now, ent),
                                        mode="eval").body, d.node) \
                    if now else None
                okd = want is not None and val == want and \
                    cfg.must_pass(cn, lambda n: n is d.node,
                                  targets=[cfg.exit] + list(
                                      cfg.loop_head.values()))
                rep.check(okd, "C06-R4", inst, "after a retransmission the "
                          "deadline is the current time plus the command's "
                          "timeout", construct="new deadline %r" % (val,),
                          node=d.node.ast,
                          fail="after a retransmission the deadline becomes "
                               "%r, not now + timeout: a late loop turn "
                               "retransmits again before the timeout has "
                               "elapsed" % (val,))
        if not any(o["rule"] == "C06-R4" and "deadline is the current" in
                   o["fact"] or "deadline becomes" in o["fact"]
                   for o in rep.obligations):
            rep.bad("C06-R4", inst, "deadline not reset", "the deadline is "
                    "not reset after a retransmission", c)
        # timeout error only when expired and exhausted
        for r in raises_of(fn):
            if raise_name(r) != "TimeoutError":
                continue
            rn = cfg.node_of(r)
            cons_r = fl.constraints(rn)
            Tr = fl.sym(ast.parse("%s.n_tries" % ent, mode="eval").body, rn)
            Nr = fl.sym(ast.parse("self.n_tries", mode="eval").body, rn)
            exp = any(isinstance(cd, ast.Compare) and pol and
                      chain(cd.left) == ent + ".timeout_time" and
                      isinstance(cd.ops[0], ast.Lt)
                      for cd, pol, _ in fl.facts(rn))
            rep.check(entails(cons_r, [le(Nr, Tr)]) and exp, "C06-R4", inst,
                      "TimeoutError is raised only for a command whose "
                      "deadline has passed and which has been sent the "
                      "configured number of times",
                      construct="timeout condition", node=r)
    tp = program.get(FN + ".TransmittedPacket.__init__")
    flt = Flow(tp)
    ok_init = False
    ok_dead = False
    for d in flt.defs:
        if d.var == "self.n_tries" and d.mode == "assign":
            ok_init = flt.sym(d.value, d.node) == Poly.const(1)
        if d.var == "self.timeout_time" and d.mode == "assign":
            v = d.value
            ok_dead = isinstance(v, ast.BinOp) and isinstance(v.op, ast.Add) \
                and {unparse(v.left), unparse(v.right)} == {"time.time()",
                                                            "self.timeout"}
    rep.check(ok_init and ok_dead, "C06-R4", inst, "a new entry starts with "
              "try count 1 and deadline time.time() + timeout",
              construct="entry initial state", node=tp)
    tcall = store.value
    okt = len(tcall.args) == 3 and isinstance(tcall.args[2], ast.BinOp) and \
        isinstance(tcall.args[2].op, ast.Add) and \
        {unparse(tcall.args[2].left), unparse(tcall.args[2].right)} == \
        {"self.default_timeout", "args.timeout"} and \
        unparse(tcall.args[0]) == "args.callback"
    rep.check(okt, "C06-R4", inst, "the per-command timeout is the "
              "connection default plus the command's extra timeout; the "
              "entry holds the command's own callback",
              construct="entry timeout/callback", node=tcall)

    # ---- R5 return codes ------------------------------------------------------------------
    rc = folder.name(CONSTS, "SCPReturnCodes")
    retry = folder.name(CONSTS, "RETRYABLE_SCP_RETURN_CODES")
    fatal = folder.name(CONSTS, "FATAL_SCP_RETURN_CODES")
    rinst = CONSTS + ":SCPReturnCodes"
    members = {m.name: m.value for m in rc}
    for name, val in sorted(RC_WIRE.items()):
        rep.check(members.get(name) == val, "C06-R5", rinst,
                  "return code %s = 0x%02x as SC&MP sends it" % (name, val),
                  construct="rc %s = %r" % (name, members.get(name)),
                  fail="SCPReturnCodes.%s is %r but SC&MP sends 0x%02x for "
                       "that condition: replies are classified under the "
                       "wrong name" % (name, members.get(name), val))
    rnames = set(m.name for m in retry)
    fnames = set(m.name for m in fatal)
    rep.check(rnames == RC_RETRY, "C06-R5", CONSTS +
              ":RETRYABLE_SCP_RETURN_CODES", "retryable codes are exactly "
              "%s" % sorted(RC_RETRY), construct="retryable %s" %
              sorted(rnames))
    allm = set(members)
    rep.check(not (rnames & fnames) and "ok" not in rnames | fnames and
              rnames | fnames | {"ok"} == allm, "C06-R5", CONSTS +
              ":FATAL_SCP_RETURN_CODES", "{ok}, retryable and fatal codes "
              "partition the %d members of SCPReturnCodes" % len(allm),
              construct="partition missing=%s overlap=%s" % (
                  sorted(allm - rnames - fnames - {"ok"}),
                  sorted(rnames & fnames)))
    # receive loop: non-ok -> retryable: nothing happens; else raise
    okret = False
    fat = [r for r in raises_of(fn) if raise_name(r) == "FatalReturnCodeError"]
    for r in fat:
        rn = cfg.node_of(r)
        f = fl.facts(rn)
        a = any(unparse(c).startswith("rc != ") and
                unparse(c).endswith("SCPReturnCodes.ok") and p
                for c, p, _ in f)
        b = any(unparse(c) == "rc in consts.RETRYABLE_SCP_RETURN_CODES" and
                not p for c, p, _ in f)
        okret = a and b
    rep.check(len(fat) == 1 and okret, "C06-R5", inst,
              "FatalReturnCodeError is raised exactly for a non-ok, "
              "non-retryable reply", construct="fatal raise condition",
              node=fn)
    # the retryable branch changes no state
    for n in cfg.nodes:
        if n.kind == "assume" and n.polarity and \
                unparse(n.ast) == "rc in consts.RETRYABLE_SCP_RETURN_CODES":
            quiet = True
            seen = set()
            stack = list(n.succ)
            # up to the next loop head / test node
            while stack:
                x = stack.pop()
                if x.id in seen or x.kind in ("test", "join"):
                    continue
                seen.add(x.id)
                if fl.node_defs.get(x.id):
                    quiet = False
                if x.kind == "stmt" and not isinstance(x.ast, ast.Pass):
                    quiet = False
                stack += x.succ
            rep.check(quiet, "C06-R5", inst, "a retryable error reply "
                      "changes no state (treated as a lost reply)",
                      construct="retryable branch effects", node=n.ast)
    # and the ok branch is the only one that pops
    # ---- R6 offsets ---------------------------------------------------------------------------
    up = [c for c in calls_in(fn, "unpack_from")]
    ok6 = False
    if len(up) == 1 and len(up[0].args) == 3:
        off = folder.eval(up[0].args[2], folder.module_env(MOD), fn._module)
        fmt = folder.eval(up[0].args[0], folder.module_env(MOD), fn._module)
        import struct
        ok6 = off == struct.calcsize("<2x8B") and fmt.replace(" ", "") == \
            "<2H"
    rep.check(ok6, "C06-R6", inst, "cmd_rc and seq are read with '<2H' at "
              "byte 10 = size of the SDP header format (pad + 8 bytes)",
              construct="reply offset", node=fn)
    rep.floor("C06-R1", 3)
    rep.floor("C06-R2", 5)
    rep.floor("C06-R3", 6)
    rep.floor("C06-R4", 8)
    rep.floor("C06-R5", 20)
    return finish(rep, program, EXPLANATION, NOT_DECIDED,
                  trusted=["SC&MP return-code table RC_WIRE / RC_RETRY in "
                           "rules/C06.py (transcribed from sark.h)"])


def _own(node, fn):
    n = getattr(node, "_parent", None)
    while n is not None:
        if isinstance(n, (ast.FunctionDef, ast.Lambda)):
            return n is fn
        n = getattr(n, "_parent", None)
    return False
