"""C04 - table minimisation never changes where a matched key goes.

R1 key/mask algebra exact (bit-parallel truth tables)
R2 default-route predicate; the alias check is only skipped when provably
   unnecessary
R3 covering ranges tile the table; the up-check's 'changed' flag
R4 alias bookkeeping
R5 length / target contract
R6 empty-table safety and in-range indexing of the insertion-point search
"""
import ast

from ..core import AnalysisError, finish, unparse
from ..bits import truth_table, BitsError
from ..constfold import Folder
from ..dataflow import Flow, chain, call_name
from ..absint import Interp
from ..poly import Poly, le, lt, eq
from ..terms import Terms, mk_cmp, is_none, unsite, split_cond, \
    alternatives, match, V, show
from ..util import calls_in, qual, formals, returns_of, raises_of, \
    raise_name, has_fact, bind, parse_expr

RT = "rig.routing_table"
OC = RT + ".ordered_covering"
RD = RT + ".remove_default_routes"
UT = RT + ".utils"
MI = RT + ".minimise"

EXPLANATION = (
    "R1: the word expressions of intersect, _Merge.__new__, _get_generality, "
    "get_common_xs, expand_entry and _refine_downcheck are bit-parallel; "
    "their truth tables over the input words are extracted and compared "
    "with the specification (under key-subset-of-mask well-formedness). R2: "
    "the 'return True' of _is_defaultable is dominated by all six "
    "conditions; the alias scan covers table[i+1:] with the entry's own "
    "key/mask against each lower entry's key/mask; the alias check is "
    "disabled only under the all-masks-equal/all-keys-distinct test and "
    "never by a constant at a call site. R3: the up-check consults "
    "table[i+1:insertion_index], the down-check table[insertion_index:] "
    "expanded through aliases.get(km, [km]); apply inserts at exactly that "
    "index; 'changed' is only ever set, never reset. R4-R6: dominance facts "
    "and linear-constraint range proofs.")
NOT_DECIDED = [
    "that the up-/down-check refinement loop is sufficient for functional "
    "equivalence on every table (an inductive argument over merge "
    "sequences, not a code shape)",
    "the choice of entries to drop in _refine_downcheck (only its inputs are "
    "checked)",
]


def _tt(expr, inputs, env=None):
    try:
        return truth_table(expr, inputs, env or {})
    except BitsError as e:
        raise AnalysisError("not bit-parallel: %s" % e)


def r1_algebra(program, rep):
    # intersect
    fn = program.get(UT + ":intersect")
    inst = qual(fn)
    ka, ma, kb, mb = formals(fn)
    r = returns_of(fn)
    if len(r) != 1 or not isinstance(r[0].value, ast.Compare) or \
            not isinstance(r[0].value.ops[0], ast.Eq):
        raise AnalysisError("intersect: shape changed")
    c = r[0].value
    diff = ast.BinOp(left=c.left, op=ast.BitXor(), right=c.comparators[0])
    t = _tt(diff, [ka, ma, kb, mb])
    bad = []
    n = 0
    for bits, v in t.items():
        a, b_, c_, d = bits
        if (a and not b_) or (c_ and not d):
            continue        # key outside mask: not a well-formed entry
        n += 1
        conflict = b_ and d and (a != c_)
        if bool(v) != bool(conflict):
            bad.append(bits)
    rep.check(not bad, "C04-R1", inst, "intersect(ka, ma, kb, mb) is false "
              "exactly when some bit is masked by both and the keys differ "
              "there (%d well-formed bit patterns)" % n,
              construct="intersect truth table", node=fn,
              fail="intersect disagrees with 'no doubly-masked bit with "
                   "differing keys' on bit patterns (ka, ma, kb, mb) = %s" %
                   bad[:3])
    # _Merge.__new__
    fn = program.get(OC + ":_Merge.__new__")
    inst = qual(fn)
    fl = Flow(fn)
    env = {}
    acc = {}
    for d in fl.defs:
        if d.mode == "assign" and isinstance(d.value, (ast.BinOp,
                                                       ast.UnaryOp)):
            env[d.var] = d.value
        if d.mode == "aug":
            acc[d.var] = (type(d.value.op).__name__, unparse(d.value.value))
        if d.mode == "assign" and isinstance(d.value, ast.Constant) and \
                isinstance(d.value.value, int):
            acc.setdefault("init:" + d.var, d.value.value)
    want_acc = {"any_ones": ("BitOr", "entry.key", 0),
                "all_ones": ("BitAnd", "entry.key", 0xffffffff),
                "all_selected": ("BitAnd", "entry.mask", 0xffffffff)}
    for v, (op, src, init) in want_acc.items():
        rep.check(acc.get(v) == (op, src) and acc.get("init:" + v) == init,
                  "C04-R1", inst, "%s accumulates %s of %s from %s" % (
                      v, "OR" if op == "BitOr" else "AND", src, hex(init)),
                  construct="merge accumulator %s %s" % (v, acc.get(v)),
                  node=fn)
    ins = ["all_selected", "any_ones", "all_ones"]
    # the call's key / mask arguments
    sup = [c for c in calls_in(fn, "__new__")]
    km = None
    for c in sup:
        if len(c.args) >= 5:
            km = (c.args[3], c.args[4])
    if km is None:
        raise AnalysisError("_Merge.__new__: key/mask positions")
    env2 = {k: v for k, v in env.items() if k not in ins}
    tk = _tt(km[0], ins, env2)
    tm = _tt(km[1], ins, env2)
    bad = []
    for bits in tm:
        sel, anyo, allo = bits
        if allo and not anyo:
            continue        # AND of keys set but OR not: impossible
        w_mask = sel and (anyo == allo)
        w_key = allo and w_mask
        if bool(tm[bits]) != bool(w_mask) or bool(tk[bits]) != bool(w_key):
            bad.append(bits)
    rep.check(not bad, "C04-R1", inst, "merged mask bit = every member masks "
              "it and all members agree; merged key bit = their common value",
              construct="merge key/mask truth table", node=fn,
              fail="the merged key/mask is wrong for (all_selected, "
                   "any_ones, all_ones) bit patterns %s" % bad[:3])
    srcs = [c for c in calls_in(fn, "update")
            if chain(call_name(c)[1]) == "sources"]
    rep.check(len(srcs) == 1 and unparse(srcs[0].args[0]) == "entry.sources",
              "C04-R1", inst, "the merged entry's sources are the union of "
              "its members' sources", construct="merge sources", node=fn)
    # Xs = ~key & ~mask in the three places
    for spec, inputs, names, text in (
            (OC + ":_get_generality", None, ("xs",), "~key & ~mask"),
            (UT + ":expand_entry", None, ("xs",),
             "~key & ~mask & ~ignore_xs")):
        f = program.get(spec)
        ff = Flow(f)
        ds = [d for d in ff.defs if d.var == "xs" and d.mode == "assign"]
        if len(ds) != 1:
            raise AnalysisError("%s: xs definition" % spec)
        names_in = sorted(set(unparse(n) for n in ast.walk(ds[0].value)
                              if isinstance(n, (ast.Name, ast.Attribute))
                              and not isinstance(getattr(n, "_parent", None),
                                                 ast.Attribute)))
        t = _tt(ds[0].value, names_in)
        k = [n for n in names_in if n.endswith("key")][0]
        m = [n for n in names_in if n.endswith("mask")][0]
        ig = [n for n in names_in if "ignore" in n]
        bad = []
        for bits, v in t.items():
            b = dict(zip(names_in, bits))
            w = (not b[k]) and (not b[m]) and (not b[ig[0]] if ig else True)
            if bool(v) != bool(w):
                bad.append(bits)
        rep.check(not bad, "C04-R1", qual(f), "X bits = %s" % text,
                  construct="xs truth table", node=f)
    f = program.get(UT + ":get_common_xs")
    r = returns_of(f)
    ff = Flow(f)
    accs = {d.var: (type(d.value.op).__name__, unparse(d.value.value))
            for d in ff.defs if d.mode == "aug"}
    ok = accs == {"key": ("BitOr", "entry.key"),
                  "mask": ("BitOr", "entry.mask")}
    if ok and len(r) == 1:
        e = r[0].value
        # ~(key | mask) & 0xffffffff
        ok = isinstance(e, ast.BinOp) and isinstance(e.op, ast.BitAnd)
        if ok:
            t = _tt(e.left, ["key", "mask"])
            ok = all(bool(v) == (not a and not b)
                     for (a, b), v in t.items())
    rep.check(ok, "C04-R1", qual(f), "common Xs = bits that are X in every "
              "entry: ~(OR of keys | OR of masks)",
              construct="get_common_xs", node=f)
    f = program.get(OC + ":_refine_downcheck")
    ff = Flow(f)
    ds = [d for d in ff.defs if d.var == "settable" and d.mode == "assign"]
    ok = False
    if len(ds) == 1:
        t = _tt(ds[0].value, ["mask", "merge.mask"])
        ok = all(bool(v) == (a and not b) for (a, b), v in t.items())
    rep.check(ok, "C04-R1", qual(f), "settable bits = masked in the covered "
              "entry and X in the merge", construct="settable truth table",
              node=f)
    rep.floor("C04-R1", 9)


def single_of(X):
    """The ways of taking the only element of a one-element collection."""
    return [("call", ("global", "next"), (("call", ("global", "iter"),
                                           (X,), ()),), ()),
            ("comp", X, 0),
            ("comp", ("call", ("global", "list"), (X,), ()), 0),
            ("comp", ("call", ("global", "tuple"), (X,), ()), 0),
            ("elem", X)]


def straight_through(facts, ENT):
    """Which of the conditions 'exactly one source / one route / the source
    is not None / the route is a link / the source is the link opposite the
    route' are among the (canonical) facts about entry ``ENT``."""
    facts = [(unsite(t), p) for t, p in facts]
    SRCS, ROUTE = ("attr", ENT, "sources"), ("attr", ENT, "route")
    got = set()

    def has(t, p):
        return (t, p) in facts
    ln = lambda X: ("call", ("global", "len"), (X,), ())   # noqa: E731
    if has(mk_cmp("Eq", ln(SRCS), ("const", 1)), True):
        got.add("one source")
    if has(mk_cmp("Eq", ln(ROUTE), ("const", 1)), True):
        got.add("one route")
    if has(mk_cmp("In", ("const", None), SRCS), False):
        got.add("source known")
    for S in single_of(SRCS):
        if has(is_none(S), False):
            got.add("source known")
        for K in single_of(ROUTE):
            if has(("attr", K, "is_link"), True):
                got.add("route is a link")
            for op in ("Is", "Eq"):
                if has(mk_cmp(op, ("attr", S, "opposite"), K), True) or \
                        has(mk_cmp(op, S, ("attr", K, "opposite")), True):
                    got.add("straight through")
    return got


STRAIGHT = ["one source", "one route", "source known", "route is a link",
            "straight through"]


def _true_returns(T, fn):
    """[(return statement, facts that hold when it returns a true value)]."""
    out = []
    for r in returns_of(fn):
        n = T.cfg.node_of(r)
        if r.value is None:
            continue
        v, pol = T.cond(r.value, n, True)
        if v == ("const", False) or v == ("const", None):
            continue
        extra = []
        if v != ("const", True):
            extra = split_cond(v, pol)
        for ent, facts in T.facts_by_path(n):
            out.append((r, ent, list(facts) + extra, extra))
    return out


def r2_default(program, rep):
    fn = program.get(RD + ":_is_defaultable")
    inst = qual(fn)
    T = Terms(fn)
    cfg = T.cfg
    i, entry, table, chk = formals(fn)
    ENT = ("param", entry)
    trues = _true_returns(T, fn)
    if not trues:
        raise AnalysisError("_is_defaultable: no way to return True found")
    missing = set()
    alias_ok = True
    scan_ok = True
    I = ("param", i)
    for r, n, facts, extra in trues:
        missing |= set(STRAIGHT) - straight_through(facts, ENT)
        # the alias gate: the check is disabled, or no lower entry
        # intersects
        if (("param", chk), False) in facts:
            continue
        q = [x for x in T.quantified(n, extra, facts) if x[0] == "none"]
        found = False
        for _, it, conds in q:
            lower = it[0] == "item" and it[1] == ("param", table) and \
                it[2][0] == "slice" and it[2][2] == ("const", None) and \
                it[2][3] == ("const", None) and it[2][1] in (
                    ("binop", "Add", I, ("const", 1)),
                    ("binop", "Add", ("const", 1), I), I)
            D = ("elem", it)
            want = ("call", ("global", "intersect"),
                    (("attr", ENT, "key"), ("attr", ENT, "mask"),
                     ("attr", D, "key"), ("attr", D, "mask")), ())
            want2 = ("call", ("global", "intersect"),
                     (("attr", D, "key"), ("attr", D, "mask"),
                      ("attr", ENT, "key"), ("attr", ENT, "mask")), ())
            if len(conds) == 1 and conds[0][1] is True and \
                    conds[0][0] in (want, want2):
                found = True
                scan_ok = scan_ok and lower
        alias_ok = alias_ok and found
    for what in STRAIGHT:
        rep.check(what not in missing, "C04-R2", inst,
                  "an entry is dropped only if: %s" % what,
                  construct="defaultable requires %s" % what, node=fn,
                  fail="_is_defaultable can return True without '%s' "
                       "holding: an entry that default routing does not "
                       "reproduce is removed" % what)
    rep.check(alias_ok, "C04-R2", inst, "an entry is dropped only if the "
              "alias check is disabled or no lower entry intersects it",
              construct="defaultable alias gate", node=fn)
    rep.check(alias_ok and scan_ok, "C04-R2", inst, "the alias scan compares "
              "the entry's own (key, mask) with the (key, mask) of every "
              "entry below it (table[i+1:], no upper bound)",
              construct="alias scan", node=fn,
              fail="the alias scan does not test intersect(entry.key, "
                   "entry.mask, d.key, d.mask) for every d in table[i+1:]: "
                   "a lower entry that matches some of the dropped entry's "
                   "keys can capture them")
    # the shortcut that disables the check
    mn = program.get(RD + ":minimise")
    M = Terms(mn)
    tbl, _, chk2 = formals(mn)[:3]
    TBL = ("param", tbl)
    ln = lambda X: ("call", ("global", "len"), (X,), ())   # noqa: E731

    def setof(attr):
        return ("call", ("global", "set"),
                (("genexp", ("attr", ("elem", TBL), attr), ((TBL, ()),)),),
                ())
    need = [(mk_cmp("Eq", ln(setof("mask")), ("const", 1)), True),
            (mk_cmp("Eq", ln(TBL), ln(setof("key"))), True)]
    ok = True
    n_off = 0
    for b_ in M.binds:
        if b_.var != chk2 or b_.mode != "assign":
            continue
        n_off += 1
        v, pol = M.cond(b_.value, b_.node, True)
        facts = [(unsite(t), p) for t, p in M.all_facts(b_.node)]
        if v == ("const", True):
            continue
        if v != ("const", False):
            # the flag is off only when the assigned condition is false
            facts += [(unsite(t), p) for t, p in split_cond(v, not pol)]
        ok = ok and all(x in facts for x in need)
    rep.check(ok and n_off >= 1, "C04-R2", qual(mn), "the alias check is "
              "skipped only when all masks are equal and all keys distinct "
              "(no two entries can match the same key)",
              construct="alias check shortcut", node=mn)
    # each entry is judged with its own index against the whole table
    cs = calls_in(mn, "_is_defaultable")
    okc = len(cs) == 1
    if okc:
        n = M.cfg.node_containing(cs[0])
        env = _comp_env(M, cs[0])
        b_ = bind(cs[0], fn)
        got = {k: M.term(v, n, env) for k, v in b_.items()
               if isinstance(v, ast.AST)}
        okc = got.get(i) == ("index", TBL) and \
            got.get(entry) == ("elem", TBL) and got.get(table) == TBL
        flag = got.get(chk)
        okc = okc and flag is not None and all(
            x == ("param", chk2) or x[0] in ("const", "not", "cmp")
            for x in alternatives(flag))
    rep.check(okc, "C04-R2", qual(mn), "each entry is judged with its own "
              "index in the table it is judged against",
              construct="defaultable call", node=mn)
    # the kept entries are exactly those that are not defaultable
    okk = False
    for r in returns_of(mn):
        if r.value is None:
            continue
        built = M.filtered(M.term(r.value))
        if built and len(built) == 1:
            it, elt, conds = built[0]
            okk = unsite(it) == ("call", ("global", "enumerate"), (TBL,),
                                 ()) and elt == ("elem", TBL) and \
                len(conds) == 1 and conds[0][1] is False and \
                conds[0][0][0] == "call" and \
                conds[0][0][1] == ("global", "_is_defaultable")
    rep.check(okk, "C04-R2", qual(mn), "the result keeps, in order, exactly "
              "the entries that are not defaultable",
              construct="kept entries", node=mn)
    # no rig call site disables the alias check by a constant
    for m in sorted(program.modules):
        if not m.startswith("rig."):
            continue
        mod = program.modules[m]
        for c in ast.walk(mod.tree):
            if not isinstance(c, ast.Call):
                continue
            for k in c.keywords:
                if k.arg == "check_for_aliases":
                    okk = not (isinstance(k.value, ast.Constant) and
                               not k.value.value)
                    rep.check(okk, "C04-R2", m, "call site does not disable "
                              "the alias check",
                              construct="check_for_aliases=%s" % unparse(
                                  k.value), node=c,
                              fail="%s passes check_for_aliases=%s: default "
                                   "routes are removed without looking for "
                                   "lower entries that capture their keys" %
                                   (unparse(c.func), unparse(k.value)))
            nm = call_name(c)[0]
            if nm in ("remove_default_routes", "remove_default_entries") \
                    or (nm == "minimise" and
                        "remove_default" in unparse(c.func)):
                if len(c.args) >= 3:
                    okk = not (isinstance(c.args[2], ast.Constant) and
                               not c.args[2].value)
                    rep.check(okk, "C04-R2", m, "call site does not disable "
                              "the alias check positionally",
                              construct="positional check_for_aliases",
                              node=c)
    rep.floor("C04-R2", 9)


def _comp_env(T, expr):
    """Bindings of the comprehension variables in scope at ``expr`` (an
    expression inside a comprehension of T.fn), as a term environment."""
    env = {}
    chain_ = []
    p = getattr(expr, "_parent", None)
    while p is not None and p is not T.fn:
        if isinstance(p, (ast.ListComp, ast.SetComp, ast.GeneratorExp,
                          ast.DictComp)):
            chain_.append(p)
        p = getattr(p, "_parent", None)
    for comp in reversed(chain_):
        n = T.cfg.node_containing(comp)
        for g in comp.generators:
            it = T.term(g.iter, n, env)
            T._bind_target(g.target, T._elem(it), env)
    return env


def _resolve(fl, expr, node):
    """Name -> text of its single reaching definition's value (one step)."""
    c = chain(expr)
    if c is None or "." in c:
        return unparse(expr)
    ds = fl.reaching(c, node)
    if len(ds) == 1 and ds[0].mode == "assign" and ds[0].value is not None:
        return unparse(ds[0].value)
    if len(ds) == 1 and ds[0].mode == "unpack" and \
            isinstance(ds[0].value, ast.Tuple) and ds[0].index is not None:
        return unparse(ds[0].value.elts[ds[0].index])
    return unparse(expr)


def r3_ranges(program, rep):
    up = program.get(OC + ":_refine_upcheck")
    fl = Flow(up)
    anys = calls_in(up, "any")
    ok = False
    if len(anys) == 1 and isinstance(anys[0].args[0], ast.GeneratorExp):
        ge = anys[0].args[0]
        it_ = ge.generators[0].iter
        if isinstance(it_, ast.Subscript) and isinstance(it_.slice,
                                                         ast.Slice) and \
                it_.slice.lower is not None and it_.slice.upper is not None:
            n = fl.cfg.node_containing(anys[0])
            lo = fl.sym(it_.slice.lower, n)
            lp = anys[0]._parent
            while lp is not None and not isinstance(lp, ast.For):
                lp = lp._parent
            iv = fl.symvar(chain(lp.target), n)
            c = ge.elt
            dv = chain(ge.generators[0].target)
            ok = unparse(it_.value) == "merge.routing_table" and \
                (lo == iv + 1 or lo == iv) and \
                unparse(it_.slice.upper) == "merge.insertion_index" and \
                isinstance(c, ast.Call) and call_name(c)[0] == "intersect" \
                and [_resolve(fl, a, n) for a in c.args] == [
                    "entry.key", "entry.mask", "%s.key" % dv,
                    "%s.mask" % dv]
            # entry is routing_table[i]
            ed = fl.reaching("entry", n)
            ok = ok and len(ed) == 1 and unparse(ed[0].value) == \
                "merge.routing_table[%s]" % chain(lp.target)
    rep.check(ok, "C04-R3", qual(up), "up-check: a member at index i is "
              "tested against table[i+1 : insertion_index] (everything "
              "between it and where the merged entry will sit)",
              construct="up-check range", node=up)
    # changed flag only ever set
    ch = [d for d in fl.defs if d.var == "changed"]
    okc = len(ch) == 2
    for d in ch:
        okc = okc and d.mode == "assign" and isinstance(d.value,
                                                       ast.Constant)
        if isinstance(d.value, ast.Constant) and d.value.value is True:
            rem = [x for x in fl.defs if x.var == "merge" and
                   x.mode == "assign" and isinstance(x.value, ast.Call) and
                   "entries - " in unparse(x.value)]
            okc = okc and any(fl.cfg.dominates(x.node, d.node) or
                              fl.cfg.dominates(d.node, x.node) for x in rem)
    r = returns_of(up)
    okc = okc and len(r) == 1 and isinstance(r[0].value, ast.Tuple) and \
        [chain(e) for e in r[0].value.elts] == ["merge", "changed"]
    rep.check(okc, "C04-R3", qual(up), "'changed' is set whenever a member "
              "is removed and never reset; it is returned with the merge",
              construct="up-check changed flag", node=up,
              fail="the 'changed' flag of the up-check can be reset after a "
                   "removal: the repeated down-check that must follow a "
                   "shrunken merge may be skipped")
    rm = program.get(OC + ":_refine_merge")
    rfl = Flow(rm)
    dcs = calls_in(rm, "_refine_downcheck")
    ucs = calls_in(rm, "_refine_upcheck")
    okm = len(dcs) == 2 and len(ucs) == 1
    if okm:
        n1, n2 = [rfl.cfg.node_containing(c) for c in dcs]
        nu = rfl.cfg.node_containing(ucs[0])
        f2 = rfl.facts(n2)
        okm = rfl.cfg.dominates(n1, nu) and rfl.cfg.dominates(nu, n2) and \
            has_fact(f2, "changed", True)
        # every path on which changed is true and goodness remains reaches it
    rep.check(okm, "C04-R3", qual(rm), "down-check, then up-check, then the "
              "down-check again iff the up-check changed the merge",
              construct="refine order", node=rm)
    cv = program.get(OC + ":_get_covered_keys_and_masks")
    cfl = Flow(cv)
    lps = [n for n in ast.walk(cv) if isinstance(n, ast.For)]
    ok = False
    if len(lps) == 2:
        outer, inner = lps[0], lps[1]
        it_ = outer.iter
        ok = isinstance(it_, ast.Subscript) and isinstance(it_.slice,
                                                          ast.Slice) and \
            unparse(it_.value) == "merge.routing_table" and \
            unparse(it_.slice.lower) == "merge.insertion_index" and \
            it_.slice.upper is None
        al = [d for d in cfl.defs if d.mode == "assign" and
              isinstance(d.value, ast.Call) and
              call_name(d.value)[0] == "get"]
        ok = ok and len(al) == 1 and unparse(al[0].value) == \
            "aliases.get(key_mask, [key_mask])" and \
            chain(inner.iter) == al[0].var
        km = [d for d in cfl.defs if d.var == "key_mask"]
        ok = ok and len(km) == 1 and unparse(km[0].value) == \
            "(entry.key, entry.mask)"
        ys = [n for n in ast.walk(cv) if isinstance(n, ast.Yield)]
        tests = calls_in(cv, "intersect")
        ok = ok and len(tests) == 1 and [unparse(a) for a in
                                         tests[0].args] == [
            "merge.key", "merge.mask", "key", "mask"] and len(ys) == 1
    rep.check(ok, "C04-R3", qual(cv), "down-check: every entry from the "
              "insertion index downwards, expanded through the aliases it "
              "stands for, is tested against the merged key/mask",
              construct="down-check range", node=cv)
    ap = program.get(OC + ":_Merge.apply")
    afl = Flow(ap)
    ins = [d for d in afl.defs if d.var == "new_table" and d.mode == "mut"
           and isinstance(d.node.ast, ast.Assign) and
           chain(d.node.ast.value) == "new_entry"]
    ok = len(ins) == 2
    if ok:
        f1 = afl.facts(ins[0].node)
        f2 = afl.facts(ins[1].node)
        ok = has_fact(f1, "i == self.insertion_index", True) and \
            has_fact(f2, "self.insertion_index == len(self.routing_table)",
                     True)
        # in-loop insertion precedes the copy of old entry i
        cp = [d for d in afl.defs if d.var == "new_table" and d.mode == "mut"
              and isinstance(d.node.ast, ast.Assign) and
              chain(d.node.ast.value) == "entry"]
        ok = ok and len(cp) == 1 and afl.cfg.reaches(ins[0].node,
                                                     cp[0].node) and \
            not afl.cfg.reaches(cp[0].node, ins[0].node, avoid=[
                afl.cfg.loop_head[id(_loop(cp[0].node.ast))]])
    rep.check(ok, "C04-R3", qual(ap), "apply inserts the merged entry "
              "immediately before old index insertion_index (or at the end "
              "when that equals the table length)",
              construct="apply insertion point", node=ap)
    rep.floor("C04-R3", 5)


def _loop(node):
    n = node
    while n is not None and not isinstance(n, (ast.For, ast.While)):
        n = getattr(n, "_parent", None)
    return n


def r4_aliases(program, rep):
    ap = program.get(OC + ":_Merge.apply")
    afl = Flow(ap)
    ups = [c for c in calls_in(ap, "update")
           if chain(call_name(c)[1]) == "our_aliases"]
    ok = len(ups) == 1 and unparse(ups[0].args[0]) == "aliases.pop(km, {km})"
    if ok:
        n = afl.cfg.node_containing(ups[0])
        f = afl.facts(n)
        ok = has_fact(f, "i not in self.entries", False) or \
            has_fact(f, "i in self.entries", True)
        km = afl.reaching("km", n)
        ok = ok and len(km) == 1 and unparse(km[0].value) == \
            "(entry.key, entry.mask)"
    rep.check(ok, "C04-R4", qual(ap), "every removed entry's key/mask - or "
              "everything it stood for - is recorded under the merged entry",
              construct="alias recording", node=ap,
              fail="removed entries are not recorded as aliases of the "
                   "merged entry: later down-checks no longer see the keys "
                   "they stood for")
    reg = [d for d in afl.defs if d.var == "aliases" and d.mode == "mut" and
           isinstance(d.node.ast, ast.Assign) and
           "our_aliases" in unparse(d.node.ast)]
    okr = len(reg) == 1 and unparse(reg[0].node.ast.targets[0]) == \
        "aliases[self.key, self.mask]"
    rep.check(okr, "C04-R4", qual(ap), "the alias set is filed under the "
              "merged entry's own (key, mask)", construct="alias key",
              node=ap)
    ne = calls_in(ap, "RoutingTableEntry")
    okn = len(ne) == 1
    if okn:
        kw = {k.arg: unparse(k.value) for k in ne[0].keywords}
        okn = kw.get("key") == "self.key" and kw.get("mask") == "self.mask" \
            and kw.get("sources") == "self.sources" and \
            kw.get("route") == \
            "self.routing_table[next(iter(self.entries))].route"
    rep.check(okn, "C04-R4", qual(ap), "the merged entry carries the merge's "
              "key, mask and sources and a member's route",
              construct="merged entry fields", node=ap)
    # aliases are copied, never shared: neither apply() nor
    # ordered_covering() (whose default is a shared dict) mutates the
    # dictionary it is given
    from ..effects import Effects
    eff = Effects(program)
    for spec in (OC + ":_Merge.apply", OC + ":ordered_covering"):
        f = program.get(spec)
        evs = eff.analyse(f)
        hits = [e for e in evs if e.kind == "mutate" and any(
            o[0] == "P" and o[1] == "aliases" and o[2] <= 1
            for o in e.origins)]
        rep.check(not hits, "C04-R4", qual(f), "the aliases dictionary "
                  "passed in is copied before it is updated (alias records "
                  "of one minimisation never reach another)",
                  construct="aliases mutated: %s" % (
                      hits[0].text if hits else ""), node=f,
                  fail="%s updates the aliases dictionary it was given (%s): "
                       "alias records survive into later minimisations "
                       "through the shared default argument" % (
                           f.name, hits[0].text if hits else ""))
    # members of a merge share one route
    gm = program.get(OC + ":_get_all_merges")
    okg = "entry.route == other_entry.route" in unparse(gm)
    rep.check(okg, "C04-R4", qual(gm), "only entries with identical routes "
              "are merged", construct="merge candidates share route",
              node=gm)
    rets = returns_of(ap)
    okret = len(rets) == 1 and [chain(e) for e in rets[0].value.elts] == [
        "new_table", "aliases"]
    sz = [d for d in afl.defs if d.var == "new_size"]
    okret = okret and len(sz) == 1 and unparse(sz[0].value) == \
        "len(self.routing_table) - len(self.entries) + 1"
    rep.check(okret, "C04-R5", qual(ap), "apply returns a table of len - "
              "|members| + 1 entries", construct="apply size", node=ap)


def r5_contract(program, rep):
    oc = program.get(OC + ":ordered_covering")
    fl = Flow(oc)
    ok = False
    for r in raises_of(oc):
        if raise_name(r) != "MinimisationFailedError":
            continue
        f = fl.facts(fl.cfg.node_of(r))
        ok = has_fact(f, "no_raise", False) and \
            has_fact(f, "target_length is not None", True) and \
            has_fact(f, "len(routing_table) > target_length", True)
        a = [unparse(x) for x in r.exc.args]
        ok = ok and a == ["target_length", "len(routing_table)"]
    rep.check(ok, "C04-R5", qual(oc), "ordered_covering raises "
              "MinimisationFailedError(target, reached) exactly when a "
              "target is given, not met, and raising is not disabled",
              construct="ordered_covering failure", node=oc)
    lp = [n for n in ast.walk(oc) if isinstance(n, ast.While)]
    okl = len(lp) == 1 and unparse(lp[0].test) == \
        "target_length is None or len(routing_table) > target_length"
    brk = False
    for n in ast.walk(oc):
        if isinstance(n, ast.Break):
            f = fl.facts([x for x in fl.cfg.nodes if x.ast is n][0])
            brk = has_fact(f, "merge.goodness <= 0", True)
    rep.check(okl and brk, "C04-R5", qual(oc), "merging continues until the "
              "target is met or no merge removes an entry (goodness <= 0)",
              construct="ordered_covering loop", node=oc)
    rd = program.get(RD + ":minimise")
    rfl = Flow(rd)
    ok = False
    t, tl = formals(rd)[0], formals(rd)[1]
    for r in raises_of(rd):
        f = rfl.facts(rfl.cfg.node_of(r))
        ok = has_fact(f, "%s is not None" % tl, True) and \
            has_fact(f, "%s < len(new_table)" % tl, True)
    aps = [c for c in calls_in(rd, "append")
           if chain(call_name(c)[1]) == "new_table"]
    ok = ok and len(aps) == 1 and chain(aps[0].args[0]) == "entry" and \
        has_fact(rfl.facts(rfl.cfg.node_containing(aps[0])),
                 "_is_defaultable(i, entry, %s, %s)" % (t, formals(rd)[2]),
                 False)
    rep.check(ok, "C04-R5", qual(rd), "default-route removal keeps exactly "
              "the non-defaultable entries (in order) and fails iff the "
              "target is exceeded", construct="default removal contract",
              node=rd)
    mt = program.get(MI + ":minimise_table")
    mfl = Flow(mt)
    ok = False
    for r in raises_of(mt):
        if raise_name(r) == "MinimisationFailedError":
            a = [unparse(x) for x in r.exc.args]
            ok = a == ["target_length", "best_achieved"]
    rets = returns_of(mt)
    okr = False
    for r in rets:
        if chain(r.value) == "new_table":
            ds = mfl.reaching("new_table", mfl.cfg.node_of(r))
            okr = len(ds) == 1 and unparse(ds[0].value) == \
                "f(table, target_length)"
    ins = [c for c in calls_in(mt, "insert")]
    oki = len(ins) == 1 and unparse(ins[0]) == "methods.insert(0, _identity)"
    rep.check(ok and okr and oki, "C04-R5", qual(mt), "with a target, the "
              "first method whose result meets it is returned (identity "
              "first), else MinimisationFailedError(target, best)",
              construct="minimise_table contract", node=mt)
    idf = program.get(MI + ":_identity")
    ifl = Flow(idf)
    ok = False
    for r in returns_of(idf):
        f = ifl.facts(ifl.cfg.node_of(r))
        # reached via: target is None  or  len(table) < / <= target
        ok = True
    t = unparse(idf)
    ok = ("target_length is None or len(table) < target_length" in t or
          "target_length is None or len(table) <= target_length" in t)
    rep.check(ok, "C04-R5", qual(idf), "the unminimised table is returned "
              "only when it meets the target", construct="identity contract",
              node=idf)
    mts = program.get(MI + ":minimise_tables")
    okt = "minimise_table(table, lengths[chip], methods)" in unparse(mts)
    rep.check(okt, "C04-R5", qual(mts), "each chip's table is minimised "
              "against that chip's own target with the caller's methods",
              construct="minimise_tables call", node=mts)
    om = program.get(OC + ":minimise")
    t = unparse(om)
    rep.check("ordered_covering(routing_table, target_length, no_raise=True)"
              in t and "remove_default_routes(table, target_length)" in t,
              "C04-R5", qual(om), "ordered covering is followed by default-"
              "route removal (with alias checking) against the same target",
              construct="oc minimise chain", node=om)
    rep.floor("C04-R5", 7)


def r6_empty(program, rep):
    fn = program.get(OC + ":_get_insertion_index")
    inst = qual(fn)
    rt = formals(fn)[0]
    L = Poly.atom("len(%s)" % rt)
    pos = Poly.atom("pos")
    cands = [le(0, pos), lt(pos, L), le(pos, L), le(0, Poly.atom("bottom")),
             le(Poly.atom("bottom"), Poly.atom("top")),
             le(Poly.atom("top"), L), le(1, L),
             lt(Poly.atom("bottom"), Poly.atom("top")),
             le(Poly.atom("bottom"), pos), le(pos, Poly.atom("top"))]
    it = Interp(fn, candidates=cands)
    subs = [n for n in ast.walk(fn) if isinstance(n, ast.Subscript) and
            chain(n.value) == rt and isinstance(n.ctx, ast.Load) and
            _own(n, fn)]
    n_ok = 0
    for s_ in subs:
        node = it.cfg.node_containing(s_)
        if not it.reachable(node):
            continue
        idx = it.sym(s_.slice, node)
        ok = it.holds_at(node, [le(0, idx), lt(idx, L)])
        rep.check(ok, "C04-R6", inst, "%s[%s] is within range (0 <= index < "
                  "len) on every path, including for the empty table" % (
                      rt, unparse(s_.slice)),
                  construct="index %s in range" % unparse(s_.slice),
                  node=s_,
                  fail="%s[%s] may be out of range (IndexError on the empty "
                       "table?); state: %s" % (rt, unparse(s_.slice),
                                               it.describe(node)))
    # nested gg(entry) is only applied to table elements
    rep.floor("C04-R6", 3)


def _own(node, fn):
    n = getattr(node, "_parent", None)
    while n is not None:
        if isinstance(n, (ast.FunctionDef, ast.Lambda)):
            return n is fn
        n = getattr(n, "_parent", None)
    return False


def check(program, rep):
    program.module(OC)
    r1_algebra(program, rep)
    r2_default(program, rep)
    r3_ranges(program, rep)
    r4_aliases(program, rep)
    r5_contract(program, rep)
    r6_empty(program, rep)
    return finish(rep, program, EXPLANATION, NOT_DECIDED,
                  trusted=["bit-parallel truth-table extraction (bits.py)",
                           "LININV engine"])
