"""C04 - table minimisation never changes where a matched key goes.

R1 key/mask algebra exact (bit-parallel truth tables)
R2 default-route predicate; the alias check is only skipped when provably
   unnecessary
R3 covering ranges tile the table; the up-check's 'changed' flag
R4 alias bookkeeping
R5 length / target contract
R6 empty-table safety and in-range indexing of the insertion-point search
"""
import ast

from ..core import AnalysisError, finish, unparse
from ..bits import truth_table, BitsError
from ..constfold import Folder
from ..dataflow import Flow, chain, call_name
from ..absint import Interp
from ..poly import Poly, le, lt, eq
from ..terms import strip_new, Terms, mk_cmp, is_none, plain, split_cond, \
    alternatives, match, V, ANY, show, lookup, subterms, stores, as_lambda, \
    one_level, reify, \
    method_calls
from ..util import calls_in, qual, formals, returns_of, raises_of, \
    raise_name, has_fact, bind, parse_expr

RT = "rig.routing_table"
OC = RT + ".ordered_covering"
RD = RT + ".remove_default_routes"
UT = RT + ".utils"
MI = RT + ".minimise"

EXPLANATION = (
    "R1: the word expressions of intersect, _Merge.__new__, _get_generality, "
    "get_common_xs, expand_entry and _refine_downcheck are bit-parallel; "
    "their truth tables over the input words are extracted and compared "
    "with the specification (under key-subset-of-mask well-formedness). R2: "
    "the 'return True' of _is_defaultable is dominated by all six "
    "conditions; the alias scan covers table[i+1:] with the entry's own "
    "key/mask against each lower entry's key/mask; the alias check is "
    "disabled only under the all-masks-equal/all-keys-distinct test and "
    "never by a constant at a call site. R3: the up-check consults "
    "table[i+1:insertion_index], the down-check table[insertion_index:] "
    "expanded through aliases.get(km, [km]); apply inserts at exactly that "
    "index; 'changed' is only ever set, never reset. R4-R6: dominance facts "
    "and linear-constraint range proofs.")
EXPLANATION += (
    " R3's down-check scan rule also requires that no fact about the "
    "scanned entry other than the intersection test guards the yield.")
NOT_DECIDED = [
    "that the up-/down-check refinement loop is sufficient for functional "
    "equivalence on every table (an inductive argument over merge "
    "sequences, not a code shape)",
    "the choice of entries to drop in _refine_downcheck (only its inputs are "
    "checked)",
]


def _tt(expr, inputs, env=None):
    try:
        return truth_table(expr, inputs, env or {})
    except BitsError as e:
        raise AnalysisError("not bit-parallel: %s" % e)


def r1_algebra(program, rep):
    # intersect
    fn = program.get(UT + ":intersect")
    inst = qual(fn)
    ka, ma, kb, mb = formals(fn)
    r = returns_of(fn)
    if len(r) != 1 or r[0].value is None:
        raise AnalysisError("intersect: shape changed")
    # the returned comparison with temporaries resolved
    from ..terms import reify
    rt = Terms(fn).term(r[0].value)
    pol = True
    while rt[0] == "not":
        rt, pol = rt[1], not pol
    if rt[0] != "cmp" or rt[1] != "Eq" or not pol:
        raise AnalysisError("intersect: shape changed")
    diff = _wp(ast.BinOp(left=reify(plain(rt[2])), op=ast.BitXor(),
                         right=reify(plain(rt[3]))))
    t = _tt(diff, [ka, ma, kb, mb])
    bad = []
    n = 0
    for bits, v in t.items():
        a, b_, c_, d = bits
        if (a and not b_) or (c_ and not d):
            continue        # key outside mask: not a well-formed entry
        n += 1
        conflict = b_ and d and (a != c_)
        if bool(v) != bool(conflict):
            bad.append(bits)
    rep.check(not bad, "C04-R1", inst, "intersect(ka, ma, kb, mb) is false "
              "exactly when some bit is masked by both and the keys differ "
              "there (%d well-formed bit patterns)" % n,
              construct="intersect truth table", node=fn,
              fail="intersect disagrees with 'no doubly-masked bit with "
                   "differing keys' on bit patterns (ka, ma, kb, mb) = %s" %
                   bad[:3])
    # _Merge.__new__
    fn = program.get(OC + ":_Merge.__new__")
    inst = qual(fn)
    # the accumulators are recognised by what they accumulate (whatever they
    # are called, `x |= e` or `x = x | e`), the merged key / mask are then
    # evaluated as bit-parallel functions of them
    T_ = Terms(fn)
    sup = [c for c in ast.walk(fn) if isinstance(c, ast.Call) and
           isinstance(c.func, ast.Attribute) and c.func.attr == "__new__"
           and len(c.args) >= 5]
    if len(sup) != 1:
        raise AnalysisError("_Merge.__new__: the call creating the tuple")
    sn = T_.cfg.node_containing(sup[0])
    KEYT, MASKT = T_.term(sup[0].args[3], sn), T_.term(sup[0].args[4], sn)
    roles = {}

    def role_of(mu):
        alts = [plain(x) for x in one_level(mu)]
        init = [x for x in alts if x[0] == "const"]
        upd = [x for x in alts if x[0] == "binop" and x[1] in ("BitOr",
                                                                 "BitAnd")]
        if len(init) != 1 or len(upd) != 1 or len(alts) != 2:
            return None
        u = upd[0]
        other = [z for z in (u[2], u[3]) if z != plain(mu)]
        if len(other) != 1 or other[0][0] != "attr" or \
                other[0][2] not in ("key", "mask"):
            return None
        ent = other[0][1]
        if not (ent[0] == "item" and ent[1] == _P(formals(fn)[1]) and
                ent[2][0] == "elem"):
            return None
        return {("BitOr", "key", 0): "any_ones",
                ("BitAnd", "key", 0xffffffff): "all_ones",
                ("BitAnd", "mask", 0xffffffff): "all_selected"}.get(
                    (u[1], other[0][2], init[0][1]))
    for t in (KEYT, MASKT):
        for st_ in subterms(t):
            if st_[0] == "mu" and st_[1] not in roles:
                roles[st_[1]] = role_of(st_)
    if not roles or None in roles.values():
        raise AnalysisError("_Merge.__new__: the merged key / mask are not "
                            "computed from accumulators of the members' "
                            "keys and masks in the form analysed")
    want_roles = {"any_ones": "OR of the members' keys from 0",
                  "all_ones": "AND of the members' keys from 0xffffffff",
                  "all_selected": "AND of the members' masks from "
                                  "0xffffffff"}
    for r_, text in sorted(want_roles.items()):
        rep.check(r_ in roles.values(), "C04-R1", inst, "an accumulator "
                  "holds the %s" % text, construct="merge accumulator %s" %
                  r_, node=fn)
    ins = ["all_selected", "any_ones", "all_ones"]

    def named(t):
        if not isinstance(t, tuple):
            return t
        if t and t[0] == "mu":
            return ("param", roles.get(t[1], "?"))
        if t and t[0] == "const":
            return t
        return tuple(named(x) for x in t)
    tk = _tt(_wp(reify(plain(named(KEYT)))), ins, {})
    tm = _tt(_wp(reify(plain(named(MASKT)))), ins, {})
    bad = []
    for bits in tm:
        sel, anyo, allo = bits
        if allo and not anyo:
            continue        # AND of keys set but OR not: impossible
        w_mask = sel and (anyo == allo)
        w_key = allo and w_mask
        if bool(tm[bits]) != bool(w_mask) or bool(tk[bits]) != bool(w_key):
            bad.append(bits)
    rep.check(not bad, "C04-R1", inst, "merged mask bit = every member masks "
              "it and all members agree; merged key bit = their common value",
              construct="merge key/mask truth table", node=fn,
              fail="the merged key/mask is wrong for (all_selected, "
                   "any_ones, all_ones) bit patterns %s" % bad[:3])
    # the sources handed to the tuple: a fresh set updated with every
    # member's sources
    SRC = T_.term(sup[0].args[-1], sn) if len(sup[0].args) >= 8 else None
    ups = [x for x in method_calls(T_, "update") if x[2] == SRC]
    oksrc = SRC is not None and SRC[0] == "new" and len(ups) == 1
    if oksrc:
        a_ = plain(ups[0][3][0]) if len(ups[0][3]) == 1 else ("?",)
        oksrc = a_[0] == "attr" and a_[2] == "sources" and \
            a_[1][0] == "item" and a_[1][1] == _P(formals(fn)[1]) and \
            a_[1][2][0] == "elem" and not T_.all_facts(ups[0][0])
    if not oksrc and SRC is not None:
        # ... or a set comprehension over every member's sources
        ps_ = plain(SRC)
        MEM = ("item", _P(formals(fn)[1]), ("elem", _P(formals(fn)[2])))
        MSRC = ("attr", MEM, "sources")
        if ps_[0] == "setcomp" and ps_[1] == ("elem", MSRC) and \
                len(ps_[2]) == 2 and not ps_[2][0][1] and \
                ps_[2][1] == (MSRC, ()):
            it0 = ps_[2][0][0]
            oksrc = it0 == _P(formals(fn)[2]) or (
                it0[0] == "listcomp" and it0[1] == MEM and
                it0[2] == ((_P(formals(fn)[2]), ()),))
    rep.check(oksrc, "C04-R1", inst, "the merged entry's sources are the "
              "union of its members' sources", construct="merge sources",
              node=fn)
    # ... and nothing is taken out of that union again (a source the merged
    # entry does not list lets default-route removal drop the entry)
    if SRC is not None:
        rem = [x for nm_ in ("discard", "remove", "pop", "clear",
                             "difference_update", "intersection_update",
                             "symmetric_difference_update")
               for x in method_calls(T_, nm_) if x[2] == SRC]
        rep.check(not rem, "C04-R1", inst, "no source is removed from the "
                  "union", construct="merge sources kept",
                  node=rem[0][1] if rem else fn, positive=True,
                  fail="sources are removed from the union of the members' "
                       "sources (line %d): the merged entry no longer lists "
                       "a direction its members' packets arrive from, so "
                       "default-route removal can drop an entry those "
                       "packets need" % (rem[0][1].lineno if rem else 0))
    # Xs = ~key & ~mask in the three places
    for spec, inputs, names, text in (
            (OC + ":_get_generality", None, ("xs",), "~key & ~mask"),
            (UT + ":expand_entry", None, ("xs",),
             "~key & ~mask & ~ignore_xs")):
        f = program.get(spec)
        ff = Flow(f)
        ds = [d for d in ff.defs if d.var == "xs" and d.mode == "assign"]
        if len(ds) != 1:
            raise AnalysisError("%s: xs definition" % spec)
        names_in = sorted(set(unparse(n) for n in ast.walk(ds[0].value)
                              if isinstance(n, (ast.Name, ast.Attribute))
                              and not isinstance(getattr(n, "_parent", None),
                                                 ast.Attribute)))
        t = _tt(ds[0].value, names_in)
        k = [n for n in names_in if n.endswith("key")][0]
        m = [n for n in names_in if n.endswith("mask")][0]
        ig = [n for n in names_in if "ignore" in n]
        bad = []
        for bits, v in t.items():
            b = dict(zip(names_in, bits))
            w = (not b[k]) and (not b[m]) and (not b[ig[0]] if ig else True)
            if bool(v) != bool(w):
                bad.append(bits)
        rep.check(not bad, "C04-R1", qual(f), "X bits = %s" % text,
                  construct="xs truth table", node=f)
    f = program.get(UT + ":get_common_xs")
    rep.guard("C04-R1", _common_xs, f, rep)
    f = program.get(OC + ":_refine_downcheck")
    rep.guard("C04-R1", _settable, f, rep)
    rep.floor("C04-R1", 9)


def _common_xs(f, rep):
    """get_common_xs = ~(OR of all keys | OR of all masks), the accumulators
    recognised by what they accumulate (value terms), the word expression
    compared as a truth table."""
    T = Terms(f)
    rets = [r for r in returns_of(f) if r.value is not None]
    if len(rets) != 1:
        raise AnalysisError("get_common_xs: one return expected")
    t = T.term(rets[0].value, T.cfg.node_of(rets[0]))
    ENTRY = ("elem", ("param", formals(f)[0]))
    roles = {}
    for st in subterms(t):
        if st[0] != "mu" or st in roles:
            continue
        alts = [plain(x) for x in one_level(st)]
        role = None
        if len(alts) == 2 and ("const", 0) in alts:
            o = [x for x in alts if x != ("const", 0)][0]
            if o[0] == "binop" and o[1] == "BitOr" and plain(st) in (o[2],
                                                                     o[3]):
                w = o[3] if o[2] == plain(st) else o[2]
                if w[0] == "attr" and w[1] == ENTRY and \
                        w[2] in ("key", "mask"):
                    role = w[2]
        if role is None:
            raise AnalysisError("get_common_xs: an accumulator is not the "
                                "OR of the entries' keys or masks from 0")
        roles[st] = role
    if sorted(roles.values()) != ["key", "mask"]:
        raise AnalysisError("get_common_xs: the OR of all keys and the OR "
                            "of all masks were not both found")

    def sub(x):
        if x in roles:
            return ("param", "K" if roles[x] == "key" else "M")
        if not isinstance(x, tuple) or not x or x[0] == "const":
            return x
        return tuple(sub(y) if isinstance(y, tuple) else y for y in x)
    e = _wp(reify(plain(sub(t))))
    tt = _tt(e, ["K", "M"])
    ok = all(bool(v) == (not a and not b) for (a, b), v in tt.items())
    rep.check(ok, "C04-R1", qual(f), "common Xs = bits that are X in every "
              "entry: ~(OR of keys | OR of masks)",
              construct="get_common_xs", node=f)


def _settable(f, rep):
    """The bits that can be set to stop the merge covering a lower entry:
    masked in the covered entry and X in the merge (mask & ~merge.mask),
    whatever temporaries spell it.  Read off the value terms of the AND
    chains that test single bits."""
    T = Terms(f)

    def flat(t):
        if t[0] == "binop" and t[1] == "BitAnd":
            return flat(t[2]) + flat(t[3])
        return [t]
    found = []
    for n in ast.walk(f):
        if not (isinstance(n, ast.BinOp) and isinstance(n.op, ast.BitAnd)):
            continue
        par = getattr(n, "_parent", None)
        if isinstance(par, ast.BinOp) and isinstance(par.op, ast.BitAnd):
            continue
        try:
            t = plain(T.term(n, T.cfg.node_containing(n), _comp_env(T, n)))
        except AnalysisError:
            continue
        ops = flat(t)
        # a chain that involves the merge's mask
        mm = [o for o in ops if any(
            st[0] == "attr" and st[2] == "mask" and st[1][0] in ("mu",
                                                                 "param")
            for st in subterms(o))]
        if not mm:
            continue
        rest = [o for o in ops if o not in mm and not (
            o[0] == "binop" and o[1] == "LShift" and o[2] == ("const", 1))
            and o[0] != "elem"]
        found.append((n, mm, rest))
    if not found:
        raise AnalysisError("_refine_downcheck: the test of the bits that "
                            "can be set was not found")
    ok = True
    for n, mm, rest in found:
        good_mm = len(mm) == 1 and mm[0][0] == "unop" and \
            mm[0][1] == "Invert" and mm[0][2][0] == "attr" and \
            mm[0][2][2] == "mask"
        from_scan = len(rest) == 1 and rest[0][0] == "comp" and \
            rest[0][1][0] == "elem" and any(
                st[0] == "call" and st[1] == (
                    "global", "_get_covered_keys_and_masks")
                for st in subterms(rest[0][1]))
        if not from_scan:
            # the other operand is not a component of what the scan of the
            # covered entries yields: another form, not analysed
            raise AnalysisError("_refine_downcheck: the bits that can be "
                                "set are computed from values these rules "
                                "do not recognise")
        good_m = rest[0][2] == 1
        if not (good_mm and good_m):
            ok = False
    rep.check(ok, "C04-R1", qual(f), "settable bits = masked in the covered "
              "entry and X in the merge", construct="settable truth table",
              node=f)


def single_of(X):
    """The ways of taking the only element of a one-element collection."""
    return [("call", ("global", "next"), (("call", ("global", "iter"),
                                           (X,), ()),), ()),
            ("comp", X, 0),
            ("comp", ("call", ("global", "list"), (X,), ()), 0),
            ("comp", ("call", ("global", "tuple"), (X,), ()), 0),
            ("elem", X)]


def straight_through(facts, ENT):
    """Which of the conditions 'exactly one source / one route / the source
    is not None / the route is a link / the source is the link opposite the
    route' are among the (canonical) facts about entry ``ENT``."""
    facts = [(plain(t), p) for t, p in facts]
    SRCS, ROUTE = ("attr", ENT, "sources"), ("attr", ENT, "route")
    got = set()

    def has(t, p):
        return (t, p) in facts
    ln = lambda X: ("call", ("global", "len"), (X,), ())   # noqa: E731
    if has(mk_cmp("Eq", ln(SRCS), ("const", 1)), True):
        got.add("one source")
    if has(mk_cmp("Eq", ln(ROUTE), ("const", 1)), True):
        got.add("one route")
    if has(mk_cmp("In", ("const", None), SRCS), False):
        got.add("source known")
    for S in single_of(SRCS):
        if has(is_none(S), False):
            got.add("source known")
        for K in single_of(ROUTE):
            if has(("attr", K, "is_link"), True):
                got.add("route is a link")
            for op in ("Is", "Eq"):
                if has(mk_cmp(op, ("attr", S, "opposite"), K), True) or \
                        has(mk_cmp(op, S, ("attr", K, "opposite")), True):
                    got.add("straight through")
    return got


STRAIGHT = ["one source", "one route", "source known", "route is a link",
            "straight through"]


def _true_returns(T, fn):
    """[(return statement, facts that hold when it returns a true value)]."""
    out = []
    for r in returns_of(fn):
        n = T.cfg.node_of(r)
        if r.value is None:
            continue
        v, pol = T.cond(r.value, n, True)
        if v == ("const", False) or v == ("const", None):
            continue
        cases = [[]]
        if v != ("const", True):
            # ``return not (a and b)`` is true in two ways: each is a way
            # of its own to return True
            from ..terms import split_cases
            cases = split_cases(v, pol) or [split_cond(v, pol)]
        for extra in cases:
            for ent, facts in T.facts_by_path(n):
                out.append((r, ent, list(facts) + extra, extra))
    return out


def r2_default(program, rep):
    fn = program.get(RD + ":_is_defaultable")
    inst = qual(fn)
    T = Terms(fn)
    cfg = T.cfg
    i, entry, table, chk = formals(fn)
    ENT = ("param", entry)
    trues = _true_returns(T, fn)
    if not trues:
        raise AnalysisError("_is_defaultable: no way to return True found")
    missing = set()
    alias_ok = True
    scan_ok = True
    I = ("param", i)
    for r, n, facts, extra in trues:
        missing |= set(STRAIGHT) - straight_through(facts, ENT)
        # the alias gate: the check is disabled, or no lower entry
        # intersects
        if (("param", chk), False) in facts:
            continue
        q = [x for x in T.quantified(n, extra, facts) if x[0] == "none"]
        found = False
        for _, it, conds in q:
            lower = it[0] == "item" and it[1] == ("param", table) and \
                it[2][0] == "slice" and it[2][2] == ("const", None) and \
                it[2][3] == ("const", None) and it[2][1] in (
                    ("binop", "Add", I, ("const", 1)),
                    ("binop", "Add", ("const", 1), I), I)
            D = ("elem", it)
            want = ("call", ("global", "intersect"),
                    (("attr", ENT, "key"), ("attr", ENT, "mask"),
                     ("attr", D, "key"), ("attr", D, "mask")), ())
            want2 = ("call", ("global", "intersect"),
                     (("attr", D, "key"), ("attr", D, "mask"),
                      ("attr", ENT, "key"), ("attr", ENT, "mask")), ())
            if len(conds) == 1 and conds[0][1] is True and \
                    conds[0][0] in (want, want2):
                found = True
                scan_ok = scan_ok and lower
        alias_ok = alias_ok and found
    for what in STRAIGHT:
        rep.check(what not in missing, "C04-R2", inst,
                  "an entry is dropped only if: %s" % what,
                  construct="defaultable requires %s" % what, node=fn,
                  fail="_is_defaultable can return True without '%s' "
                       "holding: an entry that default routing does not "
                       "reproduce is removed" % what)
    rep.check(alias_ok, "C04-R2", inst, "an entry is dropped only if the "
              "alias check is disabled or no lower entry intersects it",
              construct="defaultable alias gate", node=fn)
    rep.check(alias_ok and scan_ok, "C04-R2", inst, "the alias scan compares "
              "the entry's own (key, mask) with the (key, mask) of every "
              "entry below it (table[i+1:], no upper bound)",
              construct="alias scan", node=fn,
              fail="the alias scan does not test intersect(entry.key, "
                   "entry.mask, d.key, d.mask) for every d in table[i+1:]: "
                   "a lower entry that matches some of the dropped entry's "
                   "keys can capture them")
    # the shortcut that disables the check
    mn = program.get(RD + ":minimise")
    M = Terms(mn)
    tbl, _, chk2 = formals(mn)[:3]
    TBL = ("param", tbl)
    ln = lambda X: ("call", ("global", "len"), (X,), ())   # noqa: E731

    def setof(attr):
        # (set(<generator>) and the set comprehension are one term)
        return ("setcomp", ("attr", ("elem", TBL), attr), ((TBL, ()),))
    need = [(mk_cmp("Eq", ln(setof("mask")), ("const", 1)), True),
            (mk_cmp("Eq", ln(TBL), ln(setof("key"))), True)]
    ok = True
    n_off = 0
    for b_ in M.binds:
        if b_.var != chk2 or b_.mode != "assign":
            continue
        n_off += 1
        v, pol = M.cond(b_.value, b_.node, True)
        facts = [(plain(t), p) for t, p in M.all_facts(b_.node)]
        if v == ("const", True):
            continue
        if v != ("const", False):
            # the flag is off only when the assigned condition is false
            facts += [(plain(t), p) for t, p in split_cond(v, not pol)]
        ok = ok and all(x in facts for x in need)
    rep.check(ok and n_off >= 1, "C04-R2", qual(mn), "the alias check is "
              "skipped only when all masks are equal and all keys distinct "
              "(no two entries can match the same key)",
              construct="alias check shortcut", node=mn)
    # each entry is judged with its own index against the whole table
    cs = calls_in(mn, "_is_defaultable")
    okc = len(cs) == 1
    if okc:
        n = M.cfg.node_containing(cs[0])
        env = _comp_env(M, cs[0])
        b_ = bind(cs[0], fn)
        got = {k: M.term(v, n, env) for k, v in b_.items()
               if isinstance(v, ast.AST)}
        okc = got.get(i) == ("index", TBL) and \
            got.get(entry) == ("elem", TBL) and got.get(table) == TBL
        flag = got.get(chk)
        okc = okc and flag is not None and all(
            x == ("param", chk2) or x[0] in ("const", "not", "cmp")
            for x in alternatives(flag))
    rep.check(okc, "C04-R2", qual(mn), "each entry is judged with its own "
              "index in the table it is judged against",
              construct="defaultable call", node=mn)
    # the kept entries are exactly those that are not defaultable
    okk = False
    for r in returns_of(mn):
        if r.value is None:
            continue
        built = M.filtered(M.term(r.value))
        if built and len(built) == 1:
            it, elt, conds = built[0]
            okk = plain(it) == ("call", ("global", "enumerate"), (TBL,),
                                 ()) and elt == ("elem", TBL) and \
                len(conds) == 1 and conds[0][1] is False and \
                conds[0][0][0] == "call" and \
                conds[0][0][1] == ("global", "_is_defaultable")
            if not okk and len(conds) == 1 and conds[0][1] is False and \
                    conds[0][0][0] == "cmp" and conds[0][0][1] == "In" and \
                    conds[0][0][2] == ("index", TBL) and \
                    conds[0][0][3][0] == "new":
                # kept iff its index is not in the set of indices collected
                # (by one loop over the same table) under the predicate
                b2 = M.filtered(conds[0][0][3])
                if b2 and len(b2) == 1:
                    it2, elt2, conds2 = b2[0]
                    okk = plain(it) == plain(it2) == (
                        "call", ("global", "enumerate"), (TBL,), ()) and \
                        elt == ("elem", TBL) and \
                        elt2 == ("index", TBL) and len(conds2) == 1 and \
                        conds2[0][1] is True and \
                        conds2[0][0][0] == "call" and \
                        conds2[0][0][1] == ("global", "_is_defaultable")
                if not okk:
                    raise AnalysisError("remove_default_routes.minimise: "
                                        "the entries kept are chosen by "
                                        "their index in a collection whose "
                                        "construction is not analysed")
    rep.check(okk, "C04-R2", qual(mn), "the result keeps, in order, exactly "
              "the entries that are not defaultable",
              construct="kept entries", node=mn)
    # no rig call site disables the alias check by a constant
    for m in sorted(program.modules):
        if not m.startswith("rig."):
            continue
        mod = program.modules[m]
        for c in ast.walk(mod.tree):
            if not isinstance(c, ast.Call):
                continue
            for k in c.keywords:
                if k.arg == "check_for_aliases":
                    okk = not (isinstance(k.value, ast.Constant) and
                               not k.value.value)
                    rep.check(okk, "C04-R2", m, "call site does not disable "
                              "the alias check",
                              construct="check_for_aliases=%s" % unparse(
                                  k.value), node=c,
                              fail="%s passes check_for_aliases=%s: default "
                                   "routes are removed without looking for "
                                   "lower entries that capture their keys" %
                                   (unparse(c.func), unparse(k.value)))
            nm = call_name(c)[0]
            if nm in ("remove_default_routes", "remove_default_entries") \
                    or (nm == "minimise" and
                        "remove_default" in unparse(c.func)):
                if len(c.args) >= 3:
                    okk = not (isinstance(c.args[2], ast.Constant) and
                               not c.args[2].value)
                    rep.check(okk, "C04-R2", m, "call site does not disable "
                              "the alias check positionally",
                              construct="positional check_for_aliases",
                              node=c)
    rep.floor("C04-R2", 9)


def _comp_env(T, expr):
    """Bindings of the comprehension variables in scope at ``expr`` (an
    expression inside a comprehension of T.fn), as a term environment."""
    env = {}
    chain_ = []
    p = getattr(expr, "_parent", None)
    while p is not None and p is not T.fn:
        if isinstance(p, (ast.ListComp, ast.SetComp, ast.GeneratorExp,
                          ast.DictComp)):
            chain_.append(p)
        p = getattr(p, "_parent", None)
    for comp in reversed(chain_):
        n = T.cfg.node_containing(comp)
        for g in comp.generators:
            it = T.term(g.iter, n, env)
            T._bind_target(g.target, T._elem(it), env)
    return env


def _resolve(fl, expr, node):
    """Name -> text of its single reaching definition's value (one step)."""
    c = chain(expr)
    if c is None or "." in c:
        return unparse(expr)
    ds = fl.reaching(c, node)
    if len(ds) == 1 and ds[0].mode == "assign" and ds[0].value is not None:
        return unparse(ds[0].value)
    if len(ds) == 1 and ds[0].mode == "unpack" and \
            isinstance(ds[0].value, ast.Tuple) and ds[0].index is not None:
        return unparse(ds[0].value.elts[ds[0].index])
    return unparse(expr)


def _intersects(a, b, cond):
    """Is ``cond`` intersect(a.key, a.mask, b.key, b.mask) (either order)?
    a, b: terms of entries, or (key term, mask term) pairs."""
    def km(x):
        return x if isinstance(x, list) else [("attr", x, "key"),
                                              ("attr", x, "mask")]
    f = ("global", "intersect")
    return cond in (("call", f, tuple(km(a) + km(b)), ()),
                    ("call", f, tuple(km(b) + km(a)), ()))


def _upcheck_removal(up, T):
    """The removal of member i from the merge in the up-check:
    _Merge(table, entries - {i}) -> (call, node, merge term, index term)."""
    cfg = T.cfg
    rem = []
    P0 = ("attr", ("param", formals(up)[0]), "routing_table")
    for c in calls_in(up, "_Merge"):
        if len(c.args) < 2:
            continue
        n = cfg.node_containing(c)
        t = T.term(c.args[1], n)
        m = match(("binop", "Sub", ("attr", V("M"), "entries"),
                   ("new", ANY, ("set", V("i")))), t)
        # (every merge refined here is against the table of the merge given:
        # _Merge(table, ...) is only ever created with that table)
        if m is not None and T.term(c.args[0], n) in (
                ("attr", m["M"], "routing_table"), P0):
            rem.append((c, n, m["M"], m["i"]))
    if not rem:
        raise AnalysisError("_refine_upcheck: the removal of a member from "
                            "the merge was not found in the form analysed")
    return rem, P0


def r3_upcheck_range(program, rep):
    """What a merge member is compared with in the up-check: the key and
    mask of every entry between it and the insertion point.  Decided on the
    value terms of the scan (helpers are followed by the term engine)."""
    up = program.get(OC + ":_refine_upcheck")
    T = Terms(up)
    rem, P0 = _upcheck_removal(up, T)
    if len(rem) != 1:
        raise AnalysisError("_refine_upcheck: %d removals of a member" %
                            len(rem))
    c, n, M, I = rem[0]
    TABLES = (("attr", M, "routing_table"), P0)
    f = ("global", "intersect")
    verdicts = []
    for kind, it, conds in T.quantified(n):
        if kind != "some" or len(conds) != 1 or conds[0][1] is not True:
            continue
        cd = conds[0][0]
        if not (cd[0] == "call" and cd[1] == f and len(cd[2]) == 4
                and not cd[3]):
            continue
        outer = it[1] if it[0] == "nest" else it
        if not (outer[0] == "item" and outer[1] in TABLES):
            continue
        ENTRY = ("item", outer[1], I)
        mine = (("attr", ENTRY, "key"), ("attr", ENTRY, "mask"))
        a, b = tuple(cd[2][:2]), tuple(cd[2][2:])
        if b == mine:
            a, b = b, a
        if a != mine:
            continue
        E = ("elem", outer)
        own = (("attr", E, "key"), ("attr", E, "mask"))
        rng = outer[2][0] == "slice" and outer[2][1] in (
            ("binop", "Add", I, ("const", 1)),
            ("binop", "Add", ("const", 1), I), I) and \
            outer[2][2] == ("attr", M, "insertion_index") and \
            outer[2][3] == ("const", None)
        if b == own and it[0] != "nest":
            verdicts.append((rng, "the entries compared are %s" %
                             ("table[i+1 : insertion_index]" if rng else
                              "not all of table[i+1 : insertion_index]")))
        elif b[0][0] == "comp" and b[1][0] == "comp" and \
                b[0][1] == b[1][1] and b[0][1][0] == "elem" and \
                b[0][1][1][0] == "get" and \
                b[0][1][1][2] == ("tuple",) + own and \
                any(x[0] == "param" for x in subterms(b[0][1][1][1])):
            verdicts.append((False, "the member is compared with the keys "
                             "and masks a table looked up by the in-between "
                             "entry's key/mask stands for, not with the "
                             "entry's own key and mask: a merged entry "
                             "matches every key of its key/mask, not only "
                             "those of its aliases"))
    if not verdicts:
        raise AnalysisError("_refine_upcheck: the scan that decides the "
                            "removal of a member was not found in the form "
                            "analysed")
    ok = all(v for v, _ in verdicts)
    rep.check(ok, "C04-R3", qual(up), "up-check: a member at index i is "
              "removed when it intersects an entry of table[i+1 : "
              "insertion_index] (everything between it and where the merged "
              "entry will sit)", construct="up-check range", node=up,
              fail="; ".join(t for v, t in verdicts if not v))


r3_upcheck_range.helper_aware = True


def r3_ranges(program, rep):
    up = program.get(OC + ":_refine_upcheck")
    T = Terms(up)
    cfg = T.cfg
    rem, P0 = _upcheck_removal(up, T)
    # the flag returned with the merge is set whenever a member is removed
    # and never reset
    okc = False
    r = returns_of(up)
    flag_ = None
    if len(r) == 1 and r[0].value is not None:
        rt_ = T.term(r[0].value, cfg.node_of(r[0]))
        if rt_[0] == "tuple" and len(rt_) == 3 and rt_[2][0] == "mu":
            flag_ = rt_[2][1].var        # the variable merged at the return
        elif isinstance(r[0].value, ast.Tuple) and \
                len(r[0].value.elts) == 2:
            flag_ = chain(r[0].value.elts[1])
    if flag_ is None and rem:
        raise AnalysisError("_refine_upcheck: whether the merge changed is "
                            "not reported through a flag variable (e.g. it "
                            "is computed by comparing the members before and "
                            "after); that form is not analysed")
    if flag_ is not None and rem:
        flag = flag_
        binds = [b_ for b_ in T.binds if b_.var == flag]
        if any(b_.mode != "assign" or (
                b_.value is not None and not isinstance(b_.value,
                                                        ast.Constant) and
                any(chain(x) == flag for x in ast.walk(b_.value)))
               for b_ in binds):
            # changed = changed or <...>, changed |= <...>: accumulated
            raise AnalysisError("_refine_upcheck: the flag reported with "
                                "the merge is accumulated from its own "
                                "previous value; not analysed")
        rn = rem[0][1]
        loops = [x for x in ast.walk(up) if isinstance(x, (ast.For,
                                                            ast.While))]
        okc = bool(binds) and flag is not None
        n_true = 0
        for b_ in binds:
            v = b_.value if b_.mode == "assign" else None
            if not (isinstance(v, ast.Constant) and
                    isinstance(v.value, bool)):
                okc = False
                continue
            if v.value:
                n_true += 1
                okc = okc and (cfg.dominates(b_.node, rn) or
                               cfg.dominates(rn, b_.node))
            else:
                okc = okc and not any(_own_within(b_.node.ast, lp)
                                      for lp in loops)
        okc = okc and n_true >= 1
    rep.check(okc, "C04-R3", qual(up), "the flag returned with the merge is "
              "set whenever a member is removed and never reset",
              construct="up-check changed flag", node=up,
              fail="the 'changed' flag of the up-check can be reset after a "
                   "removal (or is not set by it): the repeated down-check "
                   "that must follow a shrunken merge may be skipped")
    rm = program.get(OC + ":_refine_merge")
    R = Terms(rm)
    dcs = calls_in(rm, "_refine_downcheck")
    ucs = calls_in(rm, "_refine_upcheck")
    okm = len(dcs) == 2 and len(ucs) == 1
    if okm:
        n1, n2 = [R.cfg.node_containing(c) for c in dcs]
        nu = R.cfg.node_containing(ucs[0])
        changed = R._comp(R.term(ucs[0], nu), 1, 2)
        okm = R.cfg.dominates(n1, nu) and R.cfg.dominates(nu, n2) and \
            (changed, True) in R.all_facts(n2)
        # ... and nothing but the merge having become too poor skips it
        if okm:
            hyp = R.under((changed, True))
            poor = [a for a in R.cfg.nodes if a.kind == "assume" and
                    any(st[0] == "attr" and st[2] == "goodness"
                        for st in subterms(R.cond(a.ast, a, True)[0]))]
            okm = hyp.cfg.must_pass(
                nu, lambda n: n is n2 or (n in poor and not R.cfg.dominates(
                    n, n2)), targets=[R.cfg.exit],
                avoid=[R.cfg.nodes[i] for i in hyp.dead])
    if not okm and _refine_merge_extra_conditions(rm):
        raise AnalysisError("_refine_merge: the second down-check depends "
                            "on a further condition (%s); not decided" %
                            ", ".join(_refine_merge_extra_conditions(rm)))
    rep.check(okm, "C04-R3", qual(rm), "down-check, then up-check, then the "
              "down-check again iff the up-check changed the merge",
              construct="refine order", node=rm)
    cv = program.get(OC + ":_get_covered_keys_and_masks")
    C = Terms(cv)
    mg, al = formals(cv)[:2]
    MG = ("param", mg)
    ys = [n for n in ast.walk(cv) if isinstance(n, ast.Yield)]
    if len(ys) != 1:
        raise AnalysisError("_get_covered_keys_and_masks: not a generator "
                            "with one yield; that form of the scan is not "
                            "analysed")
    ok = len(ys) == 1
    if ok:
        yn = C.cfg.node_containing(ys[0])
        yt = C.term(ys[0].value, yn)
        LOWER = ("elem", ("item", ("attr", MG, "routing_table"),
                          ("slice", ("attr", MG, "insertion_index"),
                           ("const", None), ("const", None))))
        KM = ("tuple", ("attr", LOWER, "key"), ("attr", LOWER, "mask"))
        ok = yt[0] == "elem"
        if ok:
            own = ("new", ANY, ("list", KM))
            own_t = ("tuple", KM)        # (a tuple display is no "new")
            seen_lookup = False
            for alt in alternatives(yt[1]):
                if match(own, alt) is not None or alt == own_t:
                    continue
                lk = lookup(alt)
                if alt[0] == "get" and len(alt) == 4:
                    lk = (alt[1], alt[2]) if match(own, alt[3]) is not None \
                        or alt[3] == own_t else None
                if lk is not None and lk[0] == ("param", al) and \
                        lk[1] == KM:
                    seen_lookup = True
                else:
                    ok = False
            ok = ok and seen_lookup
        if ok:
            ok = any(p and _intersects(
                [("attr", MG, "key"), ("attr", MG, "mask")],
                [C._comp(yt, 0, 2), C._comp(yt, 1, 2)], t)
                for t, p in C.all_facts(yn))
    skipped = []
    if ok:
        # ... and no entry is left out of the scan by another test on it
        for t, p in C.all_facts(yn):
            if any(st_ == LOWER for st_ in subterms(t)) and not _intersects(
                    [("attr", MG, "key"), ("attr", MG, "mask")],
                    [C._comp(yt, 0, 2), C._comp(yt, 1, 2)], t):
                skipped.append((t, p))
        if any(t[0] == "cmp" and t[1] == "In" and
               plain(t[3]) == ("attr", MG, "entries") for t, p in skipped):
            raise AnalysisError("_get_covered_keys_and_masks: members of "
                                "the merge itself are left out of the scan; "
                                "that form is not analysed")
    rep.check(ok and not skipped, "C04-R3", qual(cv), "down-check: every "
              "entry from the insertion index downwards, expanded through "
              "the aliases it stands for, is tested against the merged "
              "key/mask", construct="down-check range", node=cv,
              fail="the down-check leaves out entries below the insertion "
                   "point (only those with %s are looked at): a merged entry "
                   "can be placed above an entry whose keys it captures "
                   "without this being noticed" % "; ".join(
                       "%s%s" % ("" if p_ else "not ", show(t_)[:70])
                       for t_, p_ in skipped) if skipped else None)
    # the merging starts from the table in increasing order of generality,
    # entries of equal generality staying in the order given (a stable sort
    # on the generality alone)
    oc = program.get(OC + ":ordered_covering")
    O = Terms(oc)
    gm = calls_in(oc, "_get_best_merge")
    if not gm:
        raise AnalysisError("ordered_covering: the merge search is no "
                            "longer a call of _get_best_merge (inlined?); "
                            "which table it scans is not analysed in that "
                            "form")
    oks = len(gm) == 1
    if oks:
        tab = O.term(gm[0].args[0], O.cfg.node_containing(gm[0]))
        LP = ("lparam", 0)
        gen = ("lambda", 1, ("call", ("global", "_get_generality"),
                             (("attr", LP, "key"), ("attr", LP, "mask")),
                             ()))
        want = ("call", ("global", "sorted"), (("param", formals(oc)[0]),),
                (("key", gen),))
        def norm(x):
            # sorted(..., key=<nested one-line function>) reads as a lambda
            if x[0] == "call" and x[1] == ("global", "sorted") and x[3]:
                return x[:3] + (tuple((k, as_lambda(O, v))
                                      for k, v in x[3]),)
            return x
        alts = [norm(plain(x)) for x in alternatives(tab)]
        oks = want in alts and all(
            x == want or (x[0] == "comp" and x[2] == 0 and
                          x[1][0] == "call" and x[1][1][0] == "attr" and
                          x[1][1][2] == "apply") or x == ("rec",)
            for x in alts)
    rep.check(oks, "C04-R3", qual(oc), "merging starts from sorted(table, "
              "key=generality): increasing generality, ties in the given "
              "order (stable), and afterwards only merge.apply changes the "
              "table", construct="initial order", node=oc,
              fail="the table handed to the merge search is not the stable "
                   "sort of the caller's table by generality: entries of "
                   "equal generality may change places and a later entry "
                   "can take keys from an earlier one")
    rep.guard(["C04-R3", "C04-R4", "C04-R5"], _apply_rules, program, rep)
    rep.guard("C04-R3", _refine_order, program, rep)
    rep.guard("C04-R3", _downcheck_rescan, program, rep)
    rep.floor("C04-R3", 5)


def _own_within(node, anc):
    p = node
    while p is not None:
        if p is anc:
            return True
        p = getattr(p, "_parent", None)
    return False


def _loop(node):
    n = node
    while n is not None and not isinstance(n, (ast.For, ast.While)):
        n = getattr(n, "_parent", None)
    return n


def r4_aliases(program, rep):
    # the merging starts from the table in increasing order of generality,
    # entries of equal generality staying in the order given (a stable sort
    # on the generality alone)
    oc = program.get(OC + ":ordered_covering")
    O = Terms(oc)
    gm = calls_in(oc, "_get_best_merge")
    if not gm:
        raise AnalysisError("ordered_covering: the merge search is no "
                            "longer a call of _get_best_merge (inlined?); "
                            "which table it scans is not analysed in that "
                            "form")
    oks = len(gm) == 1
    if oks:
        tab = O.term(gm[0].args[0], O.cfg.node_containing(gm[0]))
        LP = ("lparam", 0)
        gen = ("lambda", 1, ("call", ("global", "_get_generality"),
                             (("attr", LP, "key"), ("attr", LP, "mask")),
                             ()))
        want = ("call", ("global", "sorted"), (("param", formals(oc)[0]),),
                (("key", gen),))
        def norm(x):
            # sorted(..., key=<nested one-line function>) reads as a lambda
            if x[0] == "call" and x[1] == ("global", "sorted") and x[3]:
                return x[:3] + (tuple((k, as_lambda(O, v))
                                      for k, v in x[3]),)
            return x
        alts = [norm(plain(x)) for x in alternatives(tab)]
        oks = want in alts and all(
            x == want or (x[0] == "comp" and x[2] == 0 and
                          x[1][0] == "call" and x[1][1][0] == "attr" and
                          x[1][1][2] == "apply") or x == ("rec",)
            for x in alts)
    rep.check(oks, "C04-R3", qual(oc), "merging starts from sorted(table, "
              "key=generality): increasing generality, ties in the given "
              "order (stable), and afterwards only merge.apply changes the "
              "table", construct="initial order", node=oc,
              fail="the table handed to the merge search is not the stable "
                   "sort of the caller's table by generality: entries of "
                   "equal generality may change places and a later entry "
                   "can take keys from an earlier one")
    r4_aliases_effects(program, rep)


def r4_aliases_effects(program, rep):
    """Aliases are copied, never shared: neither apply() nor
    ordered_covering() (whose default is a shared dict) changes the
    dictionary it is given - nor one of the sets kept in it (a set popped
    from a shallow copy of the dictionary is still the caller's set)."""
    if getattr(rep, "_r4_aliases_done", False):
        return
    rep._r4_aliases_done = True
    from ..effects import Effects
    eff = Effects(program)
    for spec in (OC + ":_Merge.apply", OC + ":ordered_covering"):
        f = program.get(spec)
        evs = eff.analyse(f)
        hits = [e for e in evs if e.kind == "mutate" and any(
            o[0] == "P" and o[1] == "aliases" and o[2] <= 2
            for o in e.origins)]
        rep.check(not hits, "C04-R4", qual(f), "the aliases dictionary "
                  "passed in is copied before it is updated (alias records "
                  "of one minimisation never reach another)",
                  construct="aliases mutated: %s" % (
                      hits[0].text if hits else ""), node=f,
                  fail="%s updates the aliases dictionary it was given (%s): "
                       "alias records survive into later minimisations "
                       "through the shared default argument" % (
                           f.name, hits[0].text if hits else ""),
                  positive=True)
    # members of a merge share one route
    gm = program.get(OC + ":_get_all_merges")
    G_ = Terms(gm)
    # what is handed to _Merge is a set seeded with one index; every other
    # index enters it only under "its entry's route equals the seed's"
    okg = False
    sets_ = []
    for c in ast.walk(gm):
        if isinstance(c, ast.Call) and call_name(c)[0] == "_Merge" and \
                len(c.args) == 2:
            sets_.append(G_.term(c.args[1], G_.cfg.node_containing(c)))
    if len(sets_) != 1 or sets_[0][0] != "new":
        raise AnalysisError("_get_all_merges: the candidate set")
    MS = sets_[0]
    adds = []
    for n_, c_, recv, args in method_calls(G_, ("add", "update")):
        if recv != MS or len(args) != 1:
            continue
        if c_.func.attr == "add":
            adds.append((args[0], [x for x in G_.all_facts(n_)
                                   if any(st_[0] == "attr" and
                                          st_[2] == "route"
                                          for st_ in subterms(x[0]))]))
        else:
            b_ = G_.filtered(args[0])
            if not b_ or len(b_) != 1:
                raise AnalysisError("_get_all_merges: how members are "
                                    "collected")
            adds.append((b_[0][1], list(b_[0][2])))
    if not adds:
        raise AnalysisError("_get_all_merges: how members are collected")

    def route_eq(cond):
        t, p = cond
        return p and t[0] == "cmp" and t[1] == "Eq" and all(
            x[0] == "attr" and x[2] == "route" for x in (t[2], t[3])) and \
            t[2] != t[3]
    okg = all(len(conds) == 1 and route_eq(conds[0])
              for elt, conds in adds)
    rep.check(okg, "C04-R4", qual(gm), "only entries with identical routes "
              "are merged", construct="merge candidates share route",
              node=gm)



def _refine_merge_extra_conditions(fn):
    """Tests in _refine_merge that look at something other than the
    goodness of a merge and the up-check's 'changed' flag (e.g. compare
    insertion indices): a further condition under which a step is skipped,
    whose justification these rules cannot judge."""
    out = []
    for n in ast.walk(fn):
        if isinstance(n, (ast.If, ast.IfExp, ast.While)):
            for x in ast.walk(n.test):
                if isinstance(x, ast.Attribute) and x.attr != "goodness":
                    out.append(x.attr)
                elif isinstance(x, ast.Call):
                    out.append(unparse(x.func))
    return sorted(set(out))

def _refine_order(program, rep):
    """_refine_merge: what it returns, by cases.  When the up-check changed
    a merge that is still good enough, the value returned is the result of a
    down-check of the up-checked merge (the up-check may have moved the
    insertion point above entries the first down-check never looked at)."""
    fn = program.get(OC + ":_refine_merge")
    inst = qual(fn)
    T = Terms(fn)
    ps = formals(fn)
    MERGE, MIN = _P(ps[0]), _P(ps[2])
    dcs = [c for c in ast.walk(fn) if isinstance(c, ast.Call) and
           call_name(c)[0] == "_refine_downcheck"]
    ups = [c for c in ast.walk(fn) if isinstance(c, ast.Call) and
           call_name(c)[0] == "_refine_upcheck"]
    if len(dcs) != 2 or len(ups) != 1:
        raise AnalysisError("_refine_merge: one up-check between two "
                            "down-checks expected")
    terms = [(c, T.term(c, T.cfg.node_containing(c))) for c in dcs]
    first = [t for c, t in terms if t[2][:1] == (MERGE,)]
    UP = T.term(ups[0], T.cfg.node_containing(ups[0]))
    if len(first) != 1 or UP[2][:1] != (first[0],):
        raise AnalysisError("_refine_merge: the first down-check is not "
                            "applied to the merge given / the up-check not "
                            "to its result")
    DC1 = first[0]
    M_UP, CH = ("comp", UP, 0), ("comp", UP, 1)
    second = [t for c, t in terms if t is not DC1]
    DC2 = second[0]
    okarg = DC2[2][:1] == (M_UP,) and DC1[2][1:] == DC2[2][1:]
    g1 = mk_cmp("Lt", MIN, ("attr", DC1, "goodness"))
    g2 = mk_cmp("Lt", MIN, ("attr", M_UP, "goodness"))
    rets = [r for r in returns_of(fn) if r.value is not None]

    def returned(*hyps):
        H = T.under(*hyps)
        out = []
        for r in rets:
            n = T.cfg.node_of(r)
            if H.live(n):
                out.extend(plain(x) for x in alternatives(H.term(r.value,
                                                                 n)))
        return out
    again = returned((g1, True), (CH, True), (g2, True))
    kept = returned((g1, True), (CH, False))
    poor = returned((g1, False))
    ok = okarg and again == [plain(DC2)] and kept == [plain(M_UP)] and \
        poor == [plain(DC1)]
    if not ok and _refine_merge_extra_conditions(fn):
        raise AnalysisError("_refine_merge: a step is taken or skipped "
                            "under a further condition (%s); whether the "
                            "merge returned is still checked against "
                            "everything it sits above is not decided" %
                            ", ".join(_refine_merge_extra_conditions(fn)))
    rep.check(ok, "C04-R3", inst, "a merge changed by the up-check and "
              "still good enough is down-checked again before it is "
              "returned; otherwise the up-checked (unchanged) or the "
              "discarded merge is returned as it is",
              construct="refine order", node=fn,
              fail="after the up-check removed entries from a merge that "
                   "is still good enough, _refine_merge returns %s instead "
                   "of the down-check of the up-checked merge: the merged "
                   "entry can land above an entry it then hides" % (
                       [show(x)[:60] for x in again],))


def _downcheck_rescan(program, rep):
    """Every round of the down-check looks at the entries below the
    insertion point of the merge as it is in that round (removing entries
    from a merge can move its insertion point up, past entries no earlier
    round has looked at)."""
    fn = program.get(OC + ":_refine_downcheck")
    inst = qual(fn)
    T = Terms(fn)
    loops = [w for w in ast.walk(fn) if isinstance(w, ast.While)]
    scans = [c for c in ast.walk(fn) if isinstance(c, ast.Call) and
             call_name(c)[0] == "_get_covered_keys_and_masks"]
    if len(loops) != 1 or not scans:
        raise AnalysisError("_refine_downcheck: the refinement loop / its "
                            "scan of the covered entries was not found")
    w = loops[0]
    ok = True
    why = ""
    for c in scans:
        if not _own_within(c, w):
            ok = False
            why = "the scan at line %d is made once, before the loop" % \
                c.lineno
            continue
        n = T.cfg.node_containing(c)
        a0 = T.term(c.args[0], n) if c.args else ("?",)
        cur = T.term(ast.Name(id=formals(fn)[0], ctx=ast.Load()),
                     T.cfg.loop_head[id(w)])
        if a0 != cur or a0[0] != "mu":
            ok = False
            why = "the scan at line %d is not given the merge of the " \
                "current round" % c.lineno
    # the list examined in a round is that round's scan (not a list carried
    # over from an earlier round)
    fors = [lp for lp in ast.walk(w) if isinstance(lp, ast.For)]
    used = False
    for lp in fors:
        it = T.term(lp.iter, T.cfg.loop_head[id(lp)])
        for st_ in subterms(it):
            if st_[0] in ("call", "callv") and st_[1] == (
                    "global", "_get_covered_keys_and_masks"):
                used = True
        if it[0] == "mu":
            for alt in alternatives(it):
                if any(x == ("rec",) for x in subterms(alt)):
                    ok = False
                    why = "the entries examined in a round are derived " \
                        "from the previous round's list"
    rep.check(ok and used, "C04-R3", inst, "each round of the down-check "
              "scans the table below the insertion point of the merge as it "
              "is in that round", construct="down-check rescan", node=fn,
              fail="the down-check does not re-scan the table for the "
                   "current merge in every round (%s): entries that come "
                   "to lie below the insertion point after the merge shrank "
                   "are never checked, and the merged entry can hide them" %
                   (why or "no scan feeds the round's examination"))


def _apply_rules(program, rep):
    """_Merge.apply: the table and alias dictionary it returns, read off the
    values it builds (whatever way the list is filled: slots written through
    a cursor, appends, or concatenated filtered segments)."""
    ap = program.get(OC + ":_Merge.apply")
    inst = qual(ap)
    T = Terms(ap)
    cfg = T.cfg
    SELF = _P("self")
    TAB, ENT, IDX = (("attr", SELF, a_) for a_ in (
        "routing_table", "entries", "insertion_index"))
    rets = [r for r in returns_of(ap) if r.value is not None]
    if len(rets) != 1:
        raise AnalysisError("apply: one return")
    rt = T.term(rets[0].value)
    if rt[0] != "tuple" or len(rt) != 3 or rt[2][0] != "new":
        raise AnalysisError("apply: returns (new table, new aliases)")
    L, ALI = rt[1], rt[2]
    rep.check(plain(ALI) == ("call", ("global", "dict"),
                             (_P(formals(ap)[1]),), ()), "C04-R4", inst,
              "the alias dictionary returned is a copy of the one given, "
              "updated", construct="alias copy", node=ap)
    # the merged entry
    NEW = None
    for st in subterms(("tuple",) + tuple(
            x for _, _, _, _, v in stores(T) for x in [v]) + tuple(
            a_ for _, _, _, args in method_calls(T, "append")
            for a_ in args)):
        if st[0] in ("call", "callv") and \
                st[1] == ("global", "RoutingTableEntry"):
            NEW = st
    if NEW is None:
        raise AnalysisError("apply: the merged entry")
    kw = dict(NEW[3])
    okn = not NEW[2] and kw.get("key") == ("attr", SELF, "key") and \
        kw.get("mask") == ("attr", SELF, "mask") and \
        kw.get("sources") == ("attr", SELF, "sources")
    r_ = plain(kw.get("route", ("?",)))
    okn = okn and r_[0] == "attr" and r_[2] == "route" and \
        r_[1][0] == "item" and r_[1][1] == TAB and r_[1][2] == (
            "call", ("global", "next"),
            (("call", ("global", "iter"), (ENT,), ()),), ())
    rep.check(okn, "C04-R4", inst, "the merged entry carries the merge's "
              "key, mask and sources and a member's route",
              construct="merged entry fields", node=ap)
    # the alias set of the merged entry
    OUR = None
    for n, st, base, key, val in stores(T):
        if base == ALI and key == ("tuple", ("attr", SELF, "key"),
                                   ("attr", SELF, "mask")) and \
                val[0] == "new" and not T.all_facts(n):
            OUR = val
    rep.check(OUR is not None and plain(OUR) in (
        ("call", ("global", "set"), (), ()),
        ("call", ("global", "set"), (("list",),), ()), ("set",)),
        "C04-R4", inst, "the alias set is filed under the merged entry's "
        "own (key, mask) and starts empty", construct="alias key", node=ap)
    if OUR is None:
        return
    E_T = ("elem", TAB)
    I_T = ("index", TAB)
    KM = ("tuple", ("attr", E_T, "key"), ("attr", E_T, "mask"))
    member = (("cmp", "In", I_T, ENT), True)
    present = ("cmp", "In", KM, ALI)
    adds = []
    for n, c, recv, args in method_calls(T, ("update", "add")):
        if recv == OUR and len(args) == 1:
            f = [x for x in T.all_facts(n)]
            adds.append((c.func.attr, plain(args[0]), f, n))
    if adds:
        lp0 = _loop(adds[0][3].ast)
        if lp0 is None or not isinstance(lp0, ast.For) or plain(T.term(
                lp0.iter, cfg.loop_head[id(lp0)])) != (
                    "call", ("global", "enumerate"), (TAB,), ()):
            # the removed entries are visited some other way (a loop over
            # the merge's own entries, indices into the table): that form
            # is not read
            raise AnalysisError("apply: the removed entries are not "
                                "recorded in a loop over enumerate(table); "
                                "that form is not analysed")
    pKM, pALI = plain(KM), plain(ALI)
    pop_def = ("call", ("attr", pALI, "pop"), (pKM, ("set", pKM)), ())
    pop_ = ("call", ("attr", pALI, "pop"), (pKM,), ())
    ok = False
    if len(adds) == 1:
        m_, a_, f, n = adds[0]
        ok = m_ == "update" and a_ == pop_def and f == [member]
    elif len(adds) == 2:
        there = [x for x in adds if (present, True) in x[2]]
        absent = [x for x in adds if (present, False) in x[2]]
        ok = len(there) == 1 and len(absent) == 1 and \
            there[0][0] == "update" and there[0][1] in (pop_, pop_def) and \
            sorted(map(repr, there[0][2])) == sorted(map(repr, [
                member, (present, True)])) and \
            sorted(map(repr, absent[0][2])) == sorted(map(repr, [
                member, (present, False)])) and (
                (absent[0][0] == "add" and absent[0][1] == pKM) or
                (absent[0][0] == "update" and absent[0][1] == ("set", pKM)))
    # ... for every member: the loop runs over the whole table
    if ok:
        lp = _loop(adds[0][3].ast)
        ok = lp is not None and isinstance(lp, ast.For) and \
            plain(T.term(lp.iter, cfg.loop_head[id(lp)])) in (
                ("call", ("global", "enumerate"), (TAB,), ()),) and \
            not any(isinstance(x, (ast.Break, ast.Continue, ast.Return))
                    for x in ast.walk(lp))
    if not adds:
        raise AnalysisError("apply: how removed entries are recorded")
    rep.check(ok, "C04-R4", inst, "every removed entry's key/mask - or "
              "everything it stood for - is recorded under the merged entry "
              "(and its own alias record is dropped)",
              construct="alias recording", node=ap,
              fail="removed entries are not recorded as aliases of the "
                   "merged entry: later down-checks no longer see the keys "
                   "they stood for")
    # the new table
    _apply_sequence(rep, ap, T, L, NEW, TAB, ENT, IDX)


def _apply_sequence(rep, ap, T, L, NEW, TAB, ENT, IDX):
    inst = qual(ap)
    cfg = T.cfg
    E_T, I_T = ("elem", TAB), ("index", TAB)
    LEN = _len(TAB)
    inner = plain(L)
    emits = []      # (node, "one"/"many", value, facts)
    for n, c, recv, args in method_calls(T, ("append", "extend", "insert",
                                             "pop", "remove", "sort",
                                             "reverse")):
        if recv != L:
            continue
        if c.func.attr == "append" and len(args) == 1:
            emits.append((n, "one", args[0], T.all_facts(n)))
        elif c.func.attr == "extend" and len(args) == 1:
            emits.append((n, "many", args[0], T.all_facts(n)))
        else:
            raise AnalysisError("apply: %s() on the new table" % c.func.attr)
    cursor = [x for x in stores(T) if x[2] == L]
    presized = None
    if cursor:
        if emits:
            raise AnalysisError("apply: slots and appends mixed")
        # L[k] = x; k += 1 with k starting at 0 is an append, provided the
        # list was created with exactly the number of slots written
        ks = set(x[3] for x in cursor)
        if len(ks) != 1 or list(ks)[0][0] != "mu":
            raise AnalysisError("apply: the cursor")
        kv = list(ks)[0][1].var
        binds = [b_ for b_ in T.binds if b_.var == kv]
        init = [b_ for b_ in binds if b_.mode == "assign" and
                T._bind_term(b_) == ("const", 0)]
        incs = [b_ for b_ in binds if b_ not in init]
        fl = Flow(ap)
        good = len(init) == 1 and len(incs) == len(cursor)
        for b_ in incs:
            good = good and fl.sym_after(
                ast.Name(id=kv, ctx=ast.Load()), b_.node) == fl.sym(
                ast.Name(id=kv, ctx=ast.Load()), b_.node) + 1
        heads = list(cfg.loop_head.values())
        for x in cursor:
            good = good and cfg.must_pass(
                x[0], lambda n_: any(n_ is b_.node for b_ in incs),
                targets=[y[0] for y in cursor if y is not x] + heads +
                [cfg.exit]) if x is not cursor[-1] or True else good
        # the store after the loop is the last write: no increment needed
        if not good:
            last = [x for x in cursor if _loop(x[1]) is None]
            good = len(init) == 1 and len(incs) == len(cursor) - len(last) \
                and all(cfg.must_pass(
                    x[0], lambda n_: any(n_ is b_.node for b_ in incs),
                    targets=[y[0] for y in cursor if y is not x] + heads +
                    [cfg.exit]) for x in cursor if x not in last)
        if not good:
            raise AnalysisError("apply: the cursor does not advance by one "
                                "per slot written")
        for x in cursor:
            emits.append((x[0], "one", x[4], T.all_facts(x[0])))
        if not (inner[0] == "listcomp" and inner[1] == ("const", None) and
                len(inner[2]) == 1 and not inner[2][0][1] and
                inner[2][0][0][0] == "call" and
                inner[2][0][0][1] == ("global", "range") and
                len(inner[2][0][0][2]) == 1):
            raise AnalysisError("apply: the pre-sized table")
        presized = inner[2][0][0][2][0]
        fl2 = Flow(ap)
        from ..terms import reify
        size = fl2.sym(_wp(reify(plain(presized))), fl2.cfg.entry)
        want = fl2.sym(_wp(reify(("binop", "Add", ("binop", "Sub", LEN,
                                                   _len(ENT)),
                                  ("const", 1)))), fl2.cfg.entry)
        rep.check(size == want, "C04-R5", inst, "apply returns a table of "
                  "len - |members| + 1 entries", construct="apply size",
                  node=ap, fail="the new table is created with %r slots, "
                  "not len(table) - len(members) + 1" % (size,))
        first = []
    else:
        if inner in (("list",), ("call", ("global", "list"), (), ())):
            first = []
        elif inner[0] == "listcomp":
            first = [(None, "many", L[2] if L[0] == "new" else L, [])]
        else:
            raise AnalysisError("apply: how the new table starts")
        rep.check(True, "C04-R5", inst, "apply returns a table of len - "
                  "|members| + 1 entries (one slot per surviving entry plus "
                  "the merged one: see the insertion rule)",
                  construct="apply size", node=ap)

    def before(a, b):
        return a is not b and (cfg.dominates(a, b) or (
            cfg.reaches(a, b) and not cfg.reaches(b, a)))
    import functools
    emits.sort(key=functools.cmp_to_key(
        lambda x, y: -1 if before(x[0], y[0]) else
        (1 if before(y[0], x[0]) else 0)))
    emits = first + emits
    pNEW = plain(NEW)

    def seg(t, lo, hi):
        t = plain(t)
        if t[0] != "listcomp" or len(t[2]) != 1:
            return False
        it, conds = t[2][0]
        rng = ("call", ("global", "range"))
        if it[:2] != rng:
            # survivors picked some other way than by position in a range
            # of indices (e.g. enumerate over a slice of the table)
            raise AnalysisError("apply: the surviving entries are collected "
                                "in a form that is not analysed")
        ok_r = it[:2] == rng and not it[3] and (
            (len(it[2]) == 2 and it[2][0] in lo and it[2][1] == hi) or
            (len(it[2]) == 1 and ("const", 0) in lo and it[2][0] == hi))
        if not ok_r:
            return False
        a_ = it[2][0] if len(it[2]) == 2 else ("const", 0)
        elt_ok = t[1][0] == "elem" and t[1][1][0] == "item" and \
            t[1][1][1] == TAB and t[1][1][2][0] == "slice" and \
            t[1][1][2][1] in (a_, ("const", None) if a_ == ("const", 0)
                              else a_) and t[1][1][2][2] == hi
        return elt_ok and list(conds) == [
            ("not", ("cmp", "In", ("elem", it), ENT))]
    ok = False
    kinds = [e[1] for e in emits]
    if kinds == ["one", "one", "one"] and any(
            st_[0] in ("mu", "phi") and plain(st_) != plain(IDX)
            for e in emits for t_, p_ in e[3] for st_ in subterms(t_)
            if st_[0] in ("mu", "phi") and getattr(
                st_[1], "var", None) not in (None,) and
            not any(st_ == x_ for x_ in subterms(I_T))):
        raise AnalysisError("apply: the merged entry is placed under a flag "
                            "/ counter these rules do not follow")
    if kinds == ["one", "one", "one"]:
        in_loop = [e for e in emits if _loop(e[0].ast) is not None]
        after = [e for e in emits if _loop(e[0].ast) is None]
        if len(in_loop) == 2 and len(after) == 1:
            e1 = [e for e in in_loop if plain(e[2]) == pNEW]
            e2 = [e for e in in_loop if e[2] == E_T]
            lp = _loop(in_loop[0][0].ast)
            ok = len(e1) == 1 and len(e2) == 1 and isinstance(lp, ast.For) \
                and plain(T.term(lp.iter, cfg.loop_head[id(lp)])) == (
                    "call", ("global", "enumerate"), (TAB,), ()) and \
                _loop(in_loop[1][0].ast) is lp and \
                [(plain(t), p_) for t, p_ in e1[0][3]] == [
                    (mk_cmp("Eq", IDX, I_T), True)] and \
                [(plain(t), p_) for t, p_ in e2[0][3]] == [
                    (("cmp", "In", I_T, ENT), False)] and \
                plain(after[0][2]) == pNEW and \
                [(plain(t), p_) for t, p_ in after[0][3]] == [
                    (mk_cmp("Eq", IDX, LEN), True)] and \
                cfg.reaches(e1[0][0], e2[0][0], avoid=[
                    cfg.loop_head[id(lp)]]) and \
                not cfg.reaches(e2[0][0], e1[0][0], avoid=[
                    cfg.loop_head[id(lp)]]) and \
                not any(isinstance(x, (ast.Break, ast.Continue, ast.Return))
                        for x in ast.walk(lp)) and \
                cfg.dominates(cfg.loop_head[id(lp)], after[0][0])
    elif kinds == ["many", "one", "many"]:
        ok = seg(emits[0][2], (("const", 0), ("const", None)), IDX) and \
            plain(emits[1][2]) == pNEW and not emits[1][3] and \
            seg(emits[2][2], (IDX,), LEN) and not emits[2][3]
    elif kinds == ["one", "one"] and all(
            isinstance(_loop(e[0].ast), ast.For) and
            plain(T.term(_loop(e[0].ast).iter,
                         cfg.loop_head[id(_loop(e[0].ast))])) == (
                "call", ("global", "enumerate"), (TAB,), ())
            for e in emits):
        # the in-loop insertion alone never fires for insertion_index ==
        # len(table)
        ok = False
    else:
        raise AnalysisError("apply: the new table is built in a way that is "
                            "not analysed (%s)" % kinds)
    rep.check(ok, "C04-R3", inst, "apply inserts the merged entry "
              "immediately before old index insertion_index (or at the end "
              "when that equals the table length) among the surviving "
              "entries, whose order is kept",
              construct="apply insertion point", node=ap,
              fail="the table returned by apply is not [survivors before "
                   "insertion_index] + [merged entry] + [survivors from "
                   "insertion_index on]")


def _wp(e):
    for n in ast.walk(e):
        for c in ast.iter_child_nodes(n):
            c._parent = n
    ast.fix_missing_locations(e)
    return e


def _P(n):
    return ("param", n)


def _len(t):
    return ("call", ("global", "len"), (t,), ())


def _meets(facts, target, size):
    """Do the facts say that ``size`` is within ``target`` (or that there is
    no target)?  strict: size < target."""
    if (is_none(target), True) in facts:
        return "no target"
    if (mk_cmp("Gt", size, target), False) in facts or \
            (mk_cmp("LtE", size, target), True) in facts:
        return "<="
    if (mk_cmp("Lt", size, target), True) in facts or \
            (mk_cmp("GtE", size, target), False) in facts:
        return "<"
    return None


def _exceeds(facts, target, size):
    return (is_none(target), False) in facts and (
        (mk_cmp("Gt", size, target), True) in facts or
        (mk_cmp("LtE", size, target), False) in facts)


def r5_contract(program, rep):
    """With a target the result meets it or MinimisationFailedError(target,
    reached) is raised: decided on canonical facts per path, so nesting,
    negation, operand order and temporaries do not matter."""
    oc = program.get(OC + ":ordered_covering")
    T = Terms(oc)
    rt, tl = formals(oc)[0], formals(oc)[1]
    TL = _P(tl)
    ok = False
    for r in raises_of(oc):
        if raise_name(r) != "MinimisationFailedError":
            continue
        n = T.cfg.node_of(r)
        args = [T.term(x, n) for x in r.exc.args]
        ok = len(args) == 2 and args[0] == TL and args[1][0] == "call" and \
            args[1][1] == ("global", "len")
        if ok:
            f = T.all_facts(n)
            ok = (_P("no_raise"), False) in f and _exceeds(f, TL, args[1])
    rep.check(ok, "C04-R5", qual(oc), "ordered_covering raises "
              "MinimisationFailedError(target, reached) exactly when a "
              "target is given, not met, and raising is not disabled",
              construct="ordered_covering failure", node=oc)
    lp = [n for n in ast.walk(oc) if isinstance(n, ast.While)]
    okl = len(lp) == 1
    if okl:
        after = T.cfg.loop_exit[id(lp[0])]
        paths = T.facts_by_path(after)
        okl = bool(paths)
        for ent, facts in paths:
            size = None
            for t, p in facts:
                if t[0] == "cmp" and t[1] in ("Lt", "LtE") and \
                        TL in (t[2], t[3]):
                    size = t[3] if t[2] == TL else t[2]
            met = size is not None and _meets(facts, TL, size) == "<="
            stuck = any(t[0] == "cmp" and t[1] == "LtE" and p and
                        t[3] == ("const", 0) and t[2][0] == "attr" and
                        t[2][2] == "goodness" for t, p in facts) or any(
                # (goodness counts entries: < 1 is <= 0)
                t[0] == "cmp" and t[1] == "Lt" and p and
                t[3] == ("const", 1) and t[2][0] == "attr" and
                t[2][2] == "goodness" for t, p in facts) or any(
                t[0] == "cmp" and t[1] == "Lt" and not p and
                t[2] == ("const", 0) and t[3][0] == "attr" and
                t[3][2] == "goodness" for t, p in facts)
            okl = okl and (met or stuck)
    if not okl and len(lp) == 1 and isinstance(lp[0].test, (
            ast.Name, ast.UnaryOp)) and not isinstance(
                lp[0].test, ast.Compare):
        t_ = lp[0].test.operand if isinstance(lp[0].test, ast.UnaryOp) \
            else lp[0].test
        if isinstance(t_, ast.Name):
            raise AnalysisError("ordered_covering: the merge loop runs "
                                "under a flag variable (%s); the paths that "
                                "set it are not followed" % t_.id)
    rep.check(okl, "C04-R5", qual(oc), "merging continues until the "
              "target is met or no merge removes an entry (goodness <= 0)",
              construct="ordered_covering loop", node=oc)
    rd = program.get(RD + ":minimise")
    R = Terms(rd)
    rtl = _P(formals(rd)[1])
    ok = True
    n_ret = 0
    for r in returns_of(rd):
        if r.value is None:
            continue
        n = R.cfg.node_of(r)
        size = _len(R.term(r.value, n))
        n_ret += 1
        for ent, facts in R.facts_by_path(n):
            ok = ok and _meets(facts, rtl, size) in ("no target", "<=", "<")
    okx = False
    for r in raises_of(rd):
        if raise_name(r) != "MinimisationFailedError":
            continue
        n = R.cfg.node_of(r)
        args = [R.term(x, n) for x in r.exc.args]
        okx = len(args) == 2 and args[0] == rtl and \
            _exceeds(R.all_facts(n), rtl, args[1])
    rep.check(ok and okx and n_ret >= 1, "C04-R5", qual(rd), "default-route "
              "removal returns its table only when there is no target or "
              "the table meets it, and otherwise raises "
              "MinimisationFailedError(target, size)",
              construct="default removal contract", node=rd)
    # the front end
    mt = program.get(MI + ":minimise_table")
    M = Terms(mt)
    tb, mtl, meths = formals(mt)[:3]
    okr = False
    for r in raises_of(mt):
        if raise_name(r) == "MinimisationFailedError":
            n = M.cfg.node_of(r)
            okr = M.term(r.exc.args[0], n) == _P(mtl) and \
                (is_none(_P(mtl)), False) in M.all_facts(n)
    # every minimiser is a member of the method list, headed by the
    # identity, and is applied to the caller's table and target
    calls = []
    for c in ast.walk(mt):
        if isinstance(c, ast.Call) and isinstance(c.func, ast.Name):
            n = M.cfg.node_containing(c)
            env = _comp_env(M, c)
            ft = M.term(c.func, n, env)
            if ft[0] == "elem":
                calls.append((c, ft, [M.term(x, n, env) for x in c.args]))
    okm = bool(calls)
    bad_call = None
    lists = set()
    for c, ft, args in calls:
        lists.add(ft[1])
        good = len(args) == 2 and args[0] == _P(tb) and (
            args[1] == _P(mtl) or args[1] == ("const", None))
        if not good:
            bad_call = c
        okm = okm and good
    # (whether the identity comes first in the method list only matters for
    # speed: not checked)
    rep.check(okr, "C04-R5", qual(mt), "with a target, when no method "
              "succeeds MinimisationFailedError(target, best) is raised",
              construct="minimise_table contract", node=mt)
    rep.check(okm, "C04-R5", qual(mt), "every minimiser is applied to the "
              "caller's own table and target (never to another minimiser's "
              "output)", construct="minimiser input", node=bad_call or mt,
              fail="a minimiser is applied to something other than the "
                   "caller's table: e.g. ordered covering run on a table "
                   "whose default-routed entries were already removed "
                   "merges entries that capture the removed entries' keys")
    idf = program.get(MI + ":_identity")
    I = Terms(idf)
    itb, itl = formals(idf)[:2]
    ok = True
    n_ret = 0
    for r in returns_of(idf):
        if r.value is None:
            continue
        n = I.cfg.node_of(r)
        if I.term(r.value, n) != _P(itb):
            ok = False
            continue
        n_ret += 1
        for ent, facts in I.facts_by_path(n):
            ok = ok and _meets(facts, _P(itl), _len(_P(itb))) is not None
    rep.check(ok and n_ret >= 1, "C04-R5", qual(idf), "the unminimised "
              "table is returned only when it meets the target",
              construct="identity contract", node=idf)
    mts = program.get(MI + ":minimise_tables")
    S = Terms(mts)
    cs = calls_in(mts, "minimise_table")
    okt = len(cs) == 1
    if okt:
        n = S.cfg.node_containing(cs[0])
        b_ = bind(cs[0], mt)
        E = ("elem", ("items", _P(formals(mts)[0])))
        tgt = S.term(b_[mtl], n) if mtl in b_ else None
        CHIP = ("comp", E, 0)
        TL = _P(formals(mts)[1])

        bypass = []

        def tgt_ok(x, depth=0):
            # the caller's target itself, or an entry of it for this chip
            if x == TL:
                return True
            if lookup(x) is not None:
                if x[0] == "get" and len(x) == 3 and any(
                        plain(a_)[0] == "call" and
                        plain(a_)[1][-1] == "defaultdict"
                        for a_ in alternatives(x[1])):
                    # .get() does not call a defaultdict's factory: the
                    # target silently becomes None (no limit)
                    bypass.append(x)
                    return False
                return lookup(x)[1] == CHIP
            if x[0] in ("call", "callv") and x[1][0] in ("local", "mu") \
                    and depth < 2:
                hname = x[1][1] if x[1][0] == "local" else x[1][1].var
                helper = [h for h in ast.walk(mts)
                          if isinstance(h, ast.FunctionDef) and
                          h.name == hname and h is not mts]
                # (the name may be bound to one of several local
                # definitions, e.g. one per form of the target: all count)
                if helper and CHIP in x[2]:
                    outs = []
                    for h in helper:
                        for view in S.inners(h):
                            for r in returns_of(h):
                                if r.value is not None:
                                    outs.append(view.term(r.value))
                    return bool(outs) and all(tgt_ok(o, depth + 1)
                                              for o in outs)
            return False
        okt = S.term(b_[tb], n) == ("comp", E, 1) and tgt is not None and \
            tgt_ok(tgt) and \
            S.term(b_.get(meths, ast.Constant(value=0)), n) == \
            _P(formals(mts)[2])
    rep.check(okt, "C04-R5", qual(mts), "each chip's table is minimised "
              "against that chip's own target with the caller's methods",
              construct="minimise_tables call", node=mts,
              fail="the target handed to minimise_table is read with .get() "
                   "from a collections.defaultdict, which does not use the "
                   "default factory: an integer target is lost (None = no "
                   "limit) and a table that is too large is returned "
                   "silently" if (okt is False and bypass) else None)
    if okt:
        # what is filed for the chip is the table the minimiser returned, as
        # it is: an entry with an empty route set ("drop here") is an entry
        # like any other - without it the packet is default-routed onwards
        RES = S.term(cs[0], S.cfg.node_containing(cs[0]))
        filed = [x for x in stores(S) if plain(x[3]) == plain(CHIP)]
        if not filed:
            raise AnalysisError("minimise_tables: where the minimised table "
                                "of a chip is stored was not found")
        def same_table(v):
            if v == RES:
                return True
            v = strip_new(v)
            if v[0] == "call" and v[1] == ("global", "list") and \
                    v[2] == (RES,) and not v[3]:
                return True
            return v[0] == "listcomp" and v[1] == ("elem", RES) and \
                v[2] == ((RES, ()),)
        oks = all(same_table(x[4]) for x in filed)
        if not oks and not all(
                any(st_ == RES for st_ in subterms(x[4])) for x in filed):
            raise AnalysisError("minimise_tables: the table stored for a "
                                "chip is not derived from minimise_table's "
                                "result in a form these rules read")
        rep.check(oks, "C04-R5", qual(mts), "the table stored for a chip is "
                  "the minimiser's result, unchanged",
                  construct="minimise_tables stores result", node=mts,
                  fail="the table stored for a chip is not the minimiser's "
                       "result itself but %s: entries are dropped or "
                       "changed after minimisation (an entry with an empty "
                       "route set absorbs packets; without it they are "
                       "default-routed on)" % show(filed[0][4])[:80])
    om = program.get(OC + ":minimise")
    O = Terms(om)
    okc = False
    for r in returns_of(om):
        t = O.term(r.value) if r.value is not None else None
        if t is None or t[0] != "call" or \
                t[1] != ("global", "remove_default_routes"):
            continue
        b_ = dict(zip(formals(rd), t[2]))
        b_.update(dict(t[3]))
        inner = b_.get(formals(rd)[0])
        okc = inner is not None and inner[0] == "comp" and inner[2] == 0 \
            and inner[1][0] == "call" and \
            inner[1][1] == ("global", "ordered_covering") and \
            b_.get(formals(rd)[1]) == _P(formals(om)[1]) and \
            b_.get(formals(rd)[2], ("const", True)) == ("const", True)
        if okc:
            ob = dict(zip(formals(oc), inner[1][2]))
            ob.update(dict(inner[1][3]))
            okc = ob.get(rt) == _P(formals(om)[0]) and \
                ob.get(tl) == _P(formals(om)[1]) and \
                ob.get("no_raise") == ("const", True)
    rep.check(okc, "C04-R5", qual(om), "ordered covering is followed by "
              "default-route removal (with alias checking) against the "
              "same target", construct="oc minimise chain", node=om)
    rep.floor("C04-R5", 8)


def r6_empty(program, rep):
    fn = program.get(OC + ":_get_insertion_index")
    inst = qual(fn)
    rt = formals(fn)[0]
    L = Poly.atom("len(%s)" % rt)
    # candidate invariants: every ordering among the integer locals, 0 and
    # the table length
    names = sorted(set(
        n.id for n in ast.walk(fn) if isinstance(n, ast.Name) and
        isinstance(n.ctx, ast.Store) and _own(n, fn)))
    lens = set()
    for n in ast.walk(fn):
        if isinstance(n, ast.Assign) and isinstance(n.value, ast.Call) and \
                call_name(n.value)[0] == "len" and \
                chain(n.value.args[0]) == rt:
            lens.update(chain(t) for t in n.targets if chain(t))
    atoms = [Poly.atom(x) for x in names]
    cands = [le(1, L)]
    for a in atoms:
        cands += [le(0, a), lt(a, L), le(a, L)]
        for b_ in atoms:
            if a is not b_:
                cands += [le(a, b_), lt(a, b_)]
    for x in lens:
        cands += list(eq(Poly.atom(x), L))
    it = Interp(fn, candidates=cands)
    obligations = []      # (index expression, node where it is evaluated)
    for s_ in ast.walk(fn):
        if not (isinstance(s_, ast.Subscript) and chain(s_.value) == rt and
                isinstance(s_.ctx, ast.Load)):
            continue
        if _own(s_, fn):
            obligations.append((s_.slice, s_, it.cfg.node_containing(s_)))
            continue
        # inside a nested helper: the index must be one of its parameters,
        # checked at every call
        h = s_
        while h is not None and not isinstance(h, ast.FunctionDef):
            h = getattr(h, "_parent", None)
        ps = formals(h) if h is not None and h is not fn else []
        if chain(s_.slice) not in ps or getattr(h, "_parent", None) is not \
                fn:
            raise AnalysisError("_get_insertion_index: a table access in a "
                                "form that is not analysed")
        k = ps.index(chain(s_.slice))
        sites = [c for c in ast.walk(fn) if isinstance(c, ast.Call) and
                 isinstance(c.func, ast.Name) and c.func.id == h.name]
        if not sites or not all(_own(c, fn) and len(c.args) > k
                                for c in sites):
            raise AnalysisError("_get_insertion_index: helper call sites")
        for c in sites:
            obligations.append((c.args[k], c, it.cfg.node_containing(c)))
    if not obligations:
        raise AnalysisError("_get_insertion_index: no table access found")
    for e, at, node in obligations:
        if not it.reachable(node):
            continue
        idx = it.sym(e, node)
        ok = it.holds_at(node, [le(0, idx), lt(idx, L)])
        rep.check(ok, "C04-R6", inst, "%s[%s] is within range (0 <= index < "
                  "len) on every path, including for the empty table" % (
                      rt, unparse(e)),
                  construct="index %s in range" % unparse(e),
                  node=at,
                  fail="%s[%s] may be out of range (IndexError on the empty "
                       "table?); state: %s" % (rt, unparse(e),
                                               it.describe(node)))
    rep.floor("C04-R6", 2)


def _own(node, fn):
    n = getattr(node, "_parent", None)
    while n is not None:
        if isinstance(n, (ast.FunctionDef, ast.Lambda)):
            return n is fn
        n = getattr(n, "_parent", None)
    return False


def r3_changed_flag(program, rep):
    """_refine_upcheck hands back (merge, changed) and _refine_merge repeats
    the down-check only when ``changed`` is true.  Followed over the paths of
    the function as a two-valued state - has the merge been replaced by a
    smaller one, is the flag set: no return is reached with a replaced merge
    and the flag still false (a merge that lost members sits at a new place
    in the table and may cover entries below it that the first down-check
    never compared it with).  A merge given up altogether (``_Merge(table)``)
    needs no further check and counts as not replaced."""
    from ..cfg import cfg_of
    up = program.get(OC + ":_refine_upcheck")
    inst = qual(up)
    rets = [r for r in returns_of(up) if r.value is not None]
    pairs = set()
    for r in rets:
        v = r.value
        if not (isinstance(v, ast.Tuple) and len(v.elts) == 2 and
                all(isinstance(e, ast.Name) for e in v.elts)):
            raise AnalysisError("_refine_upcheck: does not return a pair of "
                                "two names (merge, changed) in this form")
        pairs.add((v.elts[0].id, v.elts[1].id))
    if len(pairs) != 1:
        raise AnalysisError("_refine_upcheck: the returns name different "
                            "variables")
    mvar, cvar = pairs.pop()
    if cvar in formals(up) or mvar not in formals(up):
        raise AnalysisError("_refine_upcheck: (merge, changed) are not the "
                            "parameter and a local flag")

    def own(n):
        x = getattr(n, "_parent", None)
        while x is not None and not isinstance(
                x, (ast.FunctionDef, ast.AsyncFunctionDef, ast.Lambda)):
            x = getattr(x, "_parent", None)
        return x is up
    for n in ast.walk(up):
        if isinstance(n, ast.Name) and n.id in (mvar, cvar) and \
                isinstance(n.ctx, (ast.Store, ast.Del)) and own(n):
            st = n._parent
            if not (isinstance(st, ast.Assign) and len(st.targets) == 1 and
                    st.targets[0] is n):
                raise AnalysisError("_refine_upcheck: %s is bound by a form "
                                    "this rule does not read" % n.id)
            if n.id == cvar and not (isinstance(st.value, ast.Constant) and
                                     isinstance(st.value.value, bool)):
                raise AnalysisError("_refine_upcheck: the flag is not set "
                                    "to a literal truth value")
            if n.id == mvar and not (isinstance(st.value, ast.Call) and
                                     call_name(st.value)[0] == "_Merge"):
                raise AnalysisError("_refine_upcheck: the merge is replaced "
                                    "by something other than a new _Merge")
    cfg = cfg_of(up)
    states = {cfg.entry.id: {(0, False)}}
    work = [cfg.entry]
    bad = []
    while work:
        n = work.pop()
        out = set()
        for (reb, chg) in states.get(n.id, ()):
            a = n.ast
            if n.kind == "stmt" and isinstance(a, ast.Assign) and \
                    isinstance(a.targets[0], ast.Name):
                if a.targets[0].id == cvar:
                    chg = a.value.value
                elif a.targets[0].id == mvar:
                    given_up = len(a.value.args) == 1 and \
                        not a.value.keywords
                    reb = 0 if given_up else a.lineno
            if n.kind == "stmt" and isinstance(a, ast.Return) and reb and \
                    not chg:
                bad.append((reb, a))
            out.add((reb, chg))
        for s_ in n.succ:
            cur = states.setdefault(s_.id, set())
            if not out <= cur:
                cur |= out
                work.append(s_)
    bad = sorted(set((l, r.lineno) for l, r in bad))
    rep.check(not bad, "C04-R3", inst, "no return hands back a merge that "
              "lost members with the changed flag still false",
              construct="changed flag", node=up, positive=True,
              fail="the merge replaced at line %d reaches the return at line "
                   "%d with %s still False: _refine_merge then skips the "
                   "second down-check, and the smaller merge is inserted "
                   "above entries it covers" % (
                       bad[0][0] if bad else 0, bad[0][1] if bad else 0,
                       cvar))


def r3_upcheck_all_members(program, rep):
    """Every member of the merge is examined by the up-check: the member
    loop is left early only once the merge has been given up (its goodness
    fell to the threshold).  _refine_merge runs the up-check once and does
    not come back to it, so a loop that stops after the first removal
    leaves the members above it unexamined - they are merged and put below
    an entry that matches their keys."""
    up = program.get(OC + ":_refine_upcheck")
    rm = program.get(OC + ":_refine_merge")
    T = Terms(up)
    cfg = T.cfg
    rem, P0 = _upcheck_removal(up, T)
    ucs = [c for c in ast.walk(rm) if isinstance(c, ast.Call) and
           call_name(c)[0] == "_refine_upcheck"]
    if len(ucs) != 1 or _loop(ucs[0]) is not None:
        raise AnalysisError("_refine_merge: the up-check is not called "
                            "exactly once outside any loop; whether every "
                            "member gets examined is not analysed")
    lp = _loop(rem[0][0])
    if lp is None or not isinstance(lp, ast.For):
        raise AnalysisError("_refine_upcheck: the members are not examined "
                            "by a for loop over the merge's entries")
    exits = [x for x in ast.walk(lp) if isinstance(x, (ast.Break,
                                                        ast.Return)) and
             _loop(x) is lp or (isinstance(x, ast.Return) and
                                _own_within(x, lp) and _fn_of(x) is up)]
    exits = list(dict((id(x), x) for x in exits).values())
    bad = []
    for x in exits:
        if isinstance(x, ast.Return) and x.value is not None and any(
                isinstance(c, ast.Call) and
                call_name(c)[0] == "_refine_upcheck"
                for c in ast.walk(x.value)):
            raise AnalysisError("_refine_upcheck: restarts itself on the "
                                "shrunken merge; not analysed")
        facts = T.all_facts(cfg.node_of(x))
        given_up = any(
            t[0] == "cmp" and any(st[0] == "attr" and st[2] == "goodness"
                                  for st in subterms(t)) and
            any(st == ("param", formals(up)[1]) for st in subterms(t))
            for t, p_ in facts)
        if not given_up:
            bad.append(x)
    rep.check(not bad, "C04-R3", qual(up), "the up-check examines every "
              "member: its loop is left early only when the merge has been "
              "given up (goodness at or below the threshold)",
              construct="up-check examines all members (%d early exit(s))" %
              len(exits), node=bad[0] if bad else up,
              fail="the member loop of the up-check is left after a removal "
                   "although the merge is still being pursued: the members "
                   "above the one removed are never compared with the "
                   "entries between them and the insertion point, and "
                   "_refine_merge does not run the up-check again")


def _fn_of(n):
    p = getattr(n, "_parent", None)
    while p is not None and not isinstance(p, (ast.FunctionDef,
                                               ast.AsyncFunctionDef)):
        p = getattr(p, "_parent", None)
    return p


def check(program, rep):
    program.module(OC)
    rep.guard("C04-R1", r1_algebra, program, rep)
    rep.guard("C04-R2", r2_default, program, rep)
    rep.guard("C04-R3", r3_upcheck_range, program, rep)
    rep.guard("C04-R3", r3_ranges, program, rep)
    rep.guard("C04-R3", r3_upcheck_all_members, program, rep)
    rep.guard("C04-R3", r3_changed_flag, program, rep)
    rep.guard("C04-R4", r4_aliases_effects, program, rep)
    rep.guard("C04-R4", r4_aliases, program, rep)
    rep.guard("C04-R5", r5_contract, program, rep)
    rep.guard("C04-R6", r6_empty, program, rep)
    # arguments handed to package functions under the wrong name / same-
    # named optional parameters not passed on (NAMELINK, DESIGN.md 9.13)
    from .. import namelink as _nl
    rep.guard("C04-R7", _nl.rule, program, rep, "C04-R7",
              [m for m in sorted(program.modules) if m.startswith("rig.routing_table")])
    return finish(rep, program, EXPLANATION, NOT_DECIDED,
                  trusted=["bit-parallel truth-table extraction (bits.py)",
                           "LININV engine"])
