"""C18 - commands go to the chip, core and application the caller named.

R1 resolution order in the decorator (defaults < context < explicit) and the
   Required check before the call
R2 push/pop pairing of context blocks on all exits; callbacks before the pop
R3 role-preserving forwarding of x/y/p/app_id/cabinet/frame/board at every
   internal call of both controllers, down to the packet
R4 every decorated method can be satisfied
R5 connection choice
R6 the standard-library API used exists on this interpreter
"""
import ast

from ..core import AnalysisError, finish, unparse
from ..dataflow import Flow, chain, call_name
from ..link import check_module
from ..poly import Poly
from ..roles import RoleFlow, check_call, name_role
from ..terms import Terms, reify, plain, match, V, ANY, show, subterms, \
    mk_cmp, is_none, method_calls, alternatives, layers, stores
from ..util import calls_in, qual, formals, returns_of, raises_of, \
    raise_name, has_fact, decorator_names, bind

CX = "rig.utils.contexts"
MC = "rig.machine_control.machine_controller"
BMP = "rig.machine_control.bmp_controller"
SCP = "rig.machine_control.scp_connection"
GEO = "rig.geometry"

# constants accepted for a role when the caller has no value of that role
ALLOWED_CONSTS = {"x": (255,), "y": (255,), "p": (0,), "processor": (0,),
                  "board": (0,)}
# (caller, callee, formal) -> reason: deliberate deviations from "a role in
# scope must be forwarded", each confirmed by reading the source
EXEMPT = {
    ("MachineController._get_vcpu_field_and_address",
     "MachineController.read_struct_field", "p"):
        "sv (holding vcpu_base) is read through core 0; p indexes the block",
    ("MachineController.read_vcpu_struct_field", "MachineController.read",
     "p"): "the per-core block of core p is read through core 0",
    ("MachineController.write_vcpu_struct_field", "MachineController.write",
     "p"): "the per-core block of core p is written through core 0",
    ("MachineController.get_processor_status", "MachineController.read",
     "p"): "the per-core block of core p is read through core 0",
    ("MachineController.get_processor_status",
     "MachineController.read_struct_field", "p"):
        "sv is read through core 0",
    ("MachineController.get_iobuf_bytes",
     "MachineController.read_struct_field", "p"): "sv is read via core 0",
    ("MachineController.get_iobuf_bytes", "MachineController.read", "p"):
        "IOBUF memory is read through core 0",
    ("MachineController.application", "MachineController.send_signal",
     "app_id"): "the stop signal runs inside the context block created with "
                "that app_id (it is on the stack until after the callbacks)",
    ("BMPController.set_power", "BMPController._send_scp", "board"):
        "power commands go to board 0's BMP; the boards affected are the "
        "bit mask in arg2",
}

EXPLANATION = (
    "R1: the dictionary passed as **keywords to the wrapped method is read "
    "as an ordered overlay of layers (constructor, update(), loops copying "
    "the entries of a mapping, with or without a 'key already present' "
    "guard; any spelling): signature defaults offset by 1 + len(args) "
    "(missing ones Required), keyword-only defaults, context values for "
    "names already present, the explicit kwargs; the Required scan over "
    "the finished dictionary dominates the call; the context dictionary "
    "overlays the stack oldest to newest. R2: "
    "every path through Context.__exit__ (normal and exceptional) passes "
    "the pop, which is not inside an assert, after the callbacks. R3: ROLES "
    "inference over every self.* call of MachineController and "
    "BMPController (and the hop to SCPConnection.send_scp and the packet "
    "constructor): an X value never reaches a Y formal, a role the caller "
    "holds is forwarded explicitly, constants only from the allow-list. "
    "R4/R5: declared keyword-only arguments, connection lookup order and "
    "the geometry call's argument order and index formula. R6: LINK.")
EXPLANATION += (
    " R2 also checks that get_new_context hands the Context exactly its "
    "keyword arguments (terms; no snapshot of the arguments in force).")
NOT_DECIDED = ["timing of the stop signal on the wire",
               "values passed positionally through *args by user code"]


def r1_decorator(program, rep):
    dec = program.get(CX + ":ContextMixin.use_contextual_arguments."
                           "decorator")
    fn = program.get(CX + ":ContextMixin.use_contextual_arguments."
                          "decorator.f_")
    outer = program.get(CX + ":ContextMixin.use_contextual_arguments")
    inst = qual(fn)
    TO = Terms(outer)
    TD = Terms(dec, outer=(TO, TO.cfg.exit))
    T = Terms(fn, outer=(TD, TD.cfg.exit))
    cfg = T.cfg
    ps = formals(fn)
    va, kw = fn.args.vararg.arg, fn.args.kwarg.arg
    F = ("param", formals(dec)[0])
    calls = [c for st in fn.body for c in ast.walk(st)
             if isinstance(c, ast.Call) and isinstance(c.func, ast.Name) and
             T.term(c.func, cfg.node_containing(c)) == F]
    if len(calls) != 1:
        raise AnalysisError("decorator wrapper: expected one call of the "
                            "wrapped method")
    cn = cfg.node_containing(calls[0])
    ct = T.term(calls[0], cn)
    D = None
    okf = ct[0] in ("call", "callv") and ct[2] == (
        ("param", ps[0]), ("star", ("param", va))) and len(ct[3]) == 1 and \
        ct[3][0][0] == "**"
    if okf:
        D = ct[3][0][1]
    rep.check(okf, "C18-R1", inst, "the method is called with the caller's "
              "positional arguments and the resolved keywords",
              construct="wrapped call", node=calls[0])
    if D is None or D[0] != "new":
        raise AnalysisError("decorator wrapper: the keywords passed on are "
                            "not a dictionary built here")
    L = layers(T, D)
    lay = [plain(l) for l, n in L]
    SPEC = None
    for st in (x for l_ in lay for x in subterms(l_)):
        if st[0] == "call" and st[1] == ("attr", ("global", "inspect"),
                                         "getfullargspec") and \
                st[2] == (F,):
            SPEC = ("item", st, ("slice", ("const", None), ("const", 4),
                                 ("const", None)))
    if SPEC is None:
        SPEC = ("call", ("attr", ("global", "inspect"), "getfullargspec"),
                (F,), ())
    NAMES = ("comp", SPEC, 0)
    NARGS = ("call", ("global", "len"), (("param", va),), ())
    offs = [("slice", o, ("const", None), ("const", None)) for o in (
        ("binop", "Add", ("const", 1), NARGS),
        ("binop", "Add", NARGS, ("const", 1)))]
    def norm_slices(t):
        # x[a:][b:] is x[a + b:] for a constant a >= 0 (b is a length)
        if not isinstance(t, tuple) or not t or t[0] == "const":
            return t
        t = tuple(norm_slices(x) if isinstance(x, tuple) else x for x in t)
        N = ("const", None)
        if t[0] == "item" and t[2][0] == "slice" and t[2][2:] == (N, N) and \
                t[1][0] == "item" and t[1][2][0] == "slice" and \
                t[1][2][2:] == (N, N) and t[1][2][1][0] == "const" and \
                isinstance(t[1][2][1][1], int) and t[1][2][1][1] >= 0:
            return ("item", t[1][1], ("slice", (
                "binop", "Add", t[1][2][1], t[2][1]), N, N))
        return t
    lay = [norm_slices(x) for x in lay]
    ok0 = False
    DEFS = None
    if lay and lay[0][0] == "all" and lay[0][1][0] == "zip":
        k_, v_ = lay[0][1][1], lay[0][1][2]
        ok0 = k_[0] == "item" and v_[0] == "item" and k_[1] == NAMES and \
            k_[2] in offs and v_[2] == k_[2]
        DEFS = v_[1] if ok0 else None
    rep.check(ok0, "C18-R1", inst, "candidates = the parameters not "
              "supplied positionally (names and defaults offset by 1 + "
              "len(args)), with their defaults",
              construct="candidate map", node=fn,
              fail="the first layer of the keyword dictionary is %s" %
                   (show(lay[0])[:200] if lay else "missing"))
    KWO = ("param", outer.args.kwarg.arg)
    CTX = ("call", ("attr", ("param", ps[0]), "get_context_arguments"), (),
           ())
    want = [("all", KWO), ("present", CTX), ("all", ("param", kw))]
    ok = lay[1:] == want
    rep.check(ok, "C18-R1", inst, "defaults, then keyword-only defaults, "
              "then context values (only for names already present), then "
              "the caller's explicit keywords are overlaid in that order "
              "before the call",
              construct="overlay order", node=fn,
              fail="the overlay of defaults / context / explicit arguments "
                   "is not defaults < keyword-only defaults < context "
                   "(present names only) < explicit; found %s" % [
                       show(x)[:80] for x in lay])
    rep.check(ok and lay[2][0] == "present", "C18-R1", inst, "a context "
              "value is used only for a parameter the method has and the "
              "caller did not pass positionally",
              construct="context restricted", node=fn)
    last = L[-1][1] if L else cn
    rep.check(cfg.dominates(last, cn) or (cfg.reaches(last, cn) and
                                          not cfg.reaches(cn, last)),
              "C18-R1", inst, "the call comes after the overlay is complete",
              construct="call after overlay", node=calls[0])
    # Required scan raises before the call
    okr = False
    guarded_raise = False
    E = ("elem", ("items", D))
    if not any(raise_name(r) == "TypeError" for r in raises_of(fn)):
        raise AnalysisError("decorator wrapper: the check for parameters "
                            "left Required was not found in the wrapper's "
                            "own body; that form is not analysed")
    for r in raises_of(fn):
        if raise_name(r) != "TypeError":
            continue
        rn = cfg.node_of(r)
        f = T.all_facts(rn)
        if (mk_cmp("Is", ("comp", E, 1), ("global", "Required")), True) \
                not in f:
            continue
        guarded_raise = True
        lp = r._parent
        while lp is not None and not isinstance(lp, ast.For):
            lp = lp._parent
        if lp is None:
            continue
        head = cfg.loop_head[id(lp)]
        # nothing else guards the raise, and no iteration is skipped
        pre = T.all_facts(cfg.stmt_node[id(lp)])
        extra = [x for x in f if x not in pre]
        # no iteration with a value still Required gets past the raise
        REQ = (mk_cmp("Is", ("comp", E, 1), ("global", "Required")), True)
        HR = T.under(REQ)
        body_ = [s_ for s_ in head.succ if s_.label == "forbody"]
        no_skip = not any(isinstance(x, ast.Break) for x in ast.walk(lp)) \
            and bool(body_) and HR.cfg.must_pass(
                body_[0], lambda n_: n_ is rn,
                targets=[head, cfg.exit],
                avoid=[cfg.nodes[i] for i in HR.dead])
        okr = T.term(lp.iter, head) == ("items", D) and len(extra) == 1 \
            and no_skip and cfg.dominates(head, cn) and (
                cfg.dominates(last, head) or
                (cfg.reaches(last, head) and not cfg.reaches(head, last)))
    if not okr and not guarded_raise:
        raise AnalysisError("decorator wrapper: no TypeError is raised "
                            "directly under 'value is Required' while "
                            "scanning the resolved keywords; another form "
                            "of the check (e.g. collecting the missing "
                            "names first) is not analysed")
    rep.check(okr, "C18-R1", inst, "after the overlay, any parameter still "
              "Required raises TypeError before the method is called",
              construct="required check", node=fn)
    # parameters without a default are Required
    okp = False
    if DEFS is not None:
        for st in subterms(DEFS):
            if st[0] == "binop" and st[1] == "Add":
                okp = okp or _padding(TD, st, NAMES, SPEC)
        okp = okp and DEFS[0] == "binop" and DEFS[1] == "Add"
    rep.check(okp, "C18-R1", qual(dec), "parameters without a default are "
              "marked Required (defaults padded on the left to the number "
              "of parameters)", construct="defaults padding", node=dec)
    ga = program.get(CX + ":ContextMixin.get_context_arguments")
    TG = Terms(ga)
    rets = [r for r in returns_of(ga) if r.value is not None]
    okg = len(rets) == 1
    if okg:
        R = TG.term(rets[0].value)
        Lg = [plain(l) for l, n in layers(TG, R)]
        STACK = ("attr", ("param", "self"), "__context_stack")
        okg = Lg == [("foreach", STACK,
                      ("all", ("attr", ("elem", STACK),
                               "context_arguments")))]
        if not okg and len(Lg) == 1 and Lg[0][0] == "foreach" and \
                Lg[0][1] != STACK and Lg[0][1][0] in ("call", "callv") and \
                Lg[0][1][1][0] == "attr" and Lg[0][1][1][1] == STACK:
            # the stack is another kind of object asked for its contexts by
            # a method of its own: the order that method yields is not read
            raise AnalysisError("get_context_arguments walks the stack "
                                "through a method of the stack object (%s); "
                                "the order it yields is not analysed" %
                                Lg[0][1][1][2])
    push = program.get(CX + ":Context.__enter__")
    TP = Terms(push)
    okpush = any(plain(recv) == ("attr", ("param", "self"), "stack") and
                 [plain(a) for a in args] == [("param", "self")]
                 for n, c, recv, args in method_calls(TP, "append"))
    rep.check(okg and okpush, "C18-R1", qual(ga), "the stack is merged "
              "oldest to newest (entering appends; later updates win)",
              construct="stack merge order", node=ga)
    r1_context_owns(program, rep)
    rep.floor("C18-R1", 8)


def r1_context_owns(program, rep):
    """(also run by C17: the dictionary a caller hands to a controller is
    not changed by later context updates)"""
    if getattr(rep, "_ctx_owns_done", False):
        return
    rep._ctx_owns_done = True
    # a context owns its arguments: update_current_context() writes into
    # this dictionary, which therefore must not be the caller's (or a shared
    # default) object
    ci = program.get(CX + ":Context.__init__")
    TC = Terms(ci)
    cps = formals(ci)
    held = [b_ for b_ in TC.binds if b_.var == "self.context_arguments" and
            b_.mode == "assign"]
    okown = len(held) == 1
    if okown:
        v = TC._bind_term(held[0])
        pv = plain(v)
        okown = v[0] == "new" and pv in (
            ("call", ("global", "dict"), (("param", cps[1]),), ()),
            ("call", ("attr", ("param", cps[1]), "copy"), (), ()))
    rep.check(okown, "C18-R1", qual(ci), "a context keeps a copy of the "
              "arguments it is created with (later updates of the context "
              "cannot reach the caller's or a shared default dictionary)",
              construct="context owns its arguments", node=ci,
              fail="Context.__init__ keeps the dictionary it is given: "
                   "update_current_context() then writes into an object "
                   "shared with the caller - e.g. the default "
                   "initial_context of every MachineController - and the "
                   "arguments of one controller leak into another")


def _padding(TD, t, NAMES, SPEC):
    """t == [Required] * (len(names) - len(d)) + list(d), d the defaults of
    the argument specification (or [] when there are none)."""
    a, b = plain(t[2]), plain(t[3])
    if not (a[0] == "binop" and a[1] == "Mult"):
        return False
    parts = [a[2], a[3]]
    req = [x for x in parts if x == ("list", ("global", "Required"))]
    cnt = [x for x in parts if x[0] == "binop" and x[1] == "Sub"]
    if len(req) != 1 or len(cnt) != 1:
        return False
    cnt = cnt[0]
    if cnt[2] != ("call", ("global", "len"), (NAMES,), ()) or \
            cnt[3][0] != "call" or cnt[3][1] != ("global", "len"):
        return False
    d = cnt[3][2][0]
    if b not in (("call", ("global", "list"), (d,), ()), d):
        return False

    def raw(x):
        x = plain(x)
        if x[0] == "call" and x[1] == ("global", "list") and \
                len(x[2]) == 1 and not x[3]:
            return raw(x[2][0])
        return x
    # the defaults given: the specification's own, as they are or copied
    # into a list, or nothing when there are none
    alts = set(raw(x) for x in alternatives(d))
    return alts == {("comp", SPEC, 3), ("list",)}


def r2_only_added(program, rep):
    """Callbacks registered on a context are only ever added (run on its own
    so that it is decided whatever form the loop in __exit__ takes)."""
    ex = program.get(CX + ":Context.__exit__")
    # callbacks registered on a block are only ever added to: the list is
    # created by __init__ and otherwise only appended to / extended
    ctx_cls = CX + ":Context"
    okadd = True
    where_ = None
    n_add = 0
    for q, m_ in program.functions(CX):
        if not q.startswith("Context.") or q.count(".") != 1:
            continue
        for n_ in ast.walk(m_):
            tg = n_.targets if isinstance(n_, ast.Assign) else \
                [n_.target] if isinstance(n_, (ast.AugAssign,
                                               ast.AnnAssign)) else []
            for t_ in tg:
                b__ = t_
                while isinstance(b__, ast.Subscript):
                    b__ = b__.value
                if chain(b__) == "self._before_close" and \
                        m_.name != "__init__" and not (
                            isinstance(n_, ast.AugAssign) and
                            isinstance(n_.op, ast.Add)):
                    okadd = False
                    where_ = n_
            if isinstance(n_, ast.Call) and \
                    isinstance(n_.func, ast.Attribute) and \
                    chain(n_.func.value) == "self._before_close":
                if n_.func.attr in ("append", "extend"):
                    n_add += 1
                elif n_.func.attr in ("clear", "pop", "remove", "insert",
                                      "__setitem__", "__delitem__"):
                    okadd = False
                    where_ = n_
    rep.check(okadd and n_add >= 1, "C18-R2", CX + ":Context",
              "callbacks registered on a context block are only ever added "
              "(the stop signal registered by application() cannot be "
              "dropped by a later registration)",
              construct="callbacks only added", node=where_ or ex,
              fail="the list of before-close callbacks is replaced or "
                   "shrunk outside __init__: a later before_close() drops "
                   "the callback that stops the application when its block "
                   "is left")


def r2_new_context(program, rep):
    """A context made by ``obj(arg=value)`` sets the arguments it was given
    and no others: arguments in force where the object happens to be CREATED
    must not be frozen into it (it may be entered somewhere else)."""
    fn = program.get(CX + ":ContextMixin.get_new_context")
    T = Terms(fn)
    if fn.args.kwarg is None:
        raise AnalysisError("get_new_context no longer takes **kwargs")
    KW = ("param", fn.args.kwarg.arg)
    rets = [T.term(r.value) for r in returns_of(fn) if r.value is not None]
    if len(rets) != 1 or plain(rets[0])[0] != "call" or \
            plain(rets[0])[1] != ("global", "Context") or \
            not plain(rets[0])[2]:
        raise AnalysisError("get_new_context: the Context created was not "
                            "found in the form analysed")
    A = rets[0][2][0]
    pa = plain(A)
    own = pa == KW or pa == ("call", ("global", "dict"), (KW,), ())
    if own and A[0] == "new":
        # a copy: nothing else may be put into it
        own = not [x for x in method_calls(T, ("update", "setdefault"))
                   if x[2] == A] and not [x for x in stores(T)
                                          if x[2] == A]
    inherited = any(st_[0] in ("call", "callv") and st_[1][0] == "attr" and
                    st_[1][2] == "get_context_arguments"
                    for st_ in subterms(pa)) or any(
        x[2] == A and any(KW == plain(a_) for a_ in x[3])
        for x in method_calls(T, ("update",)))
    if not own and not inherited:
        raise AnalysisError("get_new_context: the arguments given to the "
                            "new Context are computed in a form that is "
                            "not analysed")
    rep.check(own, "C18-R2", qual(fn), "a new context holds exactly the "
              "arguments it was created with", construct="new context "
              "arguments %s" % show(pa)[:60], node=fn,
              fail="the Context made by get_new_context is seeded with "
                   "more than the arguments given (%s): the arguments in "
                   "force where it is created are frozen into it and "
                   "override the enclosing blocks wherever it is later "
                   "entered" % show(pa)[:80])


def r2_pairing(program, rep):
    ex = program.get(CX + ":Context.__exit__")
    inst = qual(ex)
    fl = Flow(ex)
    cfg = fl.cfg
    from ..util import site_in
    pops = [c for c in ast.walk(ex) if isinstance(c, ast.Call) and
            call_name(c)[0] == "pop" and
            chain(call_name(c)[1]) == "self.stack"]
    ok = len(pops) >= 1
    in_assert = False
    pns = []
    if ok:
        for pop_ in pops:
            n = pop_
            while n is not None and n is not ex:
                if isinstance(n, ast.Assert):
                    in_assert = True
                n = getattr(n, "_parent", None)
            pns.append(site_in(ex, cfg, pop_))
        pn = pns[0]
        # (one pop on every way out; with several pop sites - one in an
        # exception handler, one on the normal path - no way out passes two)
        allpaths = cfg.must_pass(cfg.entry, lambda x: any(x is p_
                                                          for p_ in pns),
                                 targets=[cfg.exit, cfg.raise_exit])
        if len(pns) > 1 and any(a_ is not b_ and cfg.reaches(a_, b_)
                                for a_ in pns for b_ in pns):
            raise AnalysisError("Context.__exit__ pops the stack at several "
                                "sites that can follow one another; not "
                                "analysed")
    rep.check(ok and not in_assert, "C18-R2", inst, "the context is popped "
              "by a statement of its own (not inside an assert, which "
              "vanishes under -O)", construct="pop outside assert", node=ex)
    rep.check(ok and allpaths, "C18-R2", inst, "every way out of __exit__ - "
              "normal return or an exception from a callback - passes the "
              "pop", construct="pop on all exits", node=ex,
              fail="__exit__ can be left without popping the context: the "
                   "arguments of the block stay in force afterwards")
    cbs = [n for n in ast.walk(ex) if isinstance(n, ast.For) and
           unparse(n.iter) == "self._before_close"]
    okc = False
    if ok and not cbs:
        raise AnalysisError("Context.__exit__: the loop running the "
                            "before-close callbacks was not found in the "
                            "form analysed")
    if ok and len(cbs) == 1:
        call = [c for c in calls_in(cbs[0], chain(cbs[0].target))]
        okc = len(call) == 1
        if okc:
            cn_ = site_in(ex, cfg, call[0])
            ln_ = site_in(ex, cfg, cbs[0])
            okc = all(
                cfg.reaches(cn_, pn_) and not cfg.reaches(pn_, cn_) and
                cfg.must_pass(cfg.entry, lambda x: x is ln_ or (
                    ln_.kind != "stmt" and x is cfg.stmt_node.get(
                        id(cbs[0]))), targets=[pn_]) for pn_ in pns)
    rep.check(okc, "C18-R2", inst, "the registered callbacks run on every "
              "exit, before the pop (the stop signal still sees the block's "
              "app id)", construct="callbacks before pop", node=ex,
              fail="the before_close callbacks do not run on every exit "
                   "before the pop (e.g. skipped when the block raised): an "
                   "application block is left without stopping the "
                   "application")

    # returns falsy: exceptions propagate
    rets = [r for r in returns_of(ex) if r.value is not None and not (
        isinstance(r.value, ast.Constant) and not r.value.value)]
    rep.check(not rets, "C18-R2", inst, "__exit__ does not swallow "
              "exceptions", construct="exit return value", node=ex)
    en = program.get(CX + ":Context.__enter__")
    EN = Terms(en)
    SELF_ = ("param", formals(en)[0])
    pushes = [args for n_, c_, recv, args in method_calls(EN, ["append"])
              if plain(recv) == ("attr", SELF_, "stack")]
    inserts = [x for x in method_calls(EN, ["insert", "extend", "appendleft"])
               if plain(x[2]) == ("attr", SELF_, "stack")]
    if not pushes and inserts:
        raise AnalysisError("Context.__enter__ puts the context on the "
                            "stack other than by append; not analysed")
    rep.check(pushes == [[SELF_]], "C18-R2", qual(en),
              "entering pushes this context", construct="push", node=en)
    app = program.get(MC + ":MachineController.application")
    A = Terms(app)
    SELF = ("param", "self")
    aps = formals(app)
    rets = [A.term(r.value) for r in returns_of(app) if r.value is not None]
    CTX = ("callv", SELF, (), (("app_id", ("param", aps[1])),))
    oka = len(rets) == 1 and rets[0][:4] == CTX
    if oka:
        oka = False
        for n_, c, recv, args in method_calls(A, "before_close"):
            if recv != rets[0] or len(args) != 1:
                continue
            cb = args[0]
            body = None
            if cb[0] == "lambda" and cb[1] == 0:
                body = cb[2]
            elif cb[0] == "local":
                nested = [x for x in ast.walk(app)
                          if isinstance(x, ast.FunctionDef) and
                          x.name == cb[1]]
                if nested and not formals(nested[0]):
                    NT = Terms(nested[0], outer=(A, n_))
                    rr = [NT.term(r.value) for r in returns_of(nested[0])
                          if r.value is not None]
                    ex = [NT.term(x.value) for x in nested[0].body
                          if isinstance(x, ast.Expr)]
                    body = (rr or ex or [None])[0]
            oka = body is not None and plain(body) == (
                "call", ("attr", SELF, "send_signal"), (("const", "stop"),),
                ())
    rep.check(oka, "C18-R2", qual(app), "an application block carries "
              "app_id and registers the stop signal to run on exit",
              construct="application block", node=app)
    rep.floor("C18-R2", 5)


def _send_scp_record(program, ss, rep):
    """send_scp puts its own x, y, p, cmd, arguments and data into the
    command record it hands to the burst (arguments bound to the record's
    constructor; value terms)."""
    new = program.get(SCP + ":scpcall.__new__")
    T = Terms(ss)
    cs = calls_in(ss, "scpcall")
    if len(cs) != 1:
        raise AnalysisError("send_scp: expected one scpcall(...) record, "
                            "found %d" % len(cs))
    b = bind(cs[0], new, True)
    n = T.cfg.node_containing(cs[0])
    ok = True
    detail = []
    for nm in ("x", "y", "p", "cmd", "arg1", "arg2", "arg3", "data"):
        v = b.get(nm)
        if not isinstance(v, ast.AST):
            ok = False
            detail.append("%s is not given" % nm)
            continue
        t = plain(T.term(v, n))
        if t != ("param", nm):
            ok = False
            detail.append("%s = %s" % (nm, show(t)[:40]))
    rep.check(ok, "C18-R3", qual(ss), "send_scp wraps its own x, y, p into "
              "the command record", construct="send_scp -> scpcall", node=ss,
              fail="the command record built by send_scp does not carry its "
                   "own arguments: %s" % "; ".join(detail))


def _command_word(f, m, key, parts, rep):
    """A command word that carries the caller's ``key`` is the OR of the
    expected parts, in any order and through any temporaries (value terms;
    constant parts folded)."""
    from ..terms import eval_closed
    from ..util import parse_expr
    T = Terms(f)

    def flat(t):
        if t[0] == "binop" and t[1] == "BitOr":
            return flat(t[2]) + flat(t[3])
        return [t]

    def norm(t):
        t = plain(t)
        try:
            return ("const", eval_closed(t))
        except AnalysisError:
            return t
    KEY = ("param", key)
    chains = []
    for n in ast.walk(f):
        if not (isinstance(n, ast.BinOp) and isinstance(n.op, ast.BitOr)):
            continue
        par = getattr(n, "_parent", None)
        if isinstance(par, ast.BinOp) and isinstance(par.op, ast.BitOr):
            continue
        node = T.cfg.node_containing(n)
        ops = [norm(o) for o in flat(plain(T.term(n, node)))]
        if any(KEY in list(subterms(o)) for o in ops):
            chains.append((n, node, ops))
    if not chains:
        raise AnalysisError("%s: the command word carrying %s was not found"
                            % (m, key))
    ok = False
    for n, node, ops in chains:
        want = [norm(T.term(parse_expr(p_), node)) for p_ in parts]
        if all(w in ops for w in want):
            ok = True
    frag = " | ".join(parts)
    rep.check(ok, "C18-R3", qual(f), "%s encodes the caller's value in the "
              "command word (%s)" % (m, frag),
              construct="%s command word" % m, node=f)


def _packet_destination(burst, rep):
    """The packet built for a command carries that command's own x, y, p,
    cmd and arguments (value terms; the construction may sit in a nested
    helper of the burst)."""
    T = Terms(burst)
    views = [(T, burst)]
    for sub in ast.walk(burst):
        if isinstance(sub, ast.FunctionDef) and sub is not burst:
            for v in T.inners(sub):
                views.append((v, sub))
    found = []
    for v, f in views:
        for c in ast.walk(f):
            if isinstance(c, ast.Call) and call_name(c)[0] == "SCPPacket" \
                    and _enclosing_def(c) is f:
                n = v.cfg.node_containing(c)
                found.append((c, {k.arg: plain(v.term(k.value, n))
                                  for k in c.keywords if k.arg}))
    if not found:
        raise AnalysisError("send_scp_burst: the construction of the packet "
                            "was not found")
    want = {"dest_x": "x", "dest_y": "y", "dest_cpu": "p", "cmd_rc": "cmd",
            "arg1": "arg1", "arg2": "arg2", "arg3": "arg3", "data": "data"}
    okp = True
    detail = ""
    for c, kw in found:
        rec = None
        for k, a in want.items():
            t = kw.get(k)
            if t is None:
                raise AnalysisError("send_scp_burst: SCPPacket(...) is not "
                                    "given %s by keyword" % k)
            if not (t[0] == "attr" and t[2] == a):
                if t[0] == "attr" and t[2] in want.values():
                    okp = False
                    detail = "%s is the command's %s" % (k, t[2])
                    continue
                raise AnalysisError("send_scp_burst: %s of the packet is not "
                                    "a field of the command record" % k)
            if rec is None:
                rec = t[1]
            elif t[1] != rec:
                okp = False
                detail = "%s comes from another record" % k
    rep.check(okp, "C18-R3", qual(burst), "the packet's destination is the "
              "command's x, y, p (then bytes 7, 6, 4 of the header, C15)",
              construct="packet destination", node=burst,
              fail="the packet built for a command does not carry that "
                   "command's own fields: %s" % detail)


def _enclosing_def(node):
    n = getattr(node, "_parent", None)
    while n is not None and not isinstance(n, (ast.FunctionDef, ast.Lambda)):
        n = getattr(n, "_parent", None)
    return n


def r3_roles(program, rep):
    n = 0
    for cls in (MC + ":MachineController", BMP + ":BMPController"):
        c = program.get(cls)
        cname = cls.split(":")[1]
        for fn in c.body:
            if not isinstance(fn, ast.FunctionDef):
                continue
            rf = RoleFlow(fn)
            caller = "%s.%s" % (cname, fn.name)
            for call in ast.walk(fn):
                if not isinstance(call, ast.Call):
                    continue
                nm, rc = call_name(call)
                if rc is None:
                    continue
                if chain(rc) == "self" and program.has("%s.%s" % (cls, nm)):
                    callee = program.get("%s.%s" % (cls, nm))
                    if not isinstance(callee, ast.FunctionDef):
                        continue
                    cq = "%s.%s" % (cname, nm)
                    ex = set((cq, f) for (a, b, f) in EXEMPT
                             if a == caller and b == cq)
                    # the system-variable struct belongs to the chip, not
                    # to a core: it is read through core 0 whoever asks
                    if nm in ("read_struct_field", "write_struct_field") \
                            and call.args and isinstance(
                                call.args[0], ast.Constant) and \
                            call.args[0].value in ("sv", b"sv"):
                        ex.add((cq, "p"))
                    n += check_call(rep, "C18-R3", qual(fn), rf, call,
                                    callee, allowed_consts=ALLOWED_CONSTS,
                                    exempt_omit=ex)
                elif chain(rc) == "connection" and nm == "send_scp":
                    callee = program.get(SCP + ":SCPConnection.send_scp")
                    n += check_call(rep, "C18-R3", qual(fn), rf, call,
                                    callee,
                                    allowed_consts={"x": (0,), "y": (0,)},
                                    accept={("p", "BOARD")}
                                    if cname == "BMPController" else ())
    # the hop to the wire
    ss = program.get(SCP + ":SCPConnection.send_scp")
    rep.guard("C18-R3", _send_scp_record, program, ss, rep)
    burst = program.get(SCP + ":SCPConnection.send_scp_burst")
    rep.guard("C18-R3", _packet_destination, burst, rep)
    sc = program.get(SCP + ":scpcall")
    import_ok = "x y p cmd arg1 arg2 arg3 data expected_args callback " \
        "timeout".split()
    flds = None
    for b in sc.bases:
        if isinstance(b, ast.Call) and len(b.args) == 2:
            try:
                flds = ast.literal_eval(b.args[1])
            except Exception:
                flds = None
    if isinstance(flds, str):
        flds = flds.replace(",", " ").split()
    new = program.get(SCP + ":scpcall.__new__")
    okn = flds is not None and list(flds)[:3] == ["x", "y", "p"] and \
        formals(new)[1:4] == ["x", "y", "p"]
    rep.check(okn, "C18-R3", qual(sc), "the command record's first fields "
              "are x, y, p in that order", construct="scpcall fields",
              node=sc)
    # app_id lands in the documented field of the signal / count words
    for m, key, parts in (
            ("send_signal", "app_id",
             ["signal << 16", "0xff00", "app_id"]),
            ("count_cores_in_state", "app_id", ["0xff << 8", "app_id"]),
            ("_send_ffe", "pid", ["NNCommands.flood_fill_end << 24", "pid"]),
            ("clear_routing_table_entries", "app_id",
             ["app_id << 8", "consts.AllocOperations.free_rtr_by_app"])):
        f = program.get(MC + ":MachineController." + m)
        rep.guard("C18-R3", _command_word, f, m, key, parts, rep)
    rep.floor("C18-R3", 150)
    return n


# public commands with contextual parameter names that are not wrapped, each
# confirmed by reading
UNWRAPPED_OK = {
    "get_machine": "deprecated alias: documented to start the search for "
                   "working chips at the (x, y) given literally (default "
                   "255, 255), then delegates to get_system_info",
}


def r4_satisfiable(program, rep):
    n = 0
    for cls in (MC + ":MachineController", BMP + ":BMPController"):
        c = program.get(cls)
        for fn in c.body:
            if not isinstance(fn, ast.FunctionDef):
                continue
            dec = None
            for d in fn.decorator_list:
                if isinstance(d, ast.Call) and unparse(d.func).endswith(
                        "use_contextual_arguments"):
                    dec = d
            if dec is None:
                # a public command that takes a chip / core / application /
                # board by one of the contextual names must be wrapped, or
                # it silently ignores the enclosing context (all its
                # contextual parameters have defaults)
                roles_ = [a.arg for a in fn.args.args if name_role(a.arg)
                          and a.arg != "link"]
                if roles_ and not fn.name.startswith("_"):
                    why = UNWRAPPED_OK.get(fn.name)
                    rep.check(why is not None, "C18-R4", qual(fn),
                              "%s takes %s outside the context mechanism by "
                              "design: %s" % (fn.name, roles_, why),
                              construct="unwrapped command %s" % fn.name,
                              node=fn,
                              fail="%s takes the contextual parameter(s) %s "
                                   "but is not wrapped by "
                                   "use_contextual_arguments: inside "
                                   "'with controller(x=.., y=..)' it is "
                                   "still sent to its own defaults" % (
                                       fn.name, roles_))
                continue
            n += 1
            declared = set(k.arg for k in dec.keywords)
            rep.check(not fn.args.kwonlyargs, "C18-R4", qual(fn),
                      "no keyword-only parameters (the decorator cannot see "
                      "them)", construct="kwonly params", node=fn)
            if fn.args.kwarg is not None:
                kwn = fn.args.kwarg.arg
                popped = set()
                for cc in calls_in(fn, "pop"):
                    if chain(call_name(cc)[1]) == kwn and cc.args and \
                            isinstance(cc.args[0], ast.Constant):
                        if len(cc.args) == 1:
                            popped.add(cc.args[0].value)
                rep.check(popped <= declared, "C18-R4", qual(fn),
                          "every keyword the method pops unconditionally "
                          "(%s) is declared to the decorator" % sorted(
                              popped), construct="undeclared %s" % sorted(
                              popped - declared), node=fn,
                          fail="%s pops %s from **kwargs without a default "
                               "but the decorator was not told about it: the "
                               "context can never supply it" % (
                                   fn.name, sorted(popped - declared)))
                ctx = [a for a in declared if name_role(a)]
            else:
                rep.check(not declared, "C18-R4", qual(fn), "keyword-only "
                          "declarations only with **kwargs",
                          construct="declared without kwargs", node=fn)
    rep.floor("C18-R4", 60)
    return n


def r5_connection(program, rep):
    gc = program.get(MC + ":MachineController._get_connection")
    inst = qual(gc)
    T = Terms(gc)
    ps = formals(gc)
    SELF = ("param", "self")
    CONNS = ("attr", SELF, "connections")
    W, H, R = [("attr", SELF, a) for a in ("_width", "_height",
                                           "_root_chip")]
    ETH = ("call", ("global", "spinn5_local_eth_coord"),
           (("param", ps[1]), ("param", ps[2]), W, H, ("star", R)), ())
    cs = calls_in(gc, "spinn5_local_eth_coord")
    # (the root chip handed over component by component is the same call)
    ETH2 = ETH[:2] + (ETH[2][:4] + (("comp", R, 0), ("comp", R, 1)),) + ETH[3:]
    if len(cs) == 1 and T.term(cs[0]) == ETH2:
        ETH = ETH2
    split_gc = any(getattr(h_, "_virtual", False) for h_ in ast.walk(gc)
                   if h_ is not gc) or any(
        isinstance(n_, (ast.For, ast.While)) for n_ in ast.walk(gc))
    if not cs:
        # the geometry function is not called: the board's chip is worked
        # out in place
        split_gc = True
    if split_gc and not (len(cs) == 1 and T.term(cs[0]) == ETH):
        # the look-up was moved into helpers / a loop over candidate keys:
        # this part of the rule reads the plain two-step form only
        rep.undecided("C18-R5", "MachineController._get_connection chooses "
                      "the connection through helpers, a loop over "
                      "candidate keys or without the geometry function; "
                      "that form is not analysed")
    ok = len(cs) == 1 and T.term(cs[0]) == ETH
    if not (split_gc and not ok):
        rep.check(ok, "C18-R5", inst, "the board's Ethernet chip is "
                  "computed from (x, y, width, height, *root_chip) in the "
                  "geometry function's order",
                  construct="eth coord arguments", node=gc)
    LOCAL = ("get", CONNS, ETH)
    DEFAULT = ("item", CONNS, ("const", None))
    known = [(is_none(W), False), (is_none(H), False), (is_none(R), False)]

    def live_returns(H_):
        return [H_.term(r.value, H_.cfg.node_of(r)) for r in returns_of(gc)
                if r.value is not None and H_.live(H_.cfg.node_of(r))]
    # (connections[k] is connections.get(k) when the latter is not None)
    okr = live_returns(T.under(*(known + [(is_none(LOCAL), False)]))) in (
        [LOCAL], [("item", CONNS, ETH)])
    okr = okr and live_returns(T.under(*(known + [(is_none(LOCAL), True)]))) \
        == [DEFAULT]
    for k in range(3):
        hyps = list(known)
        hyps[k] = (hyps[k][0], True)
        okr = okr and set(live_returns(T.under(*hyps))) == {DEFAULT}
    if not (split_gc and not ok):
        rep.check(okr, "C18-R5", inst, "the connection of the target's "
                  "board is used when known, else the initial connection",
                  construct="connection fallback", node=gc)
    ss = program.get(MC + ":MachineController._send_scp")
    S = Terms(ss)
    ps = formals(ss)
    oks = False
    for r in returns_of(ss):
        t = S.term(r.value) if r.value is not None else ("?",)
        if t[0] == "callv" and t[1][0] == "attr" and t[1][2] == "send_scp":
            conn = t[1][1]
            oks = conn[:4] == ("callv", ("attr", SELF, "_get_connection"),
                               (("param", ps[1]), ("param", ps[2])), ()) and \
                list(t[2][1:4]) == [("param", p_) for p_ in ps[1:4]] and \
                t[2][4:] == (("star", ("param", ss.args.vararg.arg)),) and \
                t[3] == (("**", ("param", ss.args.kwarg.arg)),)
    rep.check(oks, "C18-R5", qual(ss),
              "_send_scp picks the connection by its own x, y and forwards "
              "x, y, p", construct="_send_scp", node=ss)
    # the geometry function's index formula (also C19-R2)
    from .C19 import _private_helpers, _wp
    g = program.get(GEO + ":spinn5_local_eth_coord")
    gfl = Flow(g)
    G = Terms(g, helpers=_private_helpers(program))
    p6 = formals(g)
    okg = False
    rets = [G.term(r.value) for r in returns_of(g) if r.value is not None]
    cells = set()
    for rt in rets:
        for st_ in subterms(rt):
            m = match(("item", ("item", ("global", "SPINN5_ETH_OFFSET"),
                                V("i")), V("j")), st_)
            if m is not None:
                cells.add((m["i"], m["j"]))
    if len(cells) != 1 or len(p6) != 6:
        # (the same reading as C19-R2; another form of the look-up is not
        # analysed)
        rep.undecided("C18-R5", "spinn5_local_eth_coord no longer indexes "
                      "SPINN5_ETH_OFFSET once in the [row][column] form")
        okg = None
    if len(cells) == 1 and len(p6) == 6:
        it, jt = list(cells)[0]
        x, y, w, h, rx, ry = [Poly.atom(p) for p in p6]
        i = gfl.sym(_wp(reify(plain(it))), gfl.cfg.entry)
        j = gfl.sym(_wp(reify(plain(jt))), gfl.cfg.entry)
        okg = i == gfl.mod(y - ry, Poly.const(12)) and \
            j == gfl.mod(x - rx, Poly.const(12))
    if okg is not None:
      rep.check(okg, "C18-R5", qual(g), "the offset table is indexed "
              "[(y - root_y) % 12][(x - root_x) % 12]",
              construct="eth offset index", node=g,
              fail="spinn5_local_eth_coord indexes the offset table "
                   "wrongly: commands travel over another board's "
                   "connection when the root chip is not at the origin")
    # a newly discovered board connection is probed over itself: it is in
    # the connection table while the probe command is sent (that is how
    # _get_connection finds it) and leaves the table if the probe fails
    dc = program.get(MC + ":MachineController.discover_connections")
    D = Terms(dc)
    regs = [x for x in stores(D) if x[2] == CONNS and
            x[4][0] in ("call", "callv") and
            x[4][1][0] == "global" and x[4][1][1].endswith("SCPConnection")]
    probes = [c for c in ast.walk(dc) if isinstance(c, ast.Call) and
              call_name(c)[0] == "get_software_version"]
    if len(regs) != 1 or len(probes) != 1:
        raise AnalysisError("discover_connections: registration / probe of "
                            "a new connection not found in the form "
                            "analysed")
    rn_, _, _, KEY, _ = regs[0]
    pn_ = D.cfg.node_containing(probes[0])
    pa = [D.term(a, pn_) for a in probes[0].args[:2]]
    def pair(t):
        # (a pair written out component by component is that pair)
        if t[0] == "tuple" and len(t) == 3 and all(
                c[0] == "comp" and c[2] == i and c[1] == t[1][1]
                for i, c in enumerate(t[1:])):
            return t[1][1]
        return t
    KEY = pair(KEY)
    okd = D.cfg.dominates(rn_, pn_) and pair(("tuple",) + tuple(pa)) == KEY
    pops = [x for x in method_calls(D, ("pop", "__delitem__"))
            if x[2] == CONNS and len(x[3]) >= 1 and pair(x[3][0]) == KEY]
    okd = okd and not any(D.cfg.reaches(rn_, x[0]) and
                          D.cfg.reaches(x[0], pn_) and
                          x[0].kind != "handler" and
                          not _in_handler(x[1]) for x in pops)
    # on failure of the probe the entry is removed
    handlers = [h for h in ast.walk(dc) if isinstance(h, ast.ExceptHandler)
                and any(_inside(probes[0], b_) for t_ in ast.walk(dc)
                        if isinstance(t_, ast.Try) and h in t_.handlers
                        for b_ in t_.body)]
    okd = okd and len(handlers) == 1 and any(
        _inside(x[1], handlers[0]) for x in pops)
    rep.check(okd, "C18-R5", qual(dc), "a discovered board's connection is "
              "registered before it is probed (so the probe travels over "
              "it) and removed again if the probe fails",
              construct="probe over the new connection", node=dc,
              fail="the probe of a newly discovered connection is not sent "
                   "over that connection (it is registered only afterwards, "
                   "or not removed on failure): an unreachable connection "
                   "is kept and later commands for that board go nowhere")
    b = program.get(BMP + ":BMPController._send_scp")
    B = Terms(b)
    ps = formals(b)
    BCONNS = ("attr", SELF, "connections")
    cab, frm, brd = [("param", p_) for p_ in ps[1:4]]
    DIRECT = ("get", BCONNS, ("tuple", cab, frm, brd))
    FRAME = ("get", BCONNS, ("tuple", cab, frm))
    snd = calls_in(b, "send_scp")
    okb = len(snd) == 1
    via_helper = None
    if okb:
        n_ = B.cfg.node_containing(snd[0])
        ct = B.term(snd[0].func.value, n_)
        if ct[0] in ("call", "callv") and ct[1][0] == "local" and \
                ct[1][1] in B._nested:
            via_helper = B._nested[ct[1][1]]
    # a loop over candidate keys (here or in a helper): the keys it tries,
    # in order; it is left (return / break) as soon as a key has a connection
    key_views = [(B, b)]
    for sub_ in ast.walk(b):
        if isinstance(sub_, ast.FunctionDef) and sub_ is not b:
            try:
                key_views.extend((v_, sub_) for v_ in B.inners(sub_))
            except AnalysisError:
                pass
    tried = None
    for hv, f_ in key_views:
        for lp in ast.walk(f_):
            if not isinstance(lp, ast.For) or _enclosing_def(lp) is not f_:
                continue
            it = hv.term(lp.iter, hv.cfg.loop_head[id(lp)])
            if it[0] != "tuple" or any(isinstance(x, ast.Continue)
                                       for x in ast.walk(lp)):
                continue
            E = B._elem(it)
            for x_ in ast.walk(lp):
                if not isinstance(x_, (ast.Return, ast.Break)):
                    continue
                xn_ = [n__ for n__ in hv.cfg.nodes if n__.ast is x_]
                if not xn_:
                    continue
                xn_ = xn_[0]
                facts_ = hv.all_facts(xn_)
                if any((is_none(g_), False) in facts_ for g_ in (
                        ("get", BCONNS, E), ("item", BCONNS, E))):
                    tried = list(it[1:])
    if tried is not None or via_helper is not None:
        if tried is None:
            raise AnalysisError("BMPController._send_scp: the connection "
                                "helper is in a form that is not analysed")
        n_ = B.cfg.node_containing(snd[0])
        a_ = [B.term(x, n_) for x in snd[0].args]
        okb = tried == [("tuple", cab, frm, brd), ("tuple", cab, frm)] and \
            a_[1:] == [("const", 0), ("const", 0), brd,
                       ("star", ("param", b.args.vararg.arg))]
    elif okb:
        for hyp, want in (((is_none(DIRECT), False), DIRECT),
                          ((is_none(DIRECT), True), FRAME)):
            Hb = B.under(hyp)
            n_ = Hb.cfg.node_containing(snd[0])
            if any(st_[0] in ("mu", "phi", "rec") for st_ in subterms(
                    Hb.term(snd[0].func.value, n_))):
                raise AnalysisError("BMPController._send_scp: the "
                                    "connection is chosen by a loop over "
                                    "candidate keys; that form is not "
                                    "analysed here")
            okb = okb and Hb.live(n_) and \
                Hb.term(snd[0].func.value, n_) == want
        n_ = B.cfg.node_containing(snd[0])
        a_ = [B.term(x, n_) for x in snd[0].args]
        okb = okb and a_[1:] == [("const", 0), ("const", 0), brd,
                                 ("star", ("param", b.args.vararg.arg))]
    rep.check(okb, "C18-R5", qual(b), "BMP commands try the (cabinet, "
              "frame, board) connection before (cabinet, frame) and address "
              "the board number on the wire", construct="BMP connection",
              node=b)
    rep.floor("C18-R5", 5)


def _in_handler(node):
    n = node
    while n is not None:
        if isinstance(n, ast.ExceptHandler):
            return True
        n = getattr(n, "_parent", None)
    return False


def _inside(node, anc):
    n = node
    while n is not None:
        if n is anc:
            return True
        n = getattr(n, "_parent", None)
    return False


def r6_link(program, rep):
    n = 0
    for name in sorted(program.modules):
        m = program.modules[name]
        bad = list(check_module(m))
        n += getattr(m, "_link_refs", 0)
        for node, msg in bad:
            rep.bad("C18-R6", name, msg, "%s: %s - the module cannot work "
                    "(or even be imported) on this interpreter, so no "
                    "command can be sent at all" % (name, msg), node)
        if not bad:
            rep.ok("C18-R6", name, "all standard-library names referenced "
                   "exist on this interpreter")
    rep.note("LINK: %d stdlib attribute references checked" % n)
    rep.floor("C18-R6", 50)


r2_pairing.helper_aware = True
r5_connection.helper_aware = True

def r5_first_board(program, rep):
    """A BMP command addressed to several boards goes to the FIRST board the
    caller named (documented), over that board's connection: the board
    handed to _send_scp is the caller's board, or element 0 of the boards in
    the order given - not of a sorted or otherwise re-ordered copy."""
    from ..terms import one_level
    fn = program.get(BMP + ":BMPController.set_led")
    inst = qual(fn)
    T = Terms(fn)
    cs = calls_in(fn, "_send_scp")
    if len(cs) != 1 or len(cs[0].args) < 3:
        raise AnalysisError("set_led: the command is not sent by one "
                            "_send_scp(cabinet, frame, board, ...)")
    n = T.cfg.node_containing(cs[0])
    v = T.term(cs[0].args[2], n)
    B = ("param", "board")
    alts = [plain(x) for x in (one_level(v) if v[0] in ("mu", "phi")
                               else [v])]

    def order_of(x, depth=0):
        """'given' / 'changed' / None for a term holding the boards."""
        if x == B:
            return "given"
        if x[0] == "new":
            x = x[2]
        if x[0] in ("call", "callv") and x[1] in (
                ("global", "list"), ("global", "tuple")) and \
                len(x[2]) == 1:
            return order_of(plain(x[2][0]), depth)
        if x[0] in ("listcomp", "genexp") and len(x[2]) == 1 and \
                not x[2][0][1] and x[1] == ("elem", x[2][0][0]):
            return order_of(plain(x[2][0][0]), depth)
        if x[0] in ("call", "callv") and x[1] in (
                ("global", "sorted"), ("global", "set"),
                ("global", "frozenset"), ("global", "reversed")):
            return "changed"
        if x[0] in ("call", "callv") and x[1][0] in ("local", "global") \
                and depth < 2:
            # a helper (nested, or of the module): what it returns
            h = [d for d in ast.walk(fn) if isinstance(d, ast.FunctionDef)
                 and d.name == x[1][1]]
            if not h:
                d_ = fn._module.defs.get(x[1][1])
                h = [d_] if isinstance(d_, ast.FunctionDef) else []
            if len(h) == 1 and len(x[2]) == 1 and \
                    len(formals(h[0])) == 1:
                HT = Terms(h[0])
                outs = set()
                from ..terms import subst_params
                for r in returns_of(h[0]):
                    if r.value is None:
                        return None
                    rt = subst_params(plain(HT.term(
                        r.value, HT.cfg.node_of(r))),
                        {formals(h[0])[0]: plain(x[2][0])})
                    if rt[0] == "new":
                        rt = rt[2]
                    if rt[0] == "list" and len(rt) == 2 and rt[1] == B:
                        continue        # [board]: the single board
                    outs.add(order_of(rt, depth + 1))
                if outs and None not in outs:
                    return "changed" if "changed" in outs else "given"
        return None
    verdicts = []
    for a in alts:
        if a == B:
            verdicts.append("given")
        elif a[0] == "comp" and a[2] == 0:
            verdicts.append(order_of(a[1]))
        elif a[0] == "elem":
            verdicts.append(None)
        else:
            verdicts.append(None)
    if None in verdicts and "changed" not in verdicts:
        raise AnalysisError("set_led: which board the command is sent to is "
                            "not read")
    rep.check("changed" not in verdicts, "C18-R5", inst, "a command for "
              "several boards is sent to the first board named by the "
              "caller", construct="first board", node=cs[0],
              fail="the board the command is sent to is element 0 of a "
                   "re-ordered copy of the caller's boards (sorted / a "
                   "set): not the first board named, so the datagram goes "
                   "to another board and over another board's connection")


r5_first_board.helper_aware = True


def check(program, rep):
    program.module(CX)
    program.module(MC)
    program.module(BMP)
    rep.guard("C18-R1", r1_decorator, program, rep)
    rep.guard("C18-R2", r2_pairing, program, rep)
    rep.guard("C18-R2", r2_only_added, program, rep)
    rep.guard("C18-R2", r2_new_context, program, rep)
    rep.guard("C18-R3", r3_roles, program, rep)
    rep.guard("C18-R4", r4_satisfiable, program, rep)
    rep.guard("C18-R5", r5_connection, program, rep)
    rep.guard("C18-R5", r5_first_board, program, rep)
    rep.guard("C18-R6", r6_link, program, rep)
    # the destination reaches the wire in the documented header bytes and
    # widths (C15-R1/R2: a core number needs all five bits of its field)
    from . import C15
    from ..constfold import Folder as _Folder

    def wire_rule(program, rep):
        folder = _Folder(program)
        res = C15.r1_encoder(program, folder, rep)
        if res:
            C15.r2_decoder(program, folder, rep, *res)
    rep.guard(["C15-R1", "C15-R2"], wire_rule, program, rep)
    import sys
    rep.assume("interpreter = %d.%d (the one the suite runs under)" %
               sys.version_info[:2])
    # arguments handed to package functions under the wrong name / same-
    # named optional parameters not passed on (NAMELINK, DESIGN.md 9.13)
    from .. import namelink as _nl
    rep.guard("C18-R7", _nl.rule, program, rep, "C18-R7",
              [m for m in sorted(program.modules)
               if m.startswith("rig.machine_control") or
               m.startswith("rig.utils")])
    return finish(rep, program, EXPLANATION, NOT_DECIDED,
                  trusted=["role table in roles.py and the EXEMPT / "
                           "ALLOWED_CONSTS tables in rules/C18.py (one "
                           "reason each)"])
