"""C18 - commands go to the chip, core and application the caller named.

R1 resolution order in the decorator (defaults < context < explicit) and the
   Required check before the call
R2 push/pop pairing of context blocks on all exits; callbacks before the pop
R3 role-preserving forwarding of x/y/p/app_id/cabinet/frame/board at every
   internal call of both controllers, down to the packet
R4 every decorated method can be satisfied
R5 connection choice
R6 the standard-library API used exists on this interpreter
"""
import ast

from ..core import AnalysisError, finish, unparse
from ..dataflow import Flow, chain, call_name
from ..link import check_module
from ..poly import Poly
from ..roles import RoleFlow, check_call, name_role
from ..terms import Terms, reify, plain, match, V, ANY, show, subterms, \
    mk_cmp, is_none, method_calls, alternatives
from ..util import calls_in, qual, formals, returns_of, raises_of, \
    raise_name, has_fact, decorator_names, bind

CX = "rig.utils.contexts"
MC = "rig.machine_control.machine_controller"
BMP = "rig.machine_control.bmp_controller"
SCP = "rig.machine_control.scp_connection"
GEO = "rig.geometry"

# constants accepted for a role when the caller has no value of that role
ALLOWED_CONSTS = {"x": (255,), "y": (255,), "p": (0,), "processor": (0,),
                  "board": (0,)}
# (caller, callee, formal) -> reason: deliberate deviations from "a role in
# scope must be forwarded", each confirmed by reading the source
EXEMPT = {
    ("MachineController._get_vcpu_field_and_address",
     "MachineController.read_struct_field", "p"):
        "sv (holding vcpu_base) is read through core 0; p indexes the block",
    ("MachineController.read_vcpu_struct_field", "MachineController.read",
     "p"): "the per-core block of core p is read through core 0",
    ("MachineController.write_vcpu_struct_field", "MachineController.write",
     "p"): "the per-core block of core p is written through core 0",
    ("MachineController.get_processor_status", "MachineController.read",
     "p"): "the per-core block of core p is read through core 0",
    ("MachineController.get_processor_status",
     "MachineController.read_struct_field", "p"):
        "sv is read through core 0",
    ("MachineController.get_iobuf_bytes",
     "MachineController.read_struct_field", "p"): "sv is read via core 0",
    ("MachineController.get_iobuf_bytes", "MachineController.read", "p"):
        "IOBUF memory is read through core 0",
    ("MachineController.application", "MachineController.send_signal",
     "app_id"): "the stop signal runs inside the context block created with "
                "that app_id (it is on the stack until after the callbacks)",
    ("BMPController.set_power", "BMPController._send_scp", "board"):
        "power commands go to board 0's BMP; the boards affected are the "
        "bit mask in arg2",
}

EXPLANATION = (
    "R1: the writers of new_kwargs in the decorator's wrapper are ordered by "
    "CFG dominance: signature defaults (missing ones Required) and "
    "keyword-only defaults, then context values restricted to names already "
    "present, then the explicit kwargs; the Required scan dominates the "
    "call; the context dictionary merges the stack oldest to newest. R2: "
    "every path through Context.__exit__ (normal and exceptional) passes "
    "the pop, which is not inside an assert, after the callbacks. R3: ROLES "
    "inference over every self.* call of MachineController and "
    "BMPController (and the hop to SCPConnection.send_scp and the packet "
    "constructor): an X value never reaches a Y formal, a role the caller "
    "holds is forwarded explicitly, constants only from the allow-list. "
    "R4/R5: declared keyword-only arguments, connection lookup order and "
    "the geometry call's argument order and index formula. R6: LINK.")
NOT_DECIDED = ["timing of the stop signal on the wire",
               "values passed positionally through *args by user code"]


def r1_decorator(program, rep):
    fn = program.get(CX + ":ContextMixin.use_contextual_arguments."
                          "decorator.f_")
    inst = qual(fn)
    fl = Flow(fn)
    cfg = fl.cfg
    nk = None
    for d in fl.defs:
        if d.mode == "assign" and isinstance(d.value, ast.Call) and \
                call_name(d.value)[0] == "dict" and "zip" in unparse(d.value):
            nk = d
    if nk is None:
        raise AnalysisError("decorator wrapper: new_kwargs creation")
    var = nk.var
    t = unparse(nk.value)
    ok0 = t == "dict(zip(arg_names[1 + len(args):], defaults[1 + " \
               "len(args):]))"
    rep.check(ok0, "C18-R1", inst, "candidates = the parameters not "
              "supplied positionally (names and defaults offset by 1 + "
              "len(args)), with their defaults",
              construct="candidate map %s" % t, node=nk.value)
    writers = []
    for d in fl.defs:
        if d.var == var and d.mode == "mut":
            st = d.node.ast
            writers.append((d.node, unparse(st)))
    kinds = {}
    for node, text in writers:
        if text == "%s.update(kw_only_args_defaults)" % var:
            kinds["kwonly"] = node
        elif text == "%s.update(kwargs)" % var:
            kinds["explicit"] = node
        elif text.startswith("%s[name] = " % var):
            kinds["context"] = node
        else:
            kinds.setdefault("other", []).append(text)
    ok = set(kinds) == {"kwonly", "explicit", "context"}
    calls = [c for c in calls_in(fn, "f")]
    if ok and len(calls) == 1:
        cn = cfg.node_containing(calls[0])
        order = [nk.node, kinds["kwonly"], kinds["context"],
                 kinds["explicit"]]
        ok = all(cfg.dominates(order[i], order[i + 1]) or
                 (cfg.reaches(order[i], order[i + 1]) and
                  not cfg.reaches(order[i + 1], order[i]))
                 for i in range(3)) and cfg.dominates(kinds["explicit"], cn)
    rep.check(ok, "C18-R1", inst, "defaults, then keyword-only defaults, "
              "then context values, then the caller's explicit keywords are "
              "overlaid in that order before the call",
              construct="overlay order %s" % sorted(
                  k for k in kinds if k != "other"), node=fn,
              fail="the overlay order of defaults / context / explicit "
                   "arguments is not defaults < context < explicit (found "
                   "writers %s)" % [t_ for _, t_ in writers])
    # context values only for names already present, from the stack
    okc = False
    if "context" in kinds:
        f = fl.facts(kinds["context"])
        okc = has_fact(f, "name in %s" % var, True)
        lp = kinds["context"].ast._parent
        while lp is not None and not isinstance(lp, ast.For):
            lp = lp._parent
        src = chain(lp.iter.args[0]) if lp is not None and \
            isinstance(lp.iter, ast.Call) and lp.iter.args else None
        ds = fl.reaching(src, cfg.loop_head[id(lp)]) if src else []
        okc = okc and len(ds) == 1 and unparse(ds[0].value) == \
            "self.get_context_arguments()"
    rep.check(okc, "C18-R1", inst, "a context value is used only for a "
              "parameter the method has and the caller did not pass "
              "positionally", construct="context restricted", node=fn)
    # Required scan raises before the call
    okr = False
    for r in raises_of(fn):
        if raise_name(r) == "TypeError":
            f = fl.facts(cfg.node_of(r))
            okr = has_fact(f, "v is Required", True)
            lp = r._parent
            while lp is not None and not isinstance(lp, ast.For):
                lp = lp._parent
            okr = okr and lp is not None and \
                unparse(lp.iter) == "iteritems(%s)" % var and \
                len(calls) == 1 and cfg.dominates(
                    cfg.loop_head[id(lp)], cfg.node_containing(calls[0])) \
                and cfg.dominates(kinds.get("explicit", cfg.exit),
                                  cfg.loop_head[id(lp)])
    rep.check(okr, "C18-R1", inst, "after the overlay, any parameter still "
              "Required raises TypeError before the method is called",
              construct="required check", node=fn)
    okf = len(calls) == 1 and unparse(calls[0]) == \
        "f(self, *args, **%s)" % var
    rep.check(okf, "C18-R1", inst, "the method is called with the caller's "
              "positional arguments and the resolved keywords",
              construct="wrapped call", node=fn)
    dec = program.get(CX + ":ContextMixin.use_contextual_arguments."
                           "decorator")
    dfl = Flow(dec)
    pad = [d for d in dfl.defs if d.var == "defaults" and d.mode == "assign"
           and "Required" in unparse(d.value)]
    okp = len(pad) == 1 and unparse(pad[0].value) == \
        "[Required] * (len(arg_names) - len(defaults)) + list(defaults)"
    rep.check(okp, "C18-R1", qual(dec), "parameters without a default are "
              "marked Required", construct="defaults padding", node=dec)
    ga = program.get(CX + ":ContextMixin.get_context_arguments")
    t = unparse(ga)
    push = program.get(CX + ":Context.__enter__")
    okg = "for context in self.__context_stack" in t and \
        "cargs.update(context.context_arguments)" in t and \
        "self.stack.append(self)" in unparse(push)
    rep.check(okg, "C18-R1", qual(ga), "the stack is merged oldest to "
              "newest (entering appends; later updates win)",
              construct="stack merge order", node=ga)
    rep.floor("C18-R1", 7)


def r2_pairing(program, rep):
    ex = program.get(CX + ":Context.__exit__")
    inst = qual(ex)
    fl = Flow(ex)
    cfg = fl.cfg
    pops = [c for c in calls_in(ex, "pop")
            if chain(call_name(c)[1]) == "self.stack"]
    ok = len(pops) == 1
    in_assert = False
    if ok:
        n = pops[0]
        while n is not None and n is not ex:
            if isinstance(n, ast.Assert):
                in_assert = True
            n = getattr(n, "_parent", None)
        pn = cfg.node_containing(pops[0])
        allpaths = cfg.must_pass(cfg.entry, lambda x: x is pn,
                                 targets=[cfg.exit, cfg.raise_exit])
    rep.check(ok and not in_assert, "C18-R2", inst, "the context is popped "
              "by a statement of its own (not inside an assert, which "
              "vanishes under -O)", construct="pop outside assert", node=ex)
    rep.check(ok and allpaths, "C18-R2", inst, "every way out of __exit__ - "
              "normal return or an exception from a callback - passes the "
              "pop", construct="pop on all exits", node=ex,
              fail="__exit__ can be left without popping the context: the "
                   "arguments of the block stay in force afterwards")
    cbs = [n for n in ast.walk(ex) if isinstance(n, ast.For) and
           unparse(n.iter) == "self._before_close"]
    okc = False
    if ok and len(cbs) == 1:
        call = [c for c in calls_in(cbs[0], chain(cbs[0].target))]
        okc = len(call) == 1 and cfg.reaches(cfg.node_containing(call[0]),
                                             pn) and \
            not cfg.reaches(pn, cfg.node_containing(call[0])) and \
            cfg.must_pass(cfg.entry, lambda x: x is cfg.stmt_node[
                id(cbs[0])], targets=[pn])
    rep.check(okc, "C18-R2", inst, "the registered callbacks run on every "
              "exit, before the pop (the stop signal still sees the block's "
              "app id)", construct="callbacks before pop", node=ex,
              fail="the before_close callbacks do not run on every exit "
                   "before the pop (e.g. skipped when the block raised): an "
                   "application block is left without stopping the "
                   "application")
    # returns falsy: exceptions propagate
    rets = [r for r in returns_of(ex) if r.value is not None and not (
        isinstance(r.value, ast.Constant) and not r.value.value)]
    rep.check(not rets, "C18-R2", inst, "__exit__ does not swallow "
              "exceptions", construct="exit return value", node=ex)
    en = program.get(CX + ":Context.__enter__")
    rep.check("self.stack.append(self)" in unparse(en), "C18-R2", qual(en),
              "entering pushes this context", construct="push", node=en)
    app = program.get(MC + ":MachineController.application")
    A = Terms(app)
    SELF = ("param", "self")
    aps = formals(app)
    rets = [A.term(r.value) for r in returns_of(app) if r.value is not None]
    CTX = ("callv", SELF, (), (("app_id", ("param", aps[1])),))
    oka = len(rets) == 1 and rets[0][:4] == CTX
    if oka:
        oka = False
        for n_, c, recv, args in method_calls(A, "before_close"):
            if recv != rets[0] or len(args) != 1:
                continue
            cb = args[0]
            body = None
            if cb[0] == "lambda" and cb[1] == 0:
                body = cb[2]
            elif cb[0] == "local":
                nested = [x for x in ast.walk(app)
                          if isinstance(x, ast.FunctionDef) and
                          x.name == cb[1]]
                if nested and not formals(nested[0]):
                    NT = Terms(nested[0], outer=(A, n_))
                    rr = [NT.term(r.value) for r in returns_of(nested[0])
                          if r.value is not None]
                    ex = [NT.term(x.value) for x in nested[0].body
                          if isinstance(x, ast.Expr)]
                    body = (rr or ex or [None])[0]
            oka = body is not None and plain(body) == (
                "call", ("attr", SELF, "send_signal"), (("const", "stop"),),
                ())
    rep.check(oka, "C18-R2", qual(app), "an application block carries "
              "app_id and registers the stop signal to run on exit",
              construct="application block", node=app)
    rep.floor("C18-R2", 5)


def r3_roles(program, rep):
    n = 0
    for cls in (MC + ":MachineController", BMP + ":BMPController"):
        c = program.get(cls)
        cname = cls.split(":")[1]
        for fn in c.body:
            if not isinstance(fn, ast.FunctionDef):
                continue
            rf = RoleFlow(fn)
            caller = "%s.%s" % (cname, fn.name)
            for call in ast.walk(fn):
                if not isinstance(call, ast.Call):
                    continue
                nm, rc = call_name(call)
                if rc is None:
                    continue
                if chain(rc) == "self" and program.has("%s.%s" % (cls, nm)):
                    callee = program.get("%s.%s" % (cls, nm))
                    if not isinstance(callee, ast.FunctionDef):
                        continue
                    cq = "%s.%s" % (cname, nm)
                    ex = set((cq, f) for (a, b, f) in EXEMPT
                             if a == caller and b == cq)
                    n += check_call(rep, "C18-R3", qual(fn), rf, call,
                                    callee, allowed_consts=ALLOWED_CONSTS,
                                    exempt_omit=ex)
                elif chain(rc) == "connection" and nm == "send_scp":
                    callee = program.get(SCP + ":SCPConnection.send_scp")
                    n += check_call(rep, "C18-R3", qual(fn), rf, call,
                                    callee,
                                    allowed_consts={"x": (0,), "y": (0,)},
                                    accept={("p", "BOARD")}
                                    if cname == "BMPController" else ())
    # the hop to the wire
    ss = program.get(SCP + ":SCPConnection.send_scp")
    t = unparse(ss)
    ok = "scpcall(x, y, p, cmd, arg1, arg2, arg3, data, callback, timeout)" \
        in t
    rep.check(ok, "C18-R3", qual(ss), "send_scp wraps its own x, y, p into "
              "the command record", construct="send_scp -> scpcall", node=ss)
    burst = program.get(SCP + ":SCPConnection.send_scp_burst")
    pk = calls_in(burst, "SCPPacket")
    okp = False
    if len(pk) == 1:
        kw = {k.arg: unparse(k.value) for k in pk[0].keywords}
        okp = kw.get("dest_x") == "args.x" and kw.get("dest_y") == "args.y" \
            and kw.get("dest_cpu") == "args.p" and \
            kw.get("cmd_rc") == "args.cmd" and \
            [kw.get("arg%d" % i) for i in (1, 2, 3)] == [
                "args.arg1", "args.arg2", "args.arg3"]
    rep.check(okp, "C18-R3", qual(burst), "the packet's destination is the "
              "command's x, y, p (then bytes 7, 6, 4 of the header, C15)",
              construct="packet destination", node=burst)
    sc = program.get(SCP + ":scpcall")
    import_ok = "x y p cmd arg1 arg2 arg3 data expected_args callback " \
        "timeout".split()
    flds = None
    for b in sc.bases:
        if isinstance(b, ast.Call) and len(b.args) == 2:
            try:
                flds = ast.literal_eval(b.args[1])
            except Exception:
                flds = None
    if isinstance(flds, str):
        flds = flds.replace(",", " ").split()
    new = program.get(SCP + ":scpcall.__new__")
    okn = flds is not None and list(flds)[:3] == ["x", "y", "p"] and \
        formals(new)[1:4] == ["x", "y", "p"]
    rep.check(okn, "C18-R3", qual(sc), "the command record's first fields "
              "are x, y, p in that order", construct="scpcall fields",
              node=sc)
    # app_id lands in the documented field of the signal / count words
    for m, frag in (("send_signal", "signal << 16 | 65280 | app_id"),
                    ("count_cores_in_state", "| 255 << 8 | app_id"),
                    ("_send_ffe", "NNCommands.flood_fill_end << 24 | pid"),
                    ("clear_routing_table_entries",
                     "app_id << 8 | consts.AllocOperations.free_rtr_by_app"),
                    ):
        f = program.get(MC + ":MachineController." + m)
        rep.check(frag in unparse(f), "C18-R3", qual(f), "%s encodes the "
                  "caller's value in the command word (%s)" % (m, frag),
                  construct="%s command word" % m, node=f)
    rep.floor("C18-R3", 150)
    return n


def r4_satisfiable(program, rep):
    n = 0
    for cls in (MC + ":MachineController", BMP + ":BMPController"):
        c = program.get(cls)
        for fn in c.body:
            if not isinstance(fn, ast.FunctionDef):
                continue
            dec = None
            for d in fn.decorator_list:
                if isinstance(d, ast.Call) and unparse(d.func).endswith(
                        "use_contextual_arguments"):
                    dec = d
            if dec is None:
                continue
            n += 1
            declared = set(k.arg for k in dec.keywords)
            rep.check(not fn.args.kwonlyargs, "C18-R4", qual(fn),
                      "no keyword-only parameters (the decorator cannot see "
                      "them)", construct="kwonly params", node=fn)
            if fn.args.kwarg is not None:
                kwn = fn.args.kwarg.arg
                popped = set()
                for cc in calls_in(fn, "pop"):
                    if chain(call_name(cc)[1]) == kwn and cc.args and \
                            isinstance(cc.args[0], ast.Constant):
                        if len(cc.args) == 1:
                            popped.add(cc.args[0].value)
                rep.check(popped <= declared, "C18-R4", qual(fn),
                          "every keyword the method pops unconditionally "
                          "(%s) is declared to the decorator" % sorted(
                              popped), construct="undeclared %s" % sorted(
                              popped - declared), node=fn,
                          fail="%s pops %s from **kwargs without a default "
                               "but the decorator was not told about it: the "
                               "context can never supply it" % (
                                   fn.name, sorted(popped - declared)))
                ctx = [a for a in declared if name_role(a)]
            else:
                rep.check(not declared, "C18-R4", qual(fn), "keyword-only "
                          "declarations only with **kwargs",
                          construct="declared without kwargs", node=fn)
    rep.floor("C18-R4", 60)
    return n


def r5_connection(program, rep):
    gc = program.get(MC + ":MachineController._get_connection")
    inst = qual(gc)
    T = Terms(gc)
    ps = formals(gc)
    SELF = ("param", "self")
    CONNS = ("attr", SELF, "connections")
    W, H, R = [("attr", SELF, a) for a in ("_width", "_height",
                                           "_root_chip")]
    ETH = ("call", ("global", "spinn5_local_eth_coord"),
           (("param", ps[1]), ("param", ps[2]), W, H, ("star", R)), ())
    cs = calls_in(gc, "spinn5_local_eth_coord")
    ok = len(cs) == 1 and T.term(cs[0]) == ETH
    rep.check(ok, "C18-R5", inst, "the board's Ethernet chip is computed "
              "from (x, y, width, height, *root_chip) in the geometry "
              "function's order", construct="eth coord arguments", node=gc)
    LOCAL = ("get", CONNS, ETH)
    DEFAULT = ("item", CONNS, ("const", None))
    known = [(is_none(W), False), (is_none(H), False), (is_none(R), False)]

    def live_returns(H_):
        return [H_.term(r.value, H_.cfg.node_of(r)) for r in returns_of(gc)
                if r.value is not None and H_.live(H_.cfg.node_of(r))]
    okr = live_returns(T.under(*(known + [(is_none(LOCAL), False)]))) == [
        LOCAL]
    okr = okr and live_returns(T.under(*(known + [(is_none(LOCAL), True)]))) \
        == [DEFAULT]
    for k in range(3):
        hyps = list(known)
        hyps[k] = (hyps[k][0], True)
        okr = okr and set(live_returns(T.under(*hyps))) == {DEFAULT}
    rep.check(okr, "C18-R5", inst, "the connection of the target's board is "
              "used when known, else the initial connection",
              construct="connection fallback", node=gc)
    ss = program.get(MC + ":MachineController._send_scp")
    S = Terms(ss)
    ps = formals(ss)
    oks = False
    for r in returns_of(ss):
        t = S.term(r.value) if r.value is not None else ("?",)
        if t[0] == "callv" and t[1][0] == "attr" and t[1][2] == "send_scp":
            conn = t[1][1]
            oks = conn[:4] == ("callv", ("attr", SELF, "_get_connection"),
                               (("param", ps[1]), ("param", ps[2])), ()) and \
                list(t[2][1:4]) == [("param", p_) for p_ in ps[1:4]] and \
                t[2][4:] == (("star", ("param", ss.args.vararg.arg)),) and \
                t[3] == (("**", ("param", ss.args.kwarg.arg)),)
    rep.check(oks, "C18-R5", qual(ss),
              "_send_scp picks the connection by its own x, y and forwards "
              "x, y, p", construct="_send_scp", node=ss)
    # the geometry function's index formula (also C19-R2)
    from .C19 import _private_helpers, _wp
    g = program.get(GEO + ":spinn5_local_eth_coord")
    gfl = Flow(g)
    G = Terms(g, helpers=_private_helpers(program))
    p6 = formals(g)
    okg = False
    rets = [G.term(r.value) for r in returns_of(g) if r.value is not None]
    cells = set()
    for rt in rets:
        for st_ in subterms(rt):
            m = match(("item", ("item", ("global", "SPINN5_ETH_OFFSET"),
                                V("i")), V("j")), st_)
            if m is not None:
                cells.add((m["i"], m["j"]))
    if len(cells) == 1 and len(p6) == 6:
        it, jt = list(cells)[0]
        x, y, w, h, rx, ry = [Poly.atom(p) for p in p6]
        i = gfl.sym(_wp(reify(plain(it))), gfl.cfg.entry)
        j = gfl.sym(_wp(reify(plain(jt))), gfl.cfg.entry)
        okg = i == gfl.mod(y - ry, Poly.const(12)) and \
            j == gfl.mod(x - rx, Poly.const(12))
    rep.check(okg, "C18-R5", qual(g), "the offset table is indexed "
              "[(y - root_y) % 12][(x - root_x) % 12]",
              construct="eth offset index", node=g,
              fail="spinn5_local_eth_coord indexes the offset table "
                   "wrongly: commands travel over another board's "
                   "connection when the root chip is not at the origin")
    b = program.get(BMP + ":BMPController._send_scp")
    B = Terms(b)
    ps = formals(b)
    BCONNS = ("attr", SELF, "connections")
    cab, frm, brd = [("param", p_) for p_ in ps[1:4]]
    DIRECT = ("get", BCONNS, ("tuple", cab, frm, brd))
    FRAME = ("get", BCONNS, ("tuple", cab, frm))
    snd = calls_in(b, "send_scp")
    okb = len(snd) == 1
    if okb:
        for hyp, want in (((is_none(DIRECT), False), DIRECT),
                          ((is_none(DIRECT), True), FRAME)):
            Hb = B.under(hyp)
            n_ = Hb.cfg.node_containing(snd[0])
            okb = okb and Hb.live(n_) and \
                Hb.term(snd[0].func.value, n_) == want
        n_ = B.cfg.node_containing(snd[0])
        a_ = [B.term(x, n_) for x in snd[0].args]
        okb = okb and a_[1:] == [("const", 0), ("const", 0), brd,
                                 ("star", ("param", b.args.vararg.arg))]
    rep.check(okb, "C18-R5", qual(b), "BMP commands try the (cabinet, "
              "frame, board) connection before (cabinet, frame) and address "
              "the board number on the wire", construct="BMP connection",
              node=b)
    rep.floor("C18-R5", 5)


def r6_link(program, rep):
    n = 0
    for name in sorted(program.modules):
        m = program.modules[name]
        bad = list(check_module(m))
        n += getattr(m, "_link_refs", 0)
        for node, msg in bad:
            rep.bad("C18-R6", name, msg, "%s: %s - the module cannot work "
                    "(or even be imported) on this interpreter, so no "
                    "command can be sent at all" % (name, msg), node)
        if not bad:
            rep.ok("C18-R6", name, "all standard-library names referenced "
                   "exist on this interpreter")
    rep.note("LINK: %d stdlib attribute references checked" % n)
    rep.floor("C18-R6", 50)


def check(program, rep):
    program.module(CX)
    program.module(MC)
    program.module(BMP)
    rep.guard("C18-R1", r1_decorator, program, rep)
    rep.guard("C18-R2", r2_pairing, program, rep)
    rep.guard("C18-R3", r3_roles, program, rep)
    rep.guard("C18-R4", r4_satisfiable, program, rep)
    rep.guard("C18-R5", r5_connection, program, rep)
    rep.guard("C18-R6", r6_link, program, rep)
    import sys
    rep.assume("interpreter = %d.%d (the one the suite runs under)" %
               sys.version_info[:2])
    return finish(rep, program, EXPLANATION, NOT_DECIDED,
                  trusted=["role table in roles.py and the EXEMPT / "
                           "ALLOWED_CONSTS tables in rules/C18.py (one "
                           "reason each)"])
