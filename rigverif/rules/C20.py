"""C20 - boot sends the complete image with this call's options only.

R1 options do not leak: boot() mutates neither its (mutable default)
   sv_overrides nor a caller's dict nor any module-level state, and nothing
   it calls in boot.py / struct_file.py writes module-level mutables
R2 datagram sequence: start(n_blocks-1) -> blocks -> end on every path;
   n_blocks = ceil(len(image)/1 KiB) with the same constant the loop cuts by;
   blocks numbered from 0 by +1; block number fits its field
R3 the configuration splice is length preserving and uses the packed struct
   after both default updates; the returned structs are the updated ones
R4 byte swap: each little-endian word is re-packed big-endian; header order
"""
import ast

from ..core import AnalysisError, finish, unparse, where
from ..constfold import Folder, consts_for
from ..effects import Effects, _mutable_ctor
from ..dataflow import Flow, chain, call_name
from ..bits import provenance
from ..poly import Poly, le, lt, eq
from ..terms import Terms, reify, plain, match, V, ANY, show, subterms, \
    alternatives, one_level, chunked, chunk_index, concat_parts, mk_cmp, \
    is_none, method_calls, stores
from ..util import calls_in, qual, returns_of, bind, formals

MOD = "rig.machine_control.boot"
SF = "rig.machine_control.struct_file"

EXPLANATION = (
    "R1: the EFFECTS origin analysis of boot.boot and of every function of "
    "boot.py and struct_file.py (with callee summaries) shows no in-place "
    "mutation of an argument, of the mutable default, or of module-level "
    "state. R2: CFG dominance/must-pass-through orders the start, block and "
    "end datagrams; the announced count is proved (Fourier-Motzkin with the "
    "floor-division axioms) to be the ceiling of len/BOOT_BYTE_SIZE for the "
    "same folded constant the loop slices by. R3/R4: slice bounds, format "
    "strings and argument orders are compared as folded constants / normal "
    "forms.")
EXPLANATION += (
    " R3 also splits on which of the two file arguments are None and "
    "requires open() to be given the caller's path for each that is not.")
NOT_DECIDED = ["timing (boot_delay)", "the boot ROM's acceptance of the "
               "image", "that the number of loop iterations equals the "
               "announced count is argued from the slice structure (each "
               "iteration removes min(1 KiB, remaining) bytes), not by a "
               "machine-checked loop invariant"]


def r1_effects(program, rep):
    eff = Effects(program)
    boot = program.get(MOD + ":boot")
    n = 0
    for m in (MOD, SF):
        program.module(m)
        for q, fn in program.functions(m):
            inst = "%s:%s" % (m, q)
            evs = eff.analyse(fn)
            public = not q.split(".")[-1].startswith("_") or \
                q.endswith("__init__")
            bad = []
            for e in evs:
                if e.kind == "mutate":
                    for o in e.origins:
                        if o[0] == "G" and o[1] != "?":
                            # a memo of immutable values determined by
                            # their keys carries nothing from call to call
                            from ..memo import memo_verdict, \
                                memo_values_mutable
                            try:
                                verdict, text = memo_verdict(fn, o[2])
                                mut = memo_values_mutable(fn, o[2])
                            except AnalysisError as ex:
                                verdict, text, mut = "unknown", str(ex), None
                            if verdict == "ok" and mut is False:
                                continue
                            if verdict == "stale" or mut is True:
                                bad.append((e, "module-level %s.%s%s" % (
                                    o[1], o[2], " (a cache handing out "
                                    "mutable objects)" if mut is True and
                                    verdict != "stale" else "")))
                            else:
                                rep.undecided("C20-R1", "%s writes the "
                                              "module-level %s.%s: %s" % (
                                                  q, o[1], o[2], text))
                        elif o[0] == "P" and o[1] not in ("self", "cls") \
                                and o[2] <= 2 and public:
                            bad.append((e, "argument %s" % o[1]))
                elif e.kind == "escape" and e.evident:
                    bad.append((e, "argument %s retained by reference" %
                                list(e.origins)[0][1]))
            n += 1
            if bad:
                e, what = bad[0]
                rep.bad("C20-R1", inst, "%s: %s" % (what, e.text),
                        "%s modifies %s (%s): options or parsed definitions "
                        "of one boot() call survive into later calls" % (
                            q, what, e.text), e.node)
            else:
                rep.ok("C20-R1", inst, "%s mutates no argument, no mutable "
                       "default and no module-level state" % q, fn)
    # the mutable default exists and is (only) copied
    a = boot.args
    pos = a.posonlyargs + a.args
    muts = [arg.arg for arg, d in zip(pos[len(pos) - len(a.defaults):],
                                      a.defaults) if _mutable_ctor(d)]
    rep.note("mutable defaults of boot(): %s" % muts)
    # the options reach the struct: update_default_values(**X) where X holds
    # both the explicit overrides and the keyword options, on every path
    T = Terms(boot)
    kwp = ("param", boot.args.kwarg.arg) if boot.args.kwarg else None
    ovp = ("param", "sv_overrides")
    upd = calls_in(boot, "update_default_values")
    got = False
    results = []
    why = "no update_default_values(**options) call"
    for c in upd:
        for k in c.keywords:
            if k.arg is not None:
                continue
            node = T.cfg.node_containing(c)
            X = T.term(k.value, node)
            if any(results):
                continue        # (one call applying both is what is needed)
            got = True
            if X[0] == "mu":
                cands = [(T._bind_term(T.binds[i]), T.binds[i].node)
                         for i in X[1].ids]
            else:
                cands = [(X, node)]
            for alt, at in cands:
                pa = plain(alt)
                if pa[0] == "dict" and len(pa[1]) == 1 and \
                        alt[0] == "new" and alt[2][1][0][0][0] == "elem" and \
                        alt[2][1][0][1] in (
                            ("item", alt[2][1][0][0][1], alt[2][1][0][0]),
                            ("comp", ("elem", ("items", alt[2][1][0][0][1])),
                             1)):
                    # one option at a time: {name: options[name]} for every
                    # name of the options
                    alt = alt[2][1][0][0][1]
                    pa = plain(alt)
                has_kw = alt == kwp
                has_ov = False
                if pa[0] == "call" and pa[1] == ("global", "dict"):
                    has_ov = ovp in pa[2]
                    has_kw = ("**", kwp) in pa[3] or kwp in pa[2]
                    for n_, c2, recv, args in method_calls(T, "update"):
                        if recv == alt and T.cfg.dominates(n_, node):
                            has_kw = has_kw or kwp in args
                            has_ov = has_ov or ovp in args
                if not has_ov and (is_none(ovp), True) in T.all_facts(at):
                    has_ov = True        # nothing to apply on this path
                if not (has_kw and has_ov):
                    got = False
                    if not results:
                        why = "on some path the options are %s, which " \
                            "leaves out %s" % (
                                show(alt)[:60], "the keyword options"
                                if not has_kw else "sv_overrides")
            results.append(got)
    got = any(results)
    rep.check(got, "C20-R1", qual(boot), "both sv_overrides and the keyword "
              "options are applied to the system-variable defaults on every "
              "path", construct="options applied", node=boot,
              fail="boot() does not apply both option sources to the "
                   "system-variable defaults: %s" % why)
    # every override is stored as given
    ud = program.get(SF + ":Struct.update_default_values")
    U = Terms(ud)
    E = ("elem", ("items", ("param", ud.args.kwarg.arg)))
    okv = False
    for c in calls_in(ud, "_replace"):
        for k in c.keywords:
            if k.arg == "default":
                okv = U.term(k.value, U.cfg.node_containing(c)) == (
                    "comp", E, 1)
    rep.check(okv, "C20-R1", qual(ud), "the new default of a field is the "
              "value given for it, whatever that value is (0 included)",
              construct="override value", node=ud,
              fail="update_default_values does not store the caller's value "
                   "itself as the field's default (e.g. 'value or old' "
                   "drops an override of 0)")
    rep.floor("C20-R1", 10)


def r2_sequence(program, folder, rep):
    fn = program.get(MOD + ":boot")
    inst = qual(fn)
    fl = Flow(fn, consts=consts_for(folder, fn))
    cfg = fl.cfg
    env = folder.module_env(MOD)
    mod = fn._module

    def const(e):
        try:
            v = folder.eval(e, env, mod)
        except AnalysisError:
            return None
        return v
    bp = program.get(MOD + ":boot_packet")
    sends = calls_in(fn, "boot_packet")
    if not sends:
        others = [f_ for q_, f_ in program.functions(MOD)
                  if f_ is not fn and calls_in(f_, "boot_packet")]
        if others:
            raise AnalysisError("boot: the datagrams are no longer sent by "
                                "boot() itself but through other functions; "
                                "the sequence is not analysed in that form")
    by_cmd = {}
    for c in sends:
        b = bind(c, bp)
        cmd = const(b.get("cmd")) if b.get("cmd") is not None else None
        by_cmd.setdefault(getattr(cmd, "name", None), []).append((c, b))
    ok = all(len(by_cmd.get(k, [])) == 1 for k in ("start", "send_block",
                                                    "end")) and \
        set(by_cmd) == {"start", "send_block", "end"}
    rep.check(ok, "C20-R2", inst, "boot issues exactly one start, one "
              "send_block (in a loop) and one end datagram site",
              construct="boot_packet sites %s" % sorted(
                  (k or "?", len(v)) for k, v in by_cmd.items()), node=fn)
    if not ok:
        return
    (c_start, b_start), = by_cmd["start"]
    (c_blk, b_blk), = by_cmd["send_block"]
    (c_end, b_end), = by_cmd["end"]
    n_start, n_blk, n_end = [cfg.node_containing(c) for c in (c_start, c_blk,
                                                              c_end)]
    # a size limit may refuse an image, but only one with more blocks than
    # the boot ROM's buffer holds (BOOT_MAX_BLOCKS): an image of exactly that
    # many blocks is sent
    TL = Terms(fn)
    MAXB = const(ast.parse("BOOT_MAX_BLOCKS", mode="eval").body)
    if MAXB is not None:
        tn = TL.cfg.node_containing(c_start)
        for t, p_ in TL.all_facts(tn):
            if t[0] != "cmp" or t[1] not in ("Lt", "LtE") or not p_:
                continue
            sides = [t[2], t[3]]
            cs = [const(reify(plain(x))) for x in sides]
            if cs[1] == MAXB and cs[0] is None and sides[0][0] in (
                    "binop", "mu", "call"):
                # <blocks> (<|<=) MAX holds where sending starts
                rep.check(t[1] == "LtE", "C20-R2", inst, "an image is "
                          "refused only if it needs more than "
                          "BOOT_MAX_BLOCKS blocks", construct="size limit",
                          node=c_start,
                          fail="sending starts only when the block count is "
                               "strictly below BOOT_MAX_BLOCKS: a legal "
                               "image of exactly BOOT_MAX_BLOCKS blocks is "
                               "refused and never sent")
    rep.check(cfg.dominates(n_start, n_blk) and cfg.dominates(n_start, n_end)
              and not cfg.reaches(n_blk, n_start), "C20-R2", inst,
              "the start datagram precedes every block and the end datagram",
              construct="start first", node=c_start)
    rep.check(cfg.must_pass(n_start, lambda n: n is n_end) and
              not cfg.reaches(n_end, n_blk), "C20-R2", inst,
              "every path from start to the return passes the end datagram, "
              "and no block follows it", construct="end last", node=c_end)
    # the block loop
    loop = c_blk
    while loop is not None and not isinstance(loop, (ast.While, ast.For)):
        loop = getattr(loop, "_parent", None)
    rep.check(loop is not None, "C20-R2", inst, "blocks are sent from a loop",
              construct="block loop", node=c_blk)
    if loop is None:
        return
    # announced count
    B = const(ast.parse("BOOT_BYTE_SIZE", mode="eval").body)
    if not isinstance(B, int):
        raise AnalysisError("BOOT_BYTE_SIZE does not fold")
    arg3 = b_start.get("arg3")
    if arg3 is None:
        rep.bad("C20-R2", inst, "start without count", "the start datagram "
                "carries no block count", c_start)
        return
    cnt = fl.sym(arg3, n_start) + 1          # announced = arg3 + 1
    cnt_cases = None
    # the blocks sent are the consecutive BOOT_BYTE_SIZE pieces of the
    # image, which is bytes(<the buffer that was spliced>)
    T = Terms(fn)

    def tconst(t):
        v = const(reify(plain(t)))
        return v if isinstance(v, int) and not isinstance(v, bool) else None
    tn = T.cfg.node_containing(c_blk)
    d_blk = b_blk.get("data")
    piece = T.term(d_blk, tn) if d_blk is not None else ("?",)
    if plain(piece)[0] in ("comp", "elem"):
        # the blocks were prepared in a collection beforehand and are only
        # fetched from it here: how that collection was cut from the image
        # is not read
        raise AnalysisError("boot: the data of a block is an item of a "
                            "collection prepared before the loop; how the "
                            "image was cut up there is not analysed")
    IMG = None
    if piece[0] == "item":
        for cand in one_level(piece[1]) + [piece[1]]:
            pc = plain(cand)
            if pc[0] == "call" and pc[1] == ("global", "bytes") and \
                    len(pc[2]) == 1:
                IMG = cand
    if IMG is None and piece[0] == "item":
        raise AnalysisError("boot: the blocks are cut from something that "
                            "is not bytes(<the buffer that was spliced>); "
                            "how the image was put together is not read")
    ok = IMG is not None and chunked(piece, IMG, B, tconst)
    by_number = None
    if not ok and IMG is not None and piece[0] == "item" and \
            piece[1] == IMG and piece[2][0] == "slice" and \
            piece[2][3] == ("const", None):
        # image[k * size : k * size + size] for the block number k over
        # range(<the number of blocks announced>)
        lo_, hi_ = piece[2][1], piece[2][2]
        if lo_[0] == "binop" and lo_[1] == "Mult":
            for k_, c_ in ((lo_[2], lo_[3]), (lo_[3], lo_[2])):
                m_ = match(("elem", ("call", ("global", "range"),
                                     (V("n"),), ())), k_)
                if m_ is None or tconst(c_) != B:
                    continue
                def sym_t_(t_):
                    e_ = reify(plain(t_))
                    for x_ in ast.walk(e_):
                        for y_ in ast.iter_child_nodes(x_):
                            y_._parent = x_
                    ast.fix_missing_locations(e_)
                    return fl.sym(e_, n_start)
                # the piece is B bytes long: hi - lo == B, however the upper
                # end is written (lo + B, (k + 1) * B, ...)
                try:
                    if sym_t_(hi_) - sym_t_(lo_) != Poly.const(B):
                        continue
                except AnalysisError:
                    continue
                if sym_t_(m_["n"]) != sym_t_(T.term(
                        arg3, T.cfg.node_containing(c_start))) + 1:
                    raise AnalysisError("boot: the blocks are cut by block "
                                        "number over a count that is not "
                                        "the announced one; not analysed")
                ok, by_number = True, k_
    if not ok and IMG is not None and piece[0] == "item" and \
            piece[1] == IMG and piece[2][0] == "slice" and any(
                st_[0] in ("mu", "phi") for st_ in subterms(piece[2][1])):
        # image[first:end] for a window moved along by assignments in the
        # loop: where the window is on each pass is not worked out here
        raise AnalysisError("boot: the blocks are cut by a window moved "
                            "along the image; not analysed")
    rep.check(ok, "C20-R2", inst, "the blocks sent are the consecutive "
              "%d-byte pieces of the image, in order (same constant as the "
              "announced count uses)" % B, construct="block slicing",
              node=loop,
              fail="the data of the send_block datagrams is not the image "
                   "cut into consecutive %d-byte pieces" % B)
    buf = None
    if IMG is not None:
        BUF = IMG[2][0] if IMG[0] != "new" else IMG[2][2][0]
        names = [b_.var for b_ in T.binds if b_.mode == "assign" and
                 b_.value is not None and
                 T._bind_term(b_) == BUF and "." not in b_.var]
        buf = names[0] if names else None
    rep.check(buf is not None, "C20-R2", inst, "the bytes cut into blocks "
              "are bytes(<the buffer that was spliced>)",
              construct="image source", node=loop)
    if buf is not None:
        Lb = fl.sym(ast.parse("len(%s)" % buf, mode="eval").body, n_start)
        goal = [lt(B * (cnt - 1), Lb), le(Lb, B * cnt)]
        # bytes(<bytearray>) has the bytearray's length
        Lb2 = fl.sym(ast.parse("len(bytes(%s))" % buf, mode="eval").body,
                     n_start)
        same = list(eq(Lb2, Lb)) if Lb2 != Lb else []
        ok = fl.prove(n_start, goal, extra=[lt(0, Lb)] + same,
                      use_facts=False)
        if not ok:
            # by cases when the count is the quotient plus one if there is
            # a remainder
            from ..casesplit import remainder_cases, sym_term
            try:
                cnt_cases = remainder_cases(
                    T, fl, arg3, T.cfg.node_containing(c_start), n_start)
            except AnalysisError:
                cnt_cases = None
            if cnt_cases is not None and len(cnt_cases) == 2:
                ok = True
                # (the length through its value term, as the count is)
                Lt = sym_term(fl, T.term(
                    ast.parse("len(%s)" % buf, mode="eval").body,
                    T.cfg.node_containing(c_start)), n_start)
                for extra_, tv_ in cnt_cases:
                    c_ = sym_term(fl, tv_, n_start) + 1
                    ok = ok and fl.prove(
                        n_start, [lt(B * (c_ - 1), Lt), le(Lt, B * c_)],
                        extra=[lt(0, Lt)] + list(extra_), use_facts=False)
        rep.check(ok, "C20-R2", inst, "announced count (arg3 + 1) = "
                  "ceil(len(image) / %d): %d*(n-1) < len <= %d*n" % (B, B,
                                                                     B),
                  construct="announced count %r" % (cnt,), node=c_start,
                  fail="the start datagram announces %r blocks; this is not "
                       "ceil(len/%d) for every image length (e.g. exact "
                       "multiples)" % (cnt, B))
    # numbering
    a1 = b_blk.get("arg1")
    if a1 is not None:
        a1t = T.term(a1, tn)
        lay = provenance(reify(plain(a1t)), lambda e: (const(e) if isinstance(
            const(e), int) and not isinstance(const(e), bool) else None))
        low = [p for p in lay.pieces if p.dst_lo == 0 and p.src_lo == 0]
        W = const(ast.parse("BOOT_WORD_SIZE", mode="eval").body)
        okl = len(lay.pieces) == 1 and len(low) == 1 and \
            lay.const == ((W - 1) << 8)
        rep.check(okl, "C20-R2", inst, "arg1 = (words per block - 1) << 8 | "
                  "block number", construct="block arg1 %r" % (lay,),
                  node=c_blk)
        # the block number: the low-bits operand of the or
        num = None
        for st_ in subterms(a1t):
            if low and unparse(reify(plain(st_))) == low[0].src:
                num = st_
        okn = False
        if num is not None and by_number is not None:
            okn = num == by_number
        elif num is not None and num[0] == "index":
            # the running index of the pieces themselves
            from ..terms import chunk_offsets
            if chunk_index(plain(num), B, tconst) is None:
                raise AnalysisError("boot: the blocks are numbered by their "
                                    "position in a collection whose "
                                    "construction these rules do not read")
            okn = piece[0] == "item" and plain(piece[2][1]) == (
                "elem", chunk_offsets(plain(num)))
        elif num is not None and num[0] == "mu":
            alts = one_level(num)
            okn = ("const", 0) in alts and len(alts) == 2 and any(
                x in (("binop", "Add", num, ("const", 1)),
                      ("binop", "Add", ("const", 1), num)) for x in alts)
            if okn:
                inc = [T.binds[i] for i in num[1].ids
                       if T._bind_term(T.binds[i]) != ("const", 0)][0]
                okn = _inside(inc.node.ast, loop) and \
                    cfg.must_pass(n_blk, lambda n: n is cfg.nodes[
                        inc.node.id], targets=[cfg.loop_head[id(loop)]])
        rep.check(okn, "C20-R2", inst, "blocks are numbered from 0, "
                  "increasing by one for each block sent",
                  construct="block numbering", node=loop)
    # the count bound: assert n_blocks <= BOOT_MAX_BLOCKS (<= 256) before
    MAXB = const(ast.parse("BOOT_MAX_BLOCKS", mode="eval").body)
    cons = fl.constraints(n_start)
    from ..poly import entails
    okb = isinstance(MAXB, int) and MAXB <= 256 and \
        entails(cons, [le(cnt, MAXB)])
    rep.check(okb, "C20-R2", inst, "the block count is bounded by "
              "BOOT_MAX_BLOCKS (%s <= 256) before anything is sent, so block "
              "numbers fit bits 7:0" % MAXB, construct="block count bound",
              node=c_start)
    rep.assume("assert statements are enabled (the count bound and the "
               "packed-struct length are checked by assert in boot())")
    # the end datagram is not sent when sending stopped half-way: it is not
    # in a finally clause or an exception handler
    n_ = c_end
    in_cleanup = False
    while n_ is not None and n_ is not fn:
        par = getattr(n_, "_parent", None)
        if isinstance(par, ast.Try) and any(n_ is x for x in par.finalbody):
            in_cleanup = True
        if isinstance(n_, ast.ExceptHandler):
            in_cleanup = True
        n_ = par
    rep.check(not in_cleanup, "C20-R2", inst, "the end datagram is sent only "
              "when every block has been sent (not from a finally clause or "
              "an exception handler)", construct="end not on failure",
              node=c_end,
              fail="the end datagram is sent from a finally clause / "
                   "exception handler: when sending fails half-way the "
                   "machine is told to start an incomplete image")
    e1 = b_end.get("arg1")
    rep.check(e1 is not None and const(e1) == 1, "C20-R2", inst,
              "the end datagram carries arg1 = 1", construct="end arg1",
              node=c_end)
    rep.floor("C20-R2", 10)


def _inside(node, anc):
    n = node
    while n is not None:
        if n is anc:
            return True
        n = getattr(n, "_parent", None)
    return False


def r3_splice(program, folder, rep):
    fn = program.get(MOD + ":boot")
    inst = qual(fn)
    fl = Flow(fn, consts=consts_for(folder, fn))
    cfg = fl.cfg
    env = folder.module_env(MOD)

    def const(e):
        try:
            return folder.eval(e, env, fn._module)
        except AnalysisError:
            return None
    splices = [n for n in ast.walk(fn) if isinstance(n, ast.Assign) and
               isinstance(n.targets[0], ast.Subscript) and
               isinstance(n.targets[0].slice, ast.Slice)]
    if not splices and any(
            isinstance(n, ast.Subscript) and isinstance(n.slice, ast.Slice)
            and isinstance(n.ctx, ast.Load) and any(
                isinstance(x, ast.Name) and x.id == "BOOT_DATA_OFFSET"
                for x in ast.walk(n.slice)) for n in ast.walk(fn)):
        # no slice assignment, but the image is taken apart at the offset of
        # the configuration area: written another way (concatenation)
        raise AnalysisError("boot: the configuration area is not written by "
                            "a slice assignment (the image is taken apart at "
                            "BOOT_DATA_OFFSET instead); that form is not "
                            "analysed")
    rep.check(len(splices) == 1, "C20-R3", inst, "one slice assignment "
              "writes the configuration area", construct="splice count %d" %
              len(splices), node=fn)
    if len(splices) != 1:
        return
    sp = splices[0]
    t = sp.targets[0]
    from ..terms import fold_consts
    TS_ = Terms(fn)
    spn = TS_.cfg.node_of(sp)

    def tconst_(e_):
        # a bound given through a temporary folds like the expression itself
        if e_ is None:
            return None
        c_ = const(e_)
        if c_ is not None:
            return c_
        try:
            f_ = fold_consts(plain(TS_.term(e_, spn)), const)
        except AnalysisError:
            return None
        return f_[1] if f_[0] == "const" else None
    lo, hi = tconst_(t.slice.lower), tconst_(t.slice.upper)
    v = sp.value
    if isinstance(v, ast.Name):
        # the bytes spliced in, kept in a temporary
        from ..util import resolve_tmp
        v = resolve_tmp(fl, v, cfg.node_of(sp))
    ok = False
    rhs_len = None
    if isinstance(v, ast.Subscript) and isinstance(v.slice, ast.Slice) and \
            v.slice.lower is None and v.slice.upper is not None:
        rhs_len = tconst_(v.slice.upper)
        ok = isinstance(lo, int) and isinstance(hi, int) and \
            hi - lo == rhs_len
    rep.check(ok and (lo, hi) == (384, 512), "C20-R3", inst,
              "buf[384:512] = packed[:128] (the documented 128-byte "
              "configuration area; target and source lengths equal)",
              construct="splice [%s:%s] <- [:%s]" % (lo, hi, rhs_len),
              node=sp,
              fail="the splice writes buf[%s:%s] from packed[:%s]: the image "
                   "is shifted or the configuration area misplaced" % (
                       lo, hi, rhs_len))
    # source is long enough (asserted) so the assignment cannot shrink buf
    src = chain(v.value) if isinstance(v, ast.Subscript) else None
    node = cfg.node_of(sp)
    okl = False
    if src and rhs_len is not None:
        L = fl.sym(ast.parse("len(%s)" % src, mode="eval").body, node)
        okl = fl.prove(node, [le(rhs_len, L)])
    rep.check(okl, "C20-R3", inst, "the packed struct is known (asserted) to "
              "hold at least the bytes spliced in, so the image length is "
              "preserved", construct="splice source length", node=sp)
    # the packed bytes are sv.pack() taken after both updates
    okp = False
    if src:
        ds = fl.reaching(src, node)
        if len(ds) == 1 and ds[0].mode == "assign" and \
                isinstance(ds[0].value, ast.Call) and \
                call_name(ds[0].value)[0] == "pack":
            svname = chain(call_name(ds[0].value)[1])
            ups = [c for c in calls_in(fn, "update_default_values")
                   if chain(call_name(c)[1]) == svname]
            okp = len(ups) >= 2 and all(
                cfg.reaches(cfg.node_containing(c), ds[0].node) and
                not cfg.reaches(ds[0].node, cfg.node_containing(c))
                for c in ups)
            # sv = structs[b"sv"], and structs is returned
            svd = fl.reaching(svname, ds[0].node)
            rets = returns_of(fn)
            okr = len(rets) == 1 and len(svd) == 1 and \
                isinstance(svd[0].value, ast.Subscript) and \
                chain(svd[0].value.value) == chain(rets[0].value) and \
                const(svd[0].value.slice) == b"sv"
            rep.check(okr, "C20-R3", inst, "the struct definitions returned "
                      "are the ones whose 'sv' defaults were updated",
                      construct="returned structs", node=fn)
    rep.check(okp, "C20-R3", inst, "the spliced bytes are sv.pack() taken "
              "after both update_default_values calls",
              construct="pack after updates", node=sp)
    # the buffer spliced is a bytearray copy of the image read from disk
    rep.floor("C20-R3", 4)


def r3_callers_files(program, rep):
    """The image sent and the struct definitions used are the files the
    caller names; the bundled ones are used for an argument only when THAT
    argument is None."""
    import itertools
    fn = program.get(MOD + ":boot")
    inst = qual(fn)
    T = Terms(fn)
    files = [a.arg for a in fn.args.args if a.arg in ("scamp_binary",
                                                      "sark_struct")]
    opens = [c for c in calls_in(fn, "open") if c.args]
    if len(files) != 2 or len(opens) != 2:
        raise AnalysisError("boot: the two files (image, struct "
                            "definitions) and their open() calls were not "
                            "found in the form analysed")
    for given in itertools.product((True, False), repeat=2):
        H = T.under(*[(is_none(("param", f_)), not g_)
                      for f_, g_ in zip(files, given)])
        got = []
        for c in opens:
            n = H.cfg.node_containing(c)
            got.append(plain(H.term(c.args[0], n)))
        if any(any(st_[0] in ("mu", "phi", "opaque") for st_ in subterms(g_))
               for g_ in got):
            raise AnalysisError("boot: which file is opened is not a single "
                                "value under the case split on the file "
                                "arguments; not analysed")
        for f_, g_ in zip(files, given):
            if g_:
                ok = ("param", f_) in got
                rep.check(ok, "C20-R3", inst, "the caller's %s is the file "
                          "read when it is given (%s)" % (f_, " / ".join(
                              "%s %s" % (x, "given" if y else "None")
                              for x, y in zip(files, given))),
                          construct="file opened for %s, case %s" % (
                              f_, given), node=fn,
                          fail="with %s the file read for %s is not the one "
                               "the caller named (the files opened are %s): "
                               "the image sent / the definitions used are "
                               "not the requested ones" % (
                                   ", ".join("%s %s" % (x, "given" if y else
                                                        "None")
                                             for x, y in zip(files, given)),
                                   f_, [show(x)[:50] for x in got]))


def r3_returned_structs(program, rep):
    """The struct definitions boot() returns are the very objects whose "sv"
    defaults received the options and were packed into the image (decided on
    value terms: a call result is a fresh object per call site; helpers are
    followed by the term engine)."""
    from ..terms import all_method_calls
    fn = program.get(MOD + ":boot")
    inst = qual(fn)
    T = Terms(fn)
    rets = [r for r in returns_of(fn) if r.value is not None]
    if len(rets) != 1:
        raise AnalysisError("boot: %d returns of a value" % len(rets))
    RET = T.term(rets[0].value, T.cfg.node_of(rets[0]))
    if RET[0] != "callv":
        raise AnalysisError("boot: the value returned is not the result of "
                            "one call")
    uses = all_method_calls(T, ["update_default_values", "pack"])
    ups = [u for u in uses if u[2].func.attr == "update_default_values"]
    pks = [u for u in uses if u[2].func.attr == "pack" and
           u[3][0] == "item" and u[3][2] == ("const", b"sv")]
    if not ups or not pks:
        raise AnalysisError("boot: the update of the 'sv' defaults / its "
                            "packing was not found")
    bad = None
    for v, n, c, recv, args in ups + pks:
        if recv == ("item", RET, ("const", b"sv")):
            continue
        if recv[0] == "item" and recv[1][0] == "callv" and \
                recv[2] == ("const", b"sv"):
            bad = (c, recv[1][-1])
            continue
        raise AnalysisError("boot: the struct that is updated / packed is "
                            "not read from a struct table in a form these "
                            "rules analyse")
    rep.check(bad is None, "C20-R3", inst, "the struct definitions returned "
              "are the objects whose 'sv' defaults were updated and packed",
              construct="returned structs (object identity)",
              node=bad[0] if bad else rets[0],
              fail="the 'sv' struct that receives the options / is packed "
                   "into the image comes from another call (site %s) than "
                   "the table boot() returns: the definitions returned keep "
                   "the file defaults and do not describe what was sent" %
                   (bad[1] if bad else ""))


r3_returned_structs.helper_aware = True


def r3_pack_fields(program, rep):
    """Struct.pack lays down the default of every field: the store of a
    field's packed default is on every path through the loop over the
    fields, or is skipped only for fields that end beyond a length limit."""
    fn = program.get(SF + ":Struct.pack")
    inst = qual(fn)
    T = Terms(fn)
    cfg = T.cfg
    from ..terms import stores as stores_
    cand = []
    for n, st, base, key, val in stores_(T):
        if key[0] != "slice":
            continue
        lo = key[1]
        if lo[0] == "attr" and lo[2] == "offset" and lo[1][0] == "elem" and \
                any(x == ("attr", ("param", "self"), "fields")
                    for x in subterms(lo[1])):
            cand.append((n, st, lo[1], key))
    if len(cand) != 1:
        raise AnalysisError("Struct.pack: the store of a field's packed "
                            "default was not found in the form analysed")
    n, st, E, key = cand[0]
    loop = getattr(st, "_parent", None)
    while loop is not None and not isinstance(loop, (ast.For, ast.While)):
        loop = getattr(loop, "_parent", None)
    heads = [h for h in cfg.nodes if h.kind == "iter" and h.ast is loop]
    if len(heads) != 1:
        raise AnalysisError("Struct.pack: the loop over the fields was not "
                            "found")
    head = heads[0]
    every = cfg.must_pass(head, lambda x: x is n, targets=[head])
    if every:
        rep.check(True, "C20-R3", inst, "the packed default of every field "
                  "is stored into the data on every pass of the loop over "
                  "the fields", construct="field store", node=st)
        return
    # fields may be left out of a shortened packing only when they end
    # beyond the limit (or start at/after it)
    END = key[2]
    OFF = key[1]
    skips = [x for x in cfg.nodes if isinstance(x.ast, ast.Continue) and
             x.kind == "stmt" and not cfg.dominates(n, x)]
    if not skips or not cfg.must_pass(
            head, lambda x: x is n or x in skips, targets=[head]):
        raise AnalysisError("Struct.pack: a field can be skipped on a path "
                            "these rules do not analyse")
    bad = None
    for sk in skips:
        facts = T.all_facts(sk)
        verdict = None
        for f, pol in facts:
            if f[0] != "cmp" or f[1] not in ("Lt", "LtE"):
                continue
            # canonical facts: (op, a, b) with polarity; express as a < / <= b
            op, a, b = f[1], f[2], f[3]
            if not pol:
                op, a, b = ("LtE" if op == "Lt" else "Lt"), b, a
            if b == END and a[0] == "param":
                verdict = op == "Lt" if verdict is None else verdict
            elif b == OFF and a[0] == "param":
                verdict = True if verdict is None else verdict
        if verdict is None:
            raise AnalysisError("Struct.pack: the condition under which a "
                                "field is left out was not understood")
        if not verdict:
            bad = sk
    rep.check(bad is None, "C20-R3", inst, "a field is left out of a "
              "shortened packing only when it ends beyond the limit",
              construct="field store", node=(bad.ast if bad else st),
              fail="Struct.pack leaves out a field that ends exactly at the "
                   "length limit (limit <= end of field): its default is "
                   "missing from the packed bytes although it lies wholly "
                   "within them")


r3_pack_fields.helper_aware = True


def r1_controller_forwarding(program, rep):
    """MachineController.boot hands the caller's keywords to boot.boot() as
    they are: an sv_overrides dictionary stays one argument (its entries
    are names of system variables, a different name space from boot()'s own
    parameters such as boot_delay)."""
    MCB = "rig.machine_control.machine_controller:MachineController.boot"
    fn = program.get(MCB)
    inst = qual(fn)
    T = Terms(fn)
    if fn.args.kwarg is None:
        raise AnalysisError("MachineController.boot: no **keywords")
    KW = ("param", fn.args.kwarg.arg)
    cs = [c for c in ast.walk(fn) if isinstance(c, ast.Call) and
          unparse(c.func) in ("boot.boot", "boot")]
    if len(cs) != 1:
        raise AnalysisError("MachineController.boot: the call of boot.boot")
    n = T.cfg.node_containing(cs[0])
    stars = [plain(T.term(k.value, n)) for k in cs[0].keywords
             if k.arg is None]
    ok = stars == [KW]
    flattened = None
    for n_, c_, recv, args in method_calls(T, ["update", "pop", "clear",
                                               "popitem"]):
        if plain(recv) != KW:
            continue
        if c_.func.attr == "update" and args and any(
                st_[0] in ("call", "callv", "get", "item") and any(
                    x == KW for x in subterms(st_)) for st_ in subterms(
                        plain(args[0]))):
            flattened = c_
        elif c_.func.attr in ("clear", "popitem"):
            raise AnalysisError("MachineController.boot: the keywords are "
                                "modified before they are handed on")
    for n_, st, base, key, val in stores(T):
        if plain(base) == KW:
            raise AnalysisError("MachineController.boot: the keywords are "
                                "modified before they are handed on")
    if not ok and flattened is None:
        raise AnalysisError("MachineController.boot: what is passed to "
                            "boot.boot as **keywords is not the method's "
                            "own keyword dictionary")
    rep.check(flattened is None, "C20-R1", inst, "the caller's keywords "
              "(sv_overrides among them, as one argument) are handed to "
              "boot.boot unchanged", construct="controller forwarding",
              node=flattened or cs[0],
              fail="entries taken out of one of the keywords (sv_overrides) "
                   "are merged into the keyword dictionary itself: a system "
                   "variable named like a parameter of boot() (boot_delay) "
                   "is taken for that parameter and never reaches the "
                   "configuration area")


def _fmt_norm(f):
    """A struct format as (byte order, expanded item codes): '!H4I' and
    '>HIIII' lay down the same bytes."""
    if not isinstance(f, (str, bytes)):
        return None
    if isinstance(f, bytes):
        f = f.decode("latin-1")
    f = f.replace(" ", "")
    order = "native"
    if f and f[0] in "@=<>!":
        order = {"<": "little", ">": "big", "!": "big"}.get(f[0], "native")
        f = f[1:]
    out, num = [], ""
    for ch in f:
        if ch.isdigit():
            num += ch
        elif ch in "sp":
            out.append(num + ch)
            num = ""
        else:
            # (standard sizes: L is I and l is i - four bytes either way)
            if order != "native":
                ch = {"L": "I", "l": "i"}.get(ch, ch)
            out.extend([ch] * (int(num) if num else 1))
            num = ""
    return order, tuple(out)


def r4_packet(program, folder, rep):
    fn = program.get(MOD + ":boot_packet")
    inst = qual(fn)
    env = folder.module_env(MOD)
    T = Terms(fn)

    def const(t):
        try:
            v = folder.eval(reify(plain(t)), env, fn._module)
        except Exception:
            return None
        return v
    ps = [a.arg for a in fn.args.args]
    sends = [c for c in calls_in(fn, "send") if len(c.args) == 1]
    if len(sends) != 1:
        raise AnalysisError("boot_packet: one send expected")
    sn = T.cfg.node_containing(sends[0])
    sent = T.term(sends[0].args[0], sn)
    oks = sent[0] == "binop" and sent[1] == "Add"
    rep.check(oks, "C20-R4", inst, "one datagram = header + swapped payload",
              construct="boot datagram", node=fn)
    if not oks:
        return
    hdr, body = plain(sent[2]), sent[3]
    PACK = ("attr", ("global", "struct"), "pack")
    okh = hdr[0] == "call" and hdr[1] == PACK and len(hdr[2]) == 6 and \
        _fmt_norm(const(hdr[2][0])) == _fmt_norm("!H4I") and \
        const(hdr[2][1]) == 1 and \
        list(hdr[2][2:]) == [("param", p_) for p_ in ps[1:5]]
    rep.check(okh, "C20-R4", inst,
              "header = pack('!H4I', 1, cmd, arg1, arg2, arg3)",
              construct="boot header", node=fn)
    elem = concat_parts(T, body)
    okw = okc = False
    if elem is not None:
        pe = plain(elem)
        UNP_ = ("call", ("attr", ("global", "struct"), "unpack"),
                (V("g"), V("w")), ())
        # (the single item of the unpacked word: [0] or *unpacking)
        m = match(("call", PACK, (V("f"), ("comp", UNP_, 0)), ()), pe) or \
            match(("call", PACK, (V("f"), ("star", UNP_)), ()), pe)
        if m is not None:
            okw = _fmt_norm(const(m["f"])) == _fmt_norm("!I") and \
                _fmt_norm(const(m["g"])) == _fmt_norm("<I")
            # the word: find it un-plained inside the element
            WORD = None
            for st_ in subterms(elem):
                if plain(st_) == m["w"]:
                    WORD = st_
            data = ("param", ps[5]) if len(ps) > 5 else None
            okc = WORD is not None and data is not None and \
                chunked(WORD, data, 4, const)
    if elem is not None and not okw:
        # struct.unpack_from('<I', data, i) for i in range(0, len(data), 4)
        # (also the normal form of struct.unpack('<I', data[i:i + 4]))
        UNF_ = ("call", ("attr", ("global", "struct"), "unpack_from"),
                (V("g"), V("w"), V("o")), ())
        pe = plain(elem)
        m = match(("call", PACK, (V("f"), ("comp", UNF_, 0)), ()), pe) or \
            match(("call", PACK, (V("f"), ("star", UNF_)), ()), pe)
        if m is not None:
            okw = _fmt_norm(const(m["f"])) == _fmt_norm("!I") and \
                _fmt_norm(const(m["g"])) == _fmt_norm("<I")
            data = ("param", ps[5]) if len(ps) > 5 else None
            o_ = m["o"]
            okc = False
            if o_[0] == "elem" and data is not None and m["w"] == data:
                r_ = match(("call", ("global", "range"),
                            (V("a"), V("b"), V("c")), ()), plain(o_[1]))
                okc = r_ is not None and const(r_["a"]) == 0 and \
                    const(r_["c"]) == 4 and r_["b"] == (
                        "call", ("global", "len"), (data,), ())
            if not okc and not (o_[0] == "elem"):
                raise AnalysisError("boot_packet: the words are read at "
                                    "offsets whose sequence is not read")
    if elem is not None and not okw:
        # struct.iter_unpack('<I', data) walks the consecutive words in order
        m = match(("call", PACK, (V("f"), ("comp", ("elem", ("call", (
            "attr", ("global", "struct"), "iter_unpack"),
            (V("g"), V("w")), ())), 0)), ()), plain(elem))
        if m is not None:
            okw = _fmt_norm(const(m["f"])) == _fmt_norm("!I") and \
                _fmt_norm(const(m["g"])) == _fmt_norm("<I")
            okc = len(ps) > 5 and m["w"] == ("param", ps[5])
    matched = okw or okc or elem is None
    if elem is not None and not okw:
        # word[::-1]: the four bytes of each word in reverse order
        pe = plain(elem)
        N_ = ("const", None)
        m = match(("item", V("w"), ("slice", N_, N_, ("const", -1))), pe)
        if m is not None:
            matched = True
            WORD = None
            w_ = m["w"]
            # (bytes(x) / memoryview(x) / bytearray(x) hold the same bytes)
            while w_[0] in ("call", "callv") and w_[1] in (
                    ("global", "bytes"), ("global", "memoryview"),
                    ("global", "bytearray")) and len(w_[2]) == 1:
                w_ = w_[2][0]
            for st_ in subterms(elem):
                if plain(st_) == w_:
                    WORD = st_
            data = ("param", ps[5]) if len(ps) > 5 else None
            okw = okc = WORD is not None and data is not None and \
                chunked(WORD, data, 4, const)
    if elem is not None and not matched and not any(
            st_[0] == "call" and st_[1] == PACK for st_ in subterms(
                plain(elem))):
        raise AnalysisError("boot_packet: the words of the payload are not "
                            "swapped by struct.pack / a reversed slice; "
                            "that form is not analysed")
    if elem is None:
        # the bulk form: all words unpacked at once and packed back
        pb = plain(body)
        UNPACK = ("attr", ("global", "struct"), "unpack")
        data = ("param", ps[5]) if len(ps) > 5 else None

        def counted(t, prefix):
            """``t`` == '<prefix>{}I'.format(n) / '<prefix>%dI' % n -> n"""
            if t[0] == "call" and t[1][0] == "attr" and \
                    t[1][2] == "format" and t[1][1][0] == "const" and \
                    len(t[2]) == 1 and t[1][1][1] in (
                        prefix + "{}I", prefix + "{0}I", prefix + "{:d}I"):
                return t[2][0]
            if t[0] == "binop" and t[1] == "Mod" and \
                    t[2] == ("const", prefix + "%dI"):
                return t[3]
            return None
        m = match(("call", PACK, (V("f"), ("star", ("call", UNPACK, (
            V("g"), V("w")), ()))), ()), pb)
        if m is None:
            raise AnalysisError("boot_packet: the byte swap of the payload "
                                "is in a form that is not analysed")
        n1, n2 = counted(m["f"], "!"), counted(m["g"], "<")
        n1 = n1 or counted(m["f"], ">")
        okw = n1 is not None and n1 == n2
        okc = okw and m["w"] == data and n1 == (
            "binop", "FloorDiv", ("call", ("global", "len"), (data,), ()),
            ("const", 4))
    rep.check(okw, "C20-R4", inst, "each word is unpacked little-endian "
              "('<I') and re-packed big-endian ('!I')",
              construct="byte swap", node=fn)
    rep.check(okc, "C20-R4", inst, "the payload is consumed four bytes at a "
              "time, in order, and the swapped words are concatenated in "
              "that order", construct="word slicing", node=fn)
    rep.floor("C20-R4", 4)


def r3_numbers(program, rep):
    """Every number of a struct file - offsets, sizes, bases, defaults - is
    read as hexadecimal when it is written 0x..., as decimal otherwise.
    int(text, 0) is not that: it applies the rules of Python literals, under
    which a decimal with a leading zero ('075') is an error, so a struct
    file that loaded before makes boot() fail before anything is sent."""
    fn = program.get(SF + ":num")
    inst = qual(fn)
    T = Terms(fn)
    V_ = ("param", formals(fn)[0])
    n = 0
    for r in returns_of(fn):
        if r.value is None:
            continue
        t = plain(T.term(r.value, T.cfg.node_of(r)))
        if not (t[0] == "call" and t[1] == ("global", "int") and
                len(t[2]) in (1, 2) and t[2][0] == V_):
            raise AnalysisError("struct_file.num: a number is not "
                                "converted by int(<text>[, base])")
        base = t[2][1] if len(t[2]) == 2 else dict(t[3]).get("base",
                                                             ("const", 10))
        if base[0] != "const" or not isinstance(base[1], int):
            raise AnalysisError("struct_file.num: the base is not a "
                                "constant")
        n += 1
        hexy = False
        for t_, p_ in T.all_facts(T.cfg.node_of(r)):
            if not any(st[0] == "attr" and st[2] == "match"
                       for st in subterms(t_)):
                continue
            # the pattern's answer as a truth value, or compared with None
            if t_[0] in ("call", "callv") and t_[1][0] == "attr" and \
                    t_[1][2] == "match":
                matched = p_
            elif t_[0] == "cmp" and t_[1] == "Is" and \
                    t_[3] == ("const", None) and \
                    t_[2][0] in ("call", "callv") and \
                    t_[2][1][0] == "attr" and t_[2][1][2] == "match":
                matched = not p_
            else:
                raise AnalysisError("struct_file.num: the test of the 0x "
                                    "pattern is not a form this rule reads")
            hexy = hexy or matched
        ok = base[1] == 16 and hexy or base[1] == 10 and not hexy
        rep.check(ok, "C20-R3", inst, "numbers are read in base 16 when "
                  "they match the 0x pattern, else in base 10",
                  construct="number base %d%s" % (
                      base[1], " (0x...)" if hexy else ""), node=r,
                  fail="numbers of the struct file are converted with base "
                       "%d%s: %s" % (
                           base[1], " where the 0x pattern matched" if hexy
                           else "", "int(text, 0) follows the rules of "
                           "Python literals and refuses decimals written "
                           "with a leading zero (075), which were read as "
                           "75 - boot() fails with ValueError before "
                           "anything is sent" if base[1] == 0 else
                           "decimal and hexadecimal fields are read in the "
                           "wrong base"))
    if not n:
        raise AnalysisError("struct_file.num: no conversion found")



def r3_every_option_applied(program, rep):
    """Struct.update_default_values applies every option it is given: no
    value is passed over because it is falsy (``if not value: continue``
    drops led0=0, soft_wdog=0, ... - options of this call that then are
    neither in the image nor in the structs returned).  A test against None
    is a different thing (an option that was not given) and is not judged
    here."""
    fn = program.get(SF + ":Struct.update_default_values")
    inst = qual(fn)
    kw = fn.args.kwarg.arg if fn.args.kwarg is not None else None
    if kw is None:
        raise AnalysisError("update_default_values: options are no longer "
                            "taken as keyword arguments")
    loops = []
    for lp in ast.walk(fn):
        if isinstance(lp, ast.For) and any(
                isinstance(x, ast.Name) and x.id == kw
                for x in ast.walk(lp.iter)) and \
                isinstance(lp.target, (ast.Tuple, ast.List)) and \
                len(lp.target.elts) == 2 and \
                isinstance(lp.target.elts[1], ast.Name):
            loops.append(lp)
    if not loops:
        raise AnalysisError("update_default_values: no loop over the "
                            "(name, value) pairs of the options found")
    for lp in loops:
        v = lp.target.elts[1].id
        hits = []

        def truth_uses(e):
            # v itself, not v, v and .., v or .. in a test position
            if isinstance(e, ast.Name) and e.id == v:
                return True
            if isinstance(e, ast.UnaryOp) and isinstance(e.op, ast.Not):
                return truth_uses(e.operand)
            if isinstance(e, ast.BoolOp):
                return any(truth_uses(x) for x in e.values)
            return False
        for n in ast.walk(lp):
            if isinstance(n, (ast.If, ast.While, ast.IfExp)) and \
                    truth_uses(n.test):
                hits.append(n)
            elif isinstance(n, ast.BoolOp) and any(
                    isinstance(x, ast.Name) and x.id == v
                    for x in n.values[:-1]):
                hits.append(n)
        rep.check(not hits, "C20-R3", inst, "every option given is applied, "
                  "whatever its truth value (no 'if not value' in the loop "
                  "over the options)", construct="falsy option skipped",
                  node=hits[0] if hits else lp,
                  fail="update_default_values tests the truth value of an "
                       "option's value (line %d): an option set to 0 / "
                       "False / '' is treated as not given and keeps the "
                       "struct file's default - the caller's setting is in "
                       "neither the image nor the returned structs" % (
                           hits[0].lineno if hits else 0),
                  positive=True)


def r3_options_not_truth_tested(program, rep):
    """boot() does not replace an option value by something else on a truth
    test (``sv_overrides[name] or default``): 0 is a value a caller sets
    (led0=0, soft_wdog=0)."""
    fn = program.get(MOD + ":boot")
    inst = qual(fn)
    opts = {"sv_overrides"}
    if fn.args.kwarg is not None:
        opts.add(fn.args.kwarg.arg)
    for n in ast.walk(fn):
        if isinstance(n, ast.Assign) and len(n.targets) == 1 and \
                isinstance(n.targets[0], ast.Name) and any(
                    isinstance(x, ast.Name) and x.id in opts
                    for x in ast.walk(n.value)) and isinstance(
                        n.value, (ast.Call, ast.Dict, ast.DictComp)):
            opts.add(n.targets[0].id)

    def is_option_value(e):
        if isinstance(e, ast.Subscript) and isinstance(e.value, ast.Name) \
                and e.value.id in opts:
            return True
        if isinstance(e, ast.Call) and isinstance(e.func, ast.Attribute) \
                and e.func.attr == "get" and isinstance(
                    e.func.value, ast.Name) and e.func.value.id in opts \
                and len(e.args) == 1:
            return True
        return False
    # loop variables over the items of an options dictionary
    vals = set()
    for lp in ast.walk(fn):
        it, tg = None, None
        if isinstance(lp, ast.For):
            it, tg = lp.iter, lp.target
        elif isinstance(lp, ast.comprehension):
            it, tg = lp.iter, lp.target
        if it is None or not isinstance(tg, (ast.Tuple, ast.List)) or \
                len(tg.elts) != 2 or not isinstance(tg.elts[1], ast.Name):
            continue
        if any(isinstance(x, ast.Name) and x.id in opts
               for x in ast.walk(it)):
            vals.add(tg.elts[1].id)
    hits = []
    for n in ast.walk(fn):
        if isinstance(n, ast.BoolOp) and isinstance(n.op, ast.Or):
            first = n.values[0]
            if is_option_value(first) or (isinstance(first, ast.Name) and
                                          first.id in vals):
                hits.append(n)
        elif isinstance(n, (ast.If, ast.IfExp)):
            t = n.test
            while isinstance(t, ast.UnaryOp) and isinstance(t.op, ast.Not):
                t = t.operand
            if is_option_value(t) or (isinstance(t, ast.Name) and
                                      t.id in vals):
                hits.append(n)
    rep.check(not hits, "C20-R3", inst, "no option value is replaced or "
              "passed over on a truth test in boot()",
              construct="option value truth-tested",
              node=hits[0] if hits else fn,
              fail="boot() decides by the truth value of an option (line "
                   "%d: %s): an option the caller set to 0 is treated as "
                   "not given" % (hits[0].lineno if hits else 0,
                                  unparse(hits[0])[:60] if hits else ""),
              positive=True)

def check(program, rep):
    program.module(MOD)
    folder = Folder(program)
    rep.guard("C20-R1", r1_effects, program, rep)
    rep.guard("C20-R1", r1_controller_forwarding, program, rep)
    rep.guard("C20-R2", r2_sequence, program, folder, rep)
    rep.guard("C20-R3", r3_splice, program, folder, rep)
    rep.guard("C20-R3", r3_pack_fields, program, rep)
    rep.guard("C20-R3", r3_returned_structs, program, rep)
    rep.guard("C20-R3", r3_callers_files, program, rep)
    rep.guard("C20-R3", r3_numbers, program, rep)
    rep.guard("C20-R3", r3_every_option_applied, program, rep)
    rep.guard("C20-R3", r3_options_not_truth_tested, program, rep)
    rep.guard("C20-R4", r4_packet, program, folder, rep)
    # the packed configuration is only as good as the table that maps the
    # struct file's field codes to struct-module codes (C14-R6)
    from . import C14
    rep.guard("C14-R6", C14.r6_pack_table, program, folder, rep)
    # arguments handed to package functions under the wrong name / same-
    # named optional parameters not passed on (NAMELINK, DESIGN.md 9.13)
    from .. import namelink as _nl
    rep.guard("C20-R5", _nl.rule, program, rep, "C20-R5",
              [m for m in sorted(program.modules) if m.startswith("rig.machine_control")])
    # fields of the system structs are read / written / packed through
    # sark.struct: no field of it runs into its neighbour (C14-R6)
    from . import C14 as _C14
    rep.guard("C14-R6", _C14.r_struct_no_overlap, program, rep, "C14-R6")
    return finish(rep, program, EXPLANATION, NOT_DECIDED,
                  trusted=["effects.py transfer functions",
                           "floor-division axioms in dataflow.axioms"])
