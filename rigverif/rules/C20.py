"""C20 - boot sends the complete image with this call's options only.

R1 options do not leak: boot() mutates neither its (mutable default)
   sv_overrides nor a caller's dict nor any module-level state, and nothing
   it calls in boot.py / struct_file.py writes module-level mutables
R2 datagram sequence: start(n_blocks-1) -> blocks -> end on every path;
   n_blocks = ceil(len(image)/1 KiB) with the same constant the loop cuts by;
   blocks numbered from 0 by +1; block number fits its field
R3 the configuration splice is length preserving and uses the packed struct
   after both default updates; the returned structs are the updated ones
R4 byte swap: each little-endian word is re-packed big-endian; header order
"""
import ast

from ..core import AnalysisError, finish, unparse, where
from ..constfold import Folder, consts_for
from ..effects import Effects, _mutable_ctor
from ..dataflow import Flow, chain, call_name
from ..bits import provenance
from ..poly import Poly, le, lt, eq
from ..util import calls_in, qual, returns_of, bind

MOD = "rig.machine_control.boot"
SF = "rig.machine_control.struct_file"

EXPLANATION = (
    "R1: the EFFECTS origin analysis of boot.boot and of every function of "
    "boot.py and struct_file.py (with callee summaries) shows no in-place "
    "mutation of an argument, of the mutable default, or of module-level "
    "state. R2: CFG dominance/must-pass-through orders the start, block and "
    "end datagrams; the announced count is proved (Fourier-Motzkin with the "
    "floor-division axioms) to be the ceiling of len/BOOT_BYTE_SIZE for the "
    "same folded constant the loop slices by. R3/R4: slice bounds, format "
    "strings and argument orders are compared as folded constants / normal "
    "forms.")
NOT_DECIDED = ["timing (boot_delay)", "the boot ROM's acceptance of the "
               "image", "that the number of loop iterations equals the "
               "announced count is argued from the slice structure (each "
               "iteration removes min(1 KiB, remaining) bytes), not by a "
               "machine-checked loop invariant"]


def r1_effects(program, rep):
    eff = Effects(program)
    boot = program.get(MOD + ":boot")
    n = 0
    for m in (MOD, SF):
        program.module(m)
        for q, fn in program.functions(m):
            inst = "%s:%s" % (m, q)
            evs = eff.analyse(fn)
            public = not q.split(".")[-1].startswith("_") or \
                q.endswith("__init__")
            bad = []
            for e in evs:
                if e.kind == "mutate":
                    for o in e.origins:
                        if o[0] == "G" and o[1] != "?":
                            bad.append((e, "module-level %s.%s" % (o[1],
                                                                   o[2])))
                        elif o[0] == "P" and o[1] not in ("self", "cls") \
                                and o[2] <= 2 and public:
                            bad.append((e, "argument %s" % o[1]))
                elif e.kind == "escape" and e.evident:
                    bad.append((e, "argument %s retained by reference" %
                                list(e.origins)[0][1]))
            n += 1
            if bad:
                e, what = bad[0]
                rep.bad("C20-R1", inst, "%s: %s" % (what, e.text),
                        "%s modifies %s (%s): options or parsed definitions "
                        "of one boot() call survive into later calls" % (
                            q, what, e.text), e.node)
            else:
                rep.ok("C20-R1", inst, "%s mutates no argument, no mutable "
                       "default and no module-level state" % q, fn)
    # the mutable default exists and is (only) copied
    a = boot.args
    pos = a.posonlyargs + a.args
    muts = [arg.arg for arg, d in zip(pos[len(pos) - len(a.defaults):],
                                      a.defaults) if _mutable_ctor(d)]
    rep.note("mutable defaults of boot(): %s" % muts)
    # the options reach the struct: update_default_values(**X) where X holds
    # both the explicit overrides and the keyword options
    fl = Flow(boot)
    upd = calls_in(boot, "update_default_values")
    got = False
    for c in upd:
        for k in c.keywords:
            if k.arg is None:
                v = chain(k.value)
                node = fl.cfg.node_containing(c)
                defs = fl.reaching(v, node) if v else []
                # X = dict(sv_overrides) ... X.update(kwargs)
                srcs = set()
                for d in fl.defs:
                    if d.var == v and d.node.ast is not None:
                        for sub in ast.walk(d.node.ast):
                            if isinstance(sub, ast.Name):
                                srcs.add(sub.id)
                kw = boot.args.kwarg.arg if boot.args.kwarg else None
                if kw in srcs and "sv_overrides" in srcs:
                    got = True
    rep.check(got, "C20-R1", qual(boot), "both sv_overrides and the keyword "
              "options are applied to the system-variable defaults",
              construct="options applied", node=boot)
    rep.floor("C20-R1", 10)


def r2_sequence(program, folder, rep):
    fn = program.get(MOD + ":boot")
    inst = qual(fn)
    fl = Flow(fn, consts=consts_for(folder, fn))
    cfg = fl.cfg
    env = folder.module_env(MOD)
    mod = fn._module

    def const(e):
        try:
            v = folder.eval(e, env, mod)
        except AnalysisError:
            return None
        return v
    bp = program.get(MOD + ":boot_packet")
    sends = calls_in(fn, "boot_packet")
    by_cmd = {}
    for c in sends:
        b = bind(c, bp)
        cmd = const(b.get("cmd")) if b.get("cmd") is not None else None
        by_cmd.setdefault(getattr(cmd, "name", None), []).append((c, b))
    ok = all(len(by_cmd.get(k, [])) == 1 for k in ("start", "send_block",
                                                    "end")) and \
        set(by_cmd) == {"start", "send_block", "end"}
    rep.check(ok, "C20-R2", inst, "boot issues exactly one start, one "
              "send_block (in a loop) and one end datagram site",
              construct="boot_packet sites %s" % sorted(
                  (k or "?", len(v)) for k, v in by_cmd.items()), node=fn)
    if not ok:
        return
    (c_start, b_start), = by_cmd["start"]
    (c_blk, b_blk), = by_cmd["send_block"]
    (c_end, b_end), = by_cmd["end"]
    n_start, n_blk, n_end = [cfg.node_containing(c) for c in (c_start, c_blk,
                                                              c_end)]
    rep.check(cfg.dominates(n_start, n_blk) and cfg.dominates(n_start, n_end)
              and not cfg.reaches(n_blk, n_start), "C20-R2", inst,
              "the start datagram precedes every block and the end datagram",
              construct="start first", node=c_start)
    rep.check(cfg.must_pass(n_start, lambda n: n is n_end) and
              not cfg.reaches(n_end, n_blk), "C20-R2", inst,
              "every path from start to the return passes the end datagram, "
              "and no block follows it", construct="end last", node=c_end)
    # the block loop
    loop = c_blk
    while loop is not None and not isinstance(loop, (ast.While, ast.For)):
        loop = getattr(loop, "_parent", None)
    rep.check(loop is not None, "C20-R2", inst, "blocks are sent from a loop",
              construct="block loop", node=c_blk)
    if loop is None:
        return
    # announced count
    B = const(ast.parse("BOOT_BYTE_SIZE", mode="eval").body)
    if not isinstance(B, int):
        raise AnalysisError("BOOT_BYTE_SIZE does not fold")
    arg3 = b_start.get("arg3")
    if arg3 is None:
        rep.bad("C20-R2", inst, "start without count", "the start datagram "
                "carries no block count", c_start)
        return
    cnt = fl.sym(arg3, n_start) + 1          # announced = arg3 + 1
    # the image that is cut into blocks: the loop slices X[:K], X[K:]
    sl = [n for n in ast.walk(loop) if isinstance(n, ast.Subscript) and
          isinstance(n.slice, ast.Slice)]
    src = set(chain(s.value) for s in sl)
    ks = set()
    shapes = set()
    for s_ in sl:
        lo = const(s_.slice.lower) if s_.slice.lower is not None else None
        hi = const(s_.slice.upper) if s_.slice.upper is not None else None
        shapes.add((lo is not None, hi is not None))
        ks.add(lo if lo is not None else hi)
    ok = len(src) == 1 and ks == {B} and shapes == {(False, True),
                                                    (True, False)}
    rep.check(ok, "C20-R2", inst, "each iteration sends image[:%d] and keeps "
              "image[%d:] (same constant as the announced count uses)" % (
                  B, B), construct="block slicing %s %s" % (sorted(
                      str(k) for k in ks), sorted(shapes)), node=loop)
    img = list(src)[0] if len(src) == 1 else None
    # loop runs while data remains
    head_ok = False
    if isinstance(loop, ast.While):
        t = unparse(loop.test)
        head_ok = t in ("len(%s) > 0" % img, "%s" % img,
                        "len(%s) != 0" % img, "len(%s)" % img,
                        "0 < len(%s)" % img)
    rep.check(head_ok, "C20-R2", inst, "the loop continues while image bytes "
              "remain", construct="block loop condition", node=loop)
    # the sent data is the head slice, the kept data the tail
    d_blk = b_blk.get("data")
    dn = chain(d_blk) if d_blk is not None else None
    head_tail = False
    for n in ast.walk(loop):
        if isinstance(n, ast.Assign) and isinstance(n.targets[0], ast.Tuple) \
                and isinstance(n.value, ast.Tuple) and \
                len(n.value.elts) == 2:
            t0, t1 = [chain(t) for t in n.targets[0].elts]
            v0, v1 = n.value.elts
            if t0 == dn and t1 == img and isinstance(v0, ast.Subscript) and \
                    isinstance(v1, ast.Subscript) and \
                    v0.slice.lower is None and v1.slice.upper is None:
                head_tail = True
    rep.check(head_tail, "C20-R2", inst, "the block sent is the head slice "
              "and the remainder replaces the image variable",
              construct="head/tail split", node=loop)
    # which buffer: the image variable at the loop is bytes(<spliced buffer>)
    pre = cfg.node_of(loop) if id(loop) in cfg.stmt_node else None
    img_defs = fl.reaching(img, cfg.loop_head[id(loop)]) if img else []
    outer = [d for d in img_defs if not _inside(d.node.ast, loop)]
    buf = None
    if len(outer) == 1 and outer[0].mode == "assign" and \
            isinstance(outer[0].value, ast.Call) and \
            call_name(outer[0].value)[0] == "bytes" and outer[0].value.args:
        buf = chain(outer[0].value.args[0])
    rep.check(buf is not None, "C20-R2", inst, "the bytes cut into blocks "
              "are bytes(<the buffer that was spliced>)",
              construct="image source", node=loop)
    if buf is not None:
        Lb = fl.sym(ast.parse("len(%s)" % buf, mode="eval").body, n_start)
        goal = [lt(B * (cnt - 1), Lb), le(Lb, B * cnt)]
        ok = fl.prove(n_start, goal, extra=[lt(0, Lb)], use_facts=False)
        rep.check(ok, "C20-R2", inst, "announced count (arg3 + 1) = "
                  "ceil(len(image) / %d): %d*(n-1) < len <= %d*n" % (B, B,
                                                                     B),
                  construct="announced count %r" % (cnt,), node=c_start,
                  fail="the start datagram announces %r blocks; this is not "
                       "ceil(len/%d) for every image length (e.g. exact "
                       "multiples)" % (cnt, B))
    # numbering
    a1 = b_blk.get("arg1")
    blockvar = None
    if a1 is not None:
        a1e = a1
        if chain(a1) is not None:
            ds = fl.reaching(chain(a1), n_blk)
            if len(ds) == 1 and ds[0].mode == "assign":
                a1e = ds[0].value
        lay = provenance(a1e, lambda e: (const(e) if isinstance(
            const(e), int) and not isinstance(const(e), bool) else None))
        low = [p for p in lay.pieces if p.dst_lo == 0 and p.src_lo == 0]
        W = const(ast.parse("BOOT_WORD_SIZE", mode="eval").body)
        okl = len(lay.pieces) == 1 and len(low) == 1 and \
            lay.const == ((W - 1) << 8)
        rep.check(okl, "C20-R2", inst, "arg1 = (words per block - 1) << 8 | "
                  "block number", construct="block arg1 %r" % (lay,),
                  node=c_blk)
        if low:
            blockvar = low[0].src
    if blockvar:
        defs = [d for d in fl.defs if d.var == blockvar]
        init = [d for d in defs if d.mode == "assign" and
                not _inside(d.node.ast, loop)]
        incs = [d for d in defs if _inside(d.node.ast, loop)]
        ok = len(init) == 1 and const(init[0].value) == 0 and \
            len(incs) == 1 and incs[0].mode == "aug" and \
            isinstance(incs[0].value.op, ast.Add) and \
            const(incs[0].value.value) == 1 and \
            cfg.reaches(n_blk, incs[0].node) and \
            cfg.must_pass(n_blk, lambda n: n is incs[0].node,
                          targets=[cfg.loop_head[id(loop)]])
        rep.check(ok, "C20-R2", inst, "blocks are numbered from 0, "
                  "increasing by one after each block sent",
                  construct="block numbering", node=loop)
    # the count bound: assert n_blocks <= BOOT_MAX_BLOCKS (<= 256) before
    MAXB = const(ast.parse("BOOT_MAX_BLOCKS", mode="eval").body)
    cons = fl.constraints(n_start)
    from ..poly import entails
    okb = isinstance(MAXB, int) and MAXB <= 256 and \
        entails(cons, [le(cnt, MAXB)])
    rep.check(okb, "C20-R2", inst, "the block count is bounded by "
              "BOOT_MAX_BLOCKS (%s <= 256) before anything is sent, so block "
              "numbers fit bits 7:0" % MAXB, construct="block count bound",
              node=c_start)
    rep.assume("assert statements are enabled (the count bound and the "
               "packed-struct length are checked by assert in boot())")
    e1 = b_end.get("arg1")
    rep.check(e1 is not None and const(e1) == 1, "C20-R2", inst,
              "the end datagram carries arg1 = 1", construct="end arg1",
              node=c_end)
    rep.floor("C20-R2", 10)


def _inside(node, anc):
    n = node
    while n is not None:
        if n is anc:
            return True
        n = getattr(n, "_parent", None)
    return False


def r3_splice(program, folder, rep):
    fn = program.get(MOD + ":boot")
    inst = qual(fn)
    fl = Flow(fn, consts=consts_for(folder, fn))
    cfg = fl.cfg
    env = folder.module_env(MOD)

    def const(e):
        try:
            return folder.eval(e, env, fn._module)
        except AnalysisError:
            return None
    splices = [n for n in ast.walk(fn) if isinstance(n, ast.Assign) and
               isinstance(n.targets[0], ast.Subscript) and
               isinstance(n.targets[0].slice, ast.Slice)]
    rep.check(len(splices) == 1, "C20-R3", inst, "one slice assignment "
              "writes the configuration area", construct="splice count %d" %
              len(splices), node=fn)
    if len(splices) != 1:
        return
    sp = splices[0]
    t = sp.targets[0]
    lo, hi = const(t.slice.lower), const(t.slice.upper)
    v = sp.value
    ok = False
    rhs_len = None
    if isinstance(v, ast.Subscript) and isinstance(v.slice, ast.Slice) and \
            v.slice.lower is None and v.slice.upper is not None:
        rhs_len = const(v.slice.upper)
        ok = isinstance(lo, int) and isinstance(hi, int) and \
            hi - lo == rhs_len
    rep.check(ok and (lo, hi) == (384, 512), "C20-R3", inst,
              "buf[384:512] = packed[:128] (the documented 128-byte "
              "configuration area; target and source lengths equal)",
              construct="splice [%s:%s] <- [:%s]" % (lo, hi, rhs_len),
              node=sp,
              fail="the splice writes buf[%s:%s] from packed[:%s]: the image "
                   "is shifted or the configuration area misplaced" % (
                       lo, hi, rhs_len))
    # source is long enough (asserted) so the assignment cannot shrink buf
    src = chain(v.value) if isinstance(v, ast.Subscript) else None
    node = cfg.node_of(sp)
    okl = False
    if src and rhs_len is not None:
        L = fl.sym(ast.parse("len(%s)" % src, mode="eval").body, node)
        okl = fl.prove(node, [le(rhs_len, L)])
    rep.check(okl, "C20-R3", inst, "the packed struct is known (asserted) to "
              "hold at least the bytes spliced in, so the image length is "
              "preserved", construct="splice source length", node=sp)
    # the packed bytes are sv.pack() taken after both updates
    okp = False
    if src:
        ds = fl.reaching(src, node)
        if len(ds) == 1 and ds[0].mode == "assign" and \
                isinstance(ds[0].value, ast.Call) and \
                call_name(ds[0].value)[0] == "pack":
            svname = chain(call_name(ds[0].value)[1])
            ups = [c for c in calls_in(fn, "update_default_values")
                   if chain(call_name(c)[1]) == svname]
            okp = len(ups) >= 2 and all(
                cfg.dominates(cfg.node_containing(c), ds[0].node)
                for c in ups)
            # sv = structs[b"sv"], and structs is returned
            svd = fl.reaching(svname, ds[0].node)
            rets = returns_of(fn)
            okr = len(rets) == 1 and len(svd) == 1 and \
                isinstance(svd[0].value, ast.Subscript) and \
                chain(svd[0].value.value) == chain(rets[0].value) and \
                const(svd[0].value.slice) == b"sv"
            rep.check(okr, "C20-R3", inst, "the struct definitions returned "
                      "are the ones whose 'sv' defaults were updated",
                      construct="returned structs", node=fn)
    rep.check(okp, "C20-R3", inst, "the spliced bytes are sv.pack() taken "
              "after both update_default_values calls",
              construct="pack after updates", node=sp)
    # the buffer spliced is a bytearray copy of the image read from disk
    rep.floor("C20-R3", 4)


def r4_packet(program, folder, rep):
    fn = program.get(MOD + ":boot_packet")
    inst = qual(fn)
    env = folder.module_env(MOD)

    def const(e):
        try:
            return folder.eval(e, env, fn._module)
        except AnalysisError:
            return None
    packs = [c for c in calls_in(fn, "pack")
             if chain(call_name(c)[1]) == "struct"]
    unpacks = [c for c in calls_in(fn, "unpack")
               if chain(call_name(c)[1]) == "struct"]
    ps = [a.arg for a in fn.args.args]
    hdr = [c for c in packs if const(c.args[0]) == "!H4I"]
    ok = len(hdr) == 1 and len(hdr[0].args) == 6 and \
        [chain(a) for a in hdr[0].args[2:]] == ps[1:5]
    ver = None
    if ok:
        fl = Flow(fn)
        ver = fl.sym(hdr[0].args[1], fl.cfg.node_containing(hdr[0]))
    rep.check(ok and ver == Poly.const(1), "C20-R4", inst,
              "header = pack('!H4I', 1, cmd, arg1, arg2, arg3)",
              construct="boot header", node=fn)
    word = [c for c in packs if const(c.args[0]) == "!I"]
    okw = False
    if len(word) == 1 and len(unpacks) == 1:
        a = word[0].args[1]
        okw = (isinstance(a, ast.Subscript) and a.value is unpacks[0] and
               const(a.slice) == 0 and const(unpacks[0].args[0]) == "<I")
    rep.check(okw, "C20-R4", inst, "each word is unpacked little-endian "
              "('<I') and re-packed big-endian ('!I')",
              construct="byte swap", node=fn)
    # words are taken 4 bytes at a time, in order
    sl = [n for n in ast.walk(fn) if isinstance(n, ast.Subscript) and
          isinstance(n.slice, ast.Slice)]
    ks = set()
    for s_ in sl:
        ks.add(const(s_.slice.lower) if s_.slice.lower is not None
               else const(s_.slice.upper))
    rep.check(ks == {4} and len(sl) == 2, "C20-R4", inst,
              "the payload is consumed as data[:4], data[4:]",
              construct="word slicing %s" % sorted(map(str, ks)), node=fn)
    sends = calls_in(fn, "send")
    oks = len(sends) == 1 and isinstance(sends[0].args[0], ast.BinOp) and \
        isinstance(sends[0].args[0].op, ast.Add)
    rep.check(oks, "C20-R4", inst, "one datagram = header + swapped payload",
              construct="boot datagram", node=fn)
    rep.floor("C20-R4", 4)


def check(program, rep):
    program.module(MOD)
    folder = Folder(program)
    rep.guard("C20-R1", r1_effects, program, rep)
    rep.guard("C20-R2", r2_sequence, program, folder, rep)
    rep.guard("C20-R3", r3_splice, program, folder, rep)
    rep.guard("C20-R4", r4_packet, program, folder, rep)
    return finish(rep, program, EXPLANATION, NOT_DECIDED,
                  trusted=["effects.py transfer functions",
                           "floor-division axioms in dataflow.axioms"])
