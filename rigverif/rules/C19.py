"""C19 - SpiNN-5 board geometry agrees with the board tiling.

Finite data: decided completely by constant folding against an independent
description of the 48-chip tile (kept here), plus normal-form checks of the
functions that index the tables.
"""
import ast

from ..core import AnalysisError, finish, unparse
from ..constfold import Folder, EnumMember
from ..dataflow import Flow, chain, call_name
from ..poly import Poly
from ..terms import Terms, reify, plain, match, V, ANY, show, subterms, \
    yields, mk_cmp, is_none
from ..util import calls_in, qual, formals, returns_of, parse_expr, \
    raise_name, raises_of

MOD = "rig.geometry"

# --- independent description of the tiling (SpiNN-5 board, 48 chips) -------
# Rows y = 0..7 of a board hold chips x in [max(0, y-3), min(7, y+4)]
# (SpiNNaker datasheet / SpiNN-5 board drawing: the hexagonal 8x8 outline).
TILE = set((x, y) for y in range(8)
           for x in range(max(0, y - 3), min(7, y + 4) + 1))
# Three boards tile a 12x12 cell; their Ethernet chips (the board's (0,0)):
ETH = [(0, 0), (4, 8), (8, 4)]
# link vectors (SpiNNaker: E, NE, N, W, SW, S)
VEC = {"east": (1, 0), "north_east": (1, 1), "north": (0, 1),
       "west": (-1, 0), "south_west": (-1, -1), "south": (0, -1)}

EXPLANATION = (
    "CONSTFOLD folds SPINN5_ETH_OFFSET (144 cells) and SPINN5_FPGA_LINKS from "
    "the AST and validates every cell / entry against an independent "
    "description of the 48-chip tile and the three-boards-per-12x12 tiling "
    "(exhaustive: the data are finite). The functions that index the tables "
    "are checked by symbolic normal forms: row index = (y - root_y) % 12, "
    "column index = (x - root_x) % 12, result wrapped modulo the machine "
    "size, on-board coordinate = minus the offset, Ethernet triple equal to "
    "the table's own Ethernet positions, out-of-machine filter, FPGA lookup "
    "keyed by the on-board coordinate, x12 scaling and %3 guard of "
    "standard_system_dimensions.")
EXPLANATION += (
    " R2 also reads a wrap-around written with tests: each alternative of "
    "a coordinate may mention only its own dimension.")
NOT_DECIDED = [
    "standard_system_dimensions' 'squarest factor pair' search (arithmetic "
    "over all board counts; only its guard, its factor relation w*h == "
    "triads and the x12 scaling are checked)",
]


def r1_offset_table(folder, rep):
    table = folder.name(MOD, "SPINN5_ETH_OFFSET")
    inst = MOD + ":SPINN5_ETH_OFFSET"
    if len(table) != 12 or any(len(r) != 12 for r in table):
        rep.bad("C19-R1", inst, "table shape", "SPINN5_ETH_OFFSET is not "
                "12 x 12")
        return None
    bad = []
    eths = set()
    owner = {}
    for y in range(12):
        for x in range(12):
            dx, dy = table[y][x]
            # independent: the unique board containing (x, y)
            cands = [e for e in ETH
                     if ((x - e[0]) % 12, (y - e[1]) % 12) in TILE]
            if len(cands) != 1:
                raise AnalysisError("tile description is not a tiling")
            e = cands[0]
            ex, ey = x + dx, y + dy
            onboard = (-dx, -dy)
            ok = ((ex % 12, ey % 12) == e and onboard in TILE and
                  onboard == ((x - e[0]) % 12, (y - e[1]) % 12))
            if ok:
                rep.ok("C19-R1", inst, "cell [y=%d][x=%d] offset (%d,%d) -> "
                       "board Ethernet %s, on-board %s" % (y, x, dx, dy, e,
                                                            onboard))
                eths.add((ex % 12, ey % 12))
            else:
                rep.bad("C19-R1", inst, "cell y=%d x=%d" % (y, x),
                        "SPINN5_ETH_OFFSET[%d][%d] = (%d, %d) points to "
                        "(%d, %d); the board containing chip (%d, %d) has "
                        "its Ethernet chip at %s (mod 12)" % (
                            y, x, dx, dy, ex, ey, x, y, e))
    rep.floor("C19-R1", 144)
    return eths


def _index_polys(fl, sub):
    """table[i][j] -> (sym(i), sym(j), node)."""
    node = fl.cfg.node_containing(sub)
    if not (isinstance(sub, ast.Subscript) and
            isinstance(sub.value, ast.Subscript)):
        return None
    return (fl.sym(sub.value.slice, node), fl.sym(sub.slice, node), node)


def _wp(e):
    for n in ast.walk(e):
        for c in ast.iter_child_nodes(n):
            c._parent = n
    ast.fix_missing_locations(e)
    return e


def _private_helpers(program):
    """Module-level private functions of rig.geometry (inlined when called
    and expression-like)."""
    out = {}
    for st in program.module(MOD).tree.body:
        if isinstance(st, ast.FunctionDef) and st.name.startswith("_"):
            out[st.name] = st
    return out


def r2_functions(program, folder, rep, eths):
    helpers = _private_helpers(program)
    TABLE = ("global", "SPINN5_ETH_OFFSET")
    for fname in ("spinn5_local_eth_coord", "spinn5_chip_coord"):
        fn = program.get("%s:%s" % (MOD, fname))
        inst = qual(fn)
        fl = Flow(fn)
        T = Terms(fn, helpers=helpers)
        ps = formals(fn)
        P_ = lambda n: ("param", n)      # noqa: E731
        if len(ps) != (6 if fname == "spinn5_local_eth_coord" else 4):
            raise AnalysisError("%s signature changed" % fname)
        rets = [T.term(r.value) for r in returns_of(fn)
                if r.value is not None]
        if len(rets) != 1 or rets[0][0] != "tuple" or len(rets[0]) != 3:
            raise AnalysisError("%s: return is no longer a pair" % fname)
        cells = set()
        for st_ in subterms(rets[0]):
            m = match(("item", ("item", TABLE, V("i")), V("j")), st_)
            if m is not None:
                cells.add((st_, m["i"], m["j"]))
        if len(cells) != 1 and fname == "spinn5_local_eth_coord" and any(
                st_[0] in ("phi", "mu") for st_ in subterms(rets[0])):
            # the wrap-around written with tests instead of %: each
            # coordinate may only be moved by its own dimension
            from ..terms import alternatives as _alts
            for k in (0, 1):
                own, other = ps[2 + k], ps[3 - k]
                for alt in _alts(rets[0][1 + k]):
                    try:
                        atoms_ = fl.sym(_wp(reify(plain(alt))),
                                        fl.cfg.entry).atoms()
                    except AnalysisError:
                        continue
                    if any(a_ == other for a_ in atoms_) and not any(
                            a_ == own for a_ in atoms_):
                        rep.bad("C19-R2", inst, "wrap of result %d" % k,
                                "the %s coordinate of the Ethernet chip is "
                                "wrapped round by the machine's %s (%s) "
                                "instead of its %s (%s): on a machine whose "
                                "width and height differ the chip reported "
                                "is outside the machine or on another "
                                "board" % ("xy"[k], "height" if k == 0 else
                                           "width", other, "width" if k == 0
                                           else "height", own), fn)
            raise AnalysisError("%s wraps the coordinates with tests "
                                "instead of %%; that form is not analysed "
                                "further" % fname)
        if len(cells) != 1:
            raise AnalysisError("%s no longer indexes SPINN5_ETH_OFFSET "
                                "once" % fname)
        CELL, it, jt = list(cells)[0]

        def poly(t):
            return fl.sym(_wp(reify(plain(t))), fl.cfg.entry)
        x, y = Poly.atom(ps[0]), Poly.atom(ps[1])
        rx, ry = Poly.atom(ps[-2]), Poly.atom(ps[-1])
        i, j = poly(it), poly(jt)
        want_i = fl.mod(y - ry, Poly.const(12))
        want_j = fl.mod(x - rx, Poly.const(12))
        rep.check(i == want_i, "C19-R2", inst,
                  "row index of SPINN5_ETH_OFFSET is (y - root_y) % 12",
                  construct="row index %r" % (i,), node=fn,
                  fail="row index is %r, the table is indexed [y][x] relative "
                       "to the root chip: expected %r" % (i, want_i))
        rep.check(j == want_j, "C19-R2", inst,
                  "column index of SPINN5_ETH_OFFSET is (x - root_x) % 12",
                  construct="column index %r" % (j,), node=fn,
                  fail="column index is %r, expected %r" % (j, want_j))
        INT = lambda k: ("call", ("global", "int"),       # noqa: E731
                         (("comp", CELL, k),), ())
        if fname == "spinn5_local_eth_coord":
            spec = [("binop", "Mod", ("binop", "Add", P_(ps[0]), INT(0)),
                     P_(ps[2])),
                    ("binop", "Mod", ("binop", "Add", P_(ps[1]), INT(1)),
                     P_(ps[3]))]
            text = ["(x + int(dx)) % w", "(y + int(dy)) % h"]
        else:
            spec = [("unop", "USub", INT(0)), ("unop", "USub", INT(1))]
            text = ["-int(dx)", "-int(dy)"]
        # every offset in the table is <= 0 (folded): abs(d) is -d there
        try:
            tbl_ = folder.name(MOD, "SPINN5_ETH_OFFSET")
            nonpos = all(int(v_) <= 0 for row_ in tbl_ for cell_ in row_
                         for v_ in cell_)
        except Exception:
            nonpos = False
        for k in (0, 1):
            g, w_ = poly(rets[0][1 + k]), poly(spec[k])
            rk = plain(rets[0][1 + k])
            if g != w_ and fname == "spinn5_chip_coord" and nonpos and \
                    rk[0] == "call" and rk[1] == ("global", "abs") and \
                    len(rk[2]) == 1 and poly(("unop", "USub", rk[2][0])) \
                    == w_:
                g = w_
            rep.check(g == w_, "C19-R2", inst,
                      "result[%d] = %s" % (k, text[k]),
                      construct="result %d %r" % (k, g), node=fn,
                      fail="result[%d] is %r, expected %s" % (k, g, text[k]))

    # spinn5_eth_coords
    fn = program.get(MOD + ":spinn5_eth_coords")
    inst = qual(fn)
    fl = Flow(fn)
    T = Terms(fn, helpers=helpers)
    ps = formals(fn)
    if len(ps) != 4:
        raise AnalysisError("spinn5_eth_coords signature changed")
    width, height, rx, ry = [Poly.atom(p) for p in ps]
    ys = yields(T)
    if len(ys) > 1:
        # a chip listed apart from the walk over the tiling (a short cut
        # for small machines, ...): listed without having been compared
        # with the machine's bounds?
        def _looped(node_):
            a_ = getattr(node_, "ast", None)
            while a_ is not None and a_ is not fn:
                if isinstance(a_, (ast.For, ast.While)):
                    return True
                a_ = getattr(a_, "_parent", None)
            return False
        apart = [y_ for y_ in ys if not _looped(y_[0])]
        for yn_, yt_, yf_ in apart:
            if yt_[0] != "tuple" or len(yt_) != 3:
                continue
            comps = [plain(x_) for x_ in yt_[1:]]
            bounded = all(any(
                t_[0] == "cmp" and t_[1] in ("Lt", "LtE") and
                c_ in (plain(t_[2]), plain(t_[3])) and any(
                    st_ in (("param", ps[0]), ("param", ps[1]))
                    for st_ in subterms(t_))
                for t_, p_ in yf_) for c_ in comps)
            if not bounded:
                rep.bad("C19-R2", inst, "chip listed apart from the walk",
                        "spinn5_eth_coords lists %s without going through "
                        "the walk over the board tiling and without "
                        "comparing it with the machine's bounds: a chip "
                        "outside the machine can be listed, and the "
                        "Ethernet chips of neighbouring boards that the "
                        "root offset brings into the machine are not" %
                        show(yt_)[:50], getattr(yn_, "ast", fn))
                return
    if len(ys) != 1 or ys[0][1][0] != "tuple" or len(ys[0][1]) != 3:
        raise AnalysisError("spinn5_eth_coords: yield shape changed")
    yn, yt, yfacts = ys[0]

    def poly(t):
        return fl.sym(_wp(reify(plain(t))), fl.cfg.entry)
    # the per-cell board origins: a constant collection iterated over
    origin = [st_ for st_ in subterms(yt) if st_[0] == "comp" and
              st_[1][0] == "phi"]
    trips = set(st_[1] for st_ in origin)
    if len(trips) != 1:
        raise AnalysisError("spinn5_eth_coords: cannot find the Ethernet "
                            "offsets loop")
    PHI = list(trips)[0]
    try:
        trip = [tuple(e[1] for e in x[1:]) for x in PHI[1:]]
    except Exception:
        raise AnalysisError("spinn5_eth_coords: Ethernet offsets do not fold")
    def _in_own_loop(x):
        # inside a loop of this very function (not of a nested helper)
        p_ = getattr(x, "_parent", None)
        seen_loop = False
        while p_ is not None and p_ is not fn:
            if isinstance(p_, (ast.FunctionDef, ast.Lambda)):
                return False
            if isinstance(p_, (ast.For, ast.While)):
                seen_loop = True
            p_ = getattr(p_, "_parent", None)
        return seen_loop
    early = [x for x in ast.walk(fn) if isinstance(x, (ast.Break,
                                                       ast.Return)) and
             _in_own_loop(x)]
    rep.check(not early, "C19-R2", inst, "every cell and each of its three "
              "Ethernet positions is looked at (no early exit from the "
              "loops: positions are not visited in increasing order once "
              "they wrap round the machine)",
              construct="eth coords early exit", node=early[0] if early
              else fn,
              fail="spinn5_eth_coords leaves a loop early (%s at line %d): "
                   "Ethernet chips that come later in the loop order - "
                   "wrapped round to the left or bottom edge by the root "
                   "chip's offset - are never listed" % (
                       type(early[0]).__name__.lower() if early else "",
                       early[0].lineno if early else 0))
    # (eths is None when C19-R1 could not read the table: no verdict from
    # the table there, the positions are still compared with the tiling)
    rep.check(set(trip) == set(ETH) and
              (eths is None or set(trip) == eths) and len(trip) == 3,
              "C19-R2",
              inst, "Ethernet positions per 12x12 cell %s equal the ones the "
              "offset table points to" % (sorted(trip),),
              construct="eth triple %s" % (sorted(trip),), node=fn)
    cellv = [st_ for st_ in subterms(yt) if st_[0] == "elem" and
             st_[1][0] == "call" and st_[1][1] == ("global", "range") and
             len(st_[1][2]) == 3]
    if not cellv:
        raise AnalysisError("spinn5_eth_coords: the cell origins are not "
                            "produced by range(0, size, 12) loops visible in "
                            "the yielded coordinates; that form is not "
                            "analysed")
    wpoly = fl.fdiv(width + 11, Poly.const(12)) * 12
    hpoly = fl.fdiv(height + 11, Poly.const(12)) * 12
    for k, (which, size, root) in enumerate((("x", wpoly, rx),
                                             ("y", hpoly, ry))):
        got = poly(yt[1 + k])
        ok = False

        def same(p_, q_):
            # equal as written, or provably equal (round-ups have several
            # spellings: (n + 11) // 12 * 12, n + (-n % 12), -(-n // 12) * 12)
            from ..poly import eq as _eq
            return p_ == q_ or fl.prove(
                fl.cfg.entry, _eq(fl.demod(p_), fl.demod(q_)),
                use_facts=False)
        # the modulus of the yielded coordinate
        gt = plain(yt[1 + k])
        for cv in set(cellv):
            a = [poly(z) for z in cv[1][2]]
            if a[0] == Poly.const(0) and same(a[1], size) and \
                    a[2] == Poly.const(12):
                v = poly(cv)
                d = poly(("comp", PHI, k))
                for r in (root, fl.mod(root, Poly.const(12))):
                    if got == fl.mod(v + d + r, size):
                        ok = True
                    elif gt[0] == "binop" and gt[1] == "Mod" and \
                            same(poly(gt[3]), size) and \
                            poly(gt[2]) == v + d + r:
                        ok = True
        def _has_mod(t_):
            for st_ in subterms(t_):
                if st_[0] == "binop" and st_[1] == "Mod":
                    try:
                        if same(poly(st_[3]), size):
                            return True
                    except AnalysisError:
                        pass
            return False
        if not ok and not _has_mod(gt):
            # another scheme altogether (e.g. a sweep from one cell below
            # the root, filtered by the bounds): not a form this rule reads
            raise AnalysisError("spinn5_eth_coords: the yielded %s "
                                "coordinate is not reduced modulo the "
                                "rounded size; how the positions are "
                                "enumerated is not analysed in that form"
                                % which)
        rep.check(ok, "C19-R2", inst,
                  "yielded %s = (cell origin + board offset + root_%s) %% "
                  "(size rounded up to a multiple of 12), cell origins "
                  "range(0, size, 12)" % (which, which),
                  construct="eth coord %s %r" % (which, got), node=fn,
                  fail="yielded %s coordinate is %r; expected (cell + offset "
                       "+ root) %% rounded size with cells range(0, size, "
                       "12)" % (which, got))
    okf = (mk_cmp("Lt", yt[1], ("param", ps[0])), True) in yfacts and \
        (mk_cmp("Lt", yt[2], ("param", ps[1])), True) in yfacts
    rep.check(okf, "C19-R2", inst, "a coordinate is yielded only if it is "
              "< width and < height", construct="range filter", node=fn)
    # a generator must not be wrapped by a result cache
    for f_ in (fn,):
        decs = [unparse(d) for d in f_.decorator_list]
        rep.check(not any("cache" in d or "memo" in d for d in decs),
                  "C19-R2", inst, "the generator is not wrapped by a result "
                  "cache (a cached generator object is exhausted after its "
                  "first use)", construct="decorators %s" % decs, node=f_,
                  fail="spinn5_eth_coords is a generator wrapped by %s: the "
                       "second call with the same arguments returns the "
                       "same, already exhausted, generator" % decs)
    rep.floor("C19-R2", 12)


def r2_dimensions(program, rep):
    """The dimensions the controller hands to the SpiNN-5 geometry are one
    more than the largest x and the largest y among the working chips, each
    maximum taken on its own (the maximum of the (x, y) pairs is ordered by
    x first: its y is not the largest y)."""
    fn = program.get("rig.machine_control.machine_controller:"
                     "MachineController.discover_connections")
    inst = qual(fn)
    T = Terms(fn)
    MAX = ("global", "max")
    for k, var in ((0, "self._width"), (1, "self._height")):
        bs = [b_ for b_ in T.binds if b_.var == var and b_.mode == "assign"]
        if len(bs) != 1:
            raise AnalysisError("discover_connections: %s is not set "
                                "once" % var)
        t = plain(T._bind_term(bs[0]))
        if not (t[0] == "binop" and t[1] == "Add" and
                ("const", 1) in (t[2], t[3])):
            raise AnalysisError("discover_connections: %s is not a maximum "
                                "plus one" % var)
        m = t[3] if t[2] == ("const", 1) else t[2]
        verdict = None
        if m[0] == "comp" and m[1][0] == "call" and m[1][1] == MAX and \
                len(m[1][2]) == 1:
            # pairs compare by x first: the first component of the largest
            # pair is the largest x, its second is not the largest y
            verdict = (m[2] == 0 and k == 0, "component %d of the largest "
                       "(x, y) pair (pairs compare by x first)" % m[2])
        elif m[0] == "call" and m[1] == MAX and len(m[2]) == 1 and \
                m[2][0][0] in ("genexp", "listcomp", "setcomp"):
            el = m[2][0][1]
            if el[0] == "comp" and isinstance(el[2], int):
                verdict = (el[2] == k, "the largest component %d" % el[2])
        if verdict is None:
            raise AnalysisError("discover_connections: how %s is derived "
                                "from the working chips is not read by "
                                "these rules" % var)
        rep.check(verdict[0], "C19-R2", inst, "%s = 1 + the largest %s "
                  "coordinate of a working chip" % (var, "xy"[k]),
                  construct="%s from working chips" % var, node=bs[0].node.ast,
                  fail="%s is 1 + %s, not 1 + the largest %s coordinate: "
                       "Ethernet chips beyond it are never looked for and "
                       "chips are attributed to the wrong board" % (
                           var, verdict[1], "xy"[k]))


def r3_fpga(program, folder, rep):
    links = folder.name("rig.links", "Links")
    table = folder.name(MOD, "SPINN5_FPGA_LINKS")
    inst = MOD + ":SPINN5_FPGA_LINKS"
    lnames = {m.name: m for m in links}
    if set(lnames) != set(VEC):
        raise AnalysisError("Links members changed: %s" % sorted(lnames))
    expected = set()
    for (x, y) in TILE:
        for ln, (vx, vy) in VEC.items():
            if (x + vx, y + vy) not in TILE:
                expected.add((x, y, ln))
    got = {}
    for k, v in table.items():
        if not (isinstance(k, tuple) and len(k) == 3 and
                isinstance(k[2], EnumMember)):
            rep.bad("C19-R3", inst, "key %r" % (k,), "malformed key %r" %
                    (k,))
            continue
        got[(k[0], k[1], k[2].name)] = v
    for k in sorted(expected | set(got)):
        if k in expected and k in got:
            v = got[k]
            rep.check(isinstance(v, tuple) and len(v) == 2 and
                      v[0] in (0, 1, 2) and 0 <= v[1] <= 15, "C19-R3", inst,
                      "link %s of on-board chip (%d,%d) leaves the board -> "
                      "FPGA %s" % (k[2], k[0], k[1], v),
                      construct="value of %s" % (k,))
        elif k in expected:
            rep.bad("C19-R3", inst, "missing %s" % (k,),
                    "link %s of on-board chip (%d, %d) leaves the board but "
                    "is not in SPINN5_FPGA_LINKS" % (k[2], k[0], k[1]))
        else:
            rep.bad("C19-R3", inst, "extra %s" % (k,),
                    "SPINN5_FPGA_LINKS lists link %s of chip (%d, %d) which "
                    "stays on the board (or is not a board chip)" % (
                        k[2], k[0], k[1]))
    vals = list(got.values())
    dup = sorted(set(v for v in vals if vals.count(v) > 1))
    rep.check(not dup, "C19-R3", inst,
              "every board-leaving link has a distinct (fpga, link) number",
              construct="duplicate FPGA link numbers %s" % (dup,),
              fail="FPGA link numbers %s are given to more than one link" %
                   (dup,))
    rep.check(len(set(vals)) == 48 and
              set(vals) == set((f, l) for f in range(3) for l in range(16)),
              "C19-R3", inst, "the 48 links use exactly FPGA 0-2 x link "
              "0-15", construct="fpga link numbering complete")
    rep.floor("C19-R3", 48)

    # spinn5_fpga_link
    fn = program.get(MOD + ":spinn5_fpga_link")
    T = Terms(fn, helpers=_private_helpers(program))
    ps = formals(fn)
    if len(ps) != 5:
        raise AnalysisError("spinn5_fpga_link signature changed")
    P_ = lambda n: ("param", n)      # noqa: E731
    CC = ("call", ("global", "spinn5_chip_coord"),
          (P_(ps[0]), P_(ps[1]), P_(ps[3]), P_(ps[4])), ())
    CCK = ("call", ("global", "spinn5_chip_coord"), (P_(ps[0]), P_(ps[1])),
           (("root_x", P_(ps[3])), ("root_y", P_(ps[4]))))
    rets = [plain(T.term(r.value)) for r in returns_of(fn)
            if r.value is not None]
    ok = False
    TABLE = ("global", "SPINN5_FPGA_LINKS")
    # the look-up, whichever way it is spelt (get, item under try/except,
    # membership test first)
    keys = []
    for r_ in rets:
        for st_ in subterms(r_):
            if st_[0] in ("get", "item") and st_[1] == TABLE:
                keys.append(st_[2])
    if not keys:
        raise AnalysisError("spinn5_fpga_link: the look-up in "
                            "SPINN5_FPGA_LINKS was not found")
    want_keys = [("tuple", ("comp", cc, 0), ("comp", cc, 1), P_(ps[2]))
                 for cc in (CC, CCK)] + [
        # (the pair returned, with the link appended)
        ("binop", "Add", cc, ("tuple", P_(ps[2]))) for cc in (CC, CCK)]
    if not any(st_[0] == "call" and st_[1] == ("global",
                                                "spinn5_chip_coord")
               for k in keys for st_ in subterms(k)):
        raise AnalysisError("spinn5_fpga_link: the on-board coordinate is "
                            "not obtained from spinn5_chip_coord; that form "
                            "is not analysed")
    ok = all(k in want_keys for k in keys) and all(
        r_ == ("const", None) or any(
            st_[0] in ("get", "item") and st_[1] == TABLE
            for st_ in subterms(r_)) for r_ in rets)
    rep.check(ok, "C19-R3", qual(fn),
              "spinn5_fpga_link looks up (on-board x, on-board y, link) where "
              "the on-board coordinate is spinn5_chip_coord(x, y, root_x, "
              "root_y)", construct="fpga lookup key", node=fn)


def r4_dimensions(program, rep):
    fn = program.get(MOD + ":standard_system_dimensions")
    inst = qual(fn)
    fl = Flow(fn)
    nb = Poly.atom(formals(fn)[0])
    rets = returns_of(fn)
    last = [r for r in rets if isinstance(r.value, ast.Tuple) and
            not all(isinstance(e, ast.Constant) for e in r.value.elts)]
    if len(last) != 1:
        raise AnalysisError("standard_system_dimensions: cannot identify the "
                            "general return")
    rn = fl.cfg.node_of(last[0])
    w12, h12 = [fl.sym(e, rn) for e in last[0].value.elts]
    if any(str(a_).startswith("call:") for p_ in (w12, h12)
           for a_ in p_.atoms()):
        raise AnalysisError("standard_system_dimensions: the factor is "
                            "taken from a call (e.g. next() over a "
                            "generator); that form is not analysed")
    triads = fl.fdiv(nb, Poly.const(3))
    # h is the loop variable; w = triads // h; result (12 w, 12 h)
    ok = False
    fi = 1          # which element of the result is the factor found
    for fi_, (f12, q12) in ((1, (h12, w12)), (0, (w12, h12))):
        # (the search may look for the height or for the width: the other
        # one is triads // <it>)
        hs = [a for a in f12.atoms()]
        if len(f12.t) == 1 and len(hs) == 1 and \
                list(f12.t.values())[0] == 12:
            H = Poly.atom(hs[0])
            # (n // 3) // h == n // (3 * h) for h >= 1
            if (q12 == fl.fdiv(triads, H) * 12) or \
                    (q12 == fl.fdiv(nb, H * 3) * 12):
                ok, fi = True, fi_
                break
    rep.check(ok, "C19-R4", inst,
              "result = (12 * (triads // h), 12 * h) with triads = "
              "num_boards // 3", construct="dimension scaling (%r, %r)" % (
                  w12, h12), node=last[0])
    # the factor search ends only at an exact factor: on every path to the
    # return, triads % h == 0 is known for the h that is used
    T = Terms(fn)
    okb = False
    if ok:
        rn_t = T.cfg.node_of(last[0])
        paths = T.facts_by_path(rn_t)
        # the height factor actually used in the result
        ht = plain(T.term(last[0].value.elts[fi], rn_t))
        HT = None
        if ht[0] == "binop" and ht[1] == "Mult":
            nc = [z for z in (ht[2], ht[3]) if z[0] != "const"]
            HT = nc[0] if len(nc) == 1 else None
        if HT is None:
            raise AnalysisError("standard_system_dimensions: the height "
                                "factor of the result")

        def factor_fact(facts, HT=HT):
            for t, p in facts:
                o = None
                if p and t[0] == "cmp" and t[1] == "Eq" and \
                        ("const", 0) in (t[2], t[3]):
                    o = t[3] if t[2] == ("const", 0) else t[2]
                elif not p and t[0] == "binop" and t[1] == "Mod":
                    o = t           # `not a % b` is `a % b == 0`
                if o is not None:
                    if o[0] == "binop" and o[1] == "Mod" and \
                            plain(o[3]) == HT:
                        try:
                            if fl.sym(_wp(reify(plain(o[2]))),
                                      fl.cfg.entry) == triads:
                                return True
                        except AnalysisError:
                            pass
            return False
        okb = bool(paths) and all(factor_fact(f) for _, f in paths)
        pht = plain(HT)
        if not okb and pht[0] == "call" and pht[1] in (
                ("global", "max"), ("global", "min")) and \
                len(pht[2]) == 1 and pht[2][0][0] in (
                    "genexp", "listcomp", "setcomp") and \
                len(pht[2][0][2]) == 1:
            # the largest (smallest) of the candidates that pass the factor
            # test: an element of a filtered comprehension passes its filter
            comp_ = pht[2][0]
            it_, conds_ = comp_[2][0]
            if comp_[1] == ("elem", it_):
                from ..terms import split_cond as _split
                fs = [x for c_ in conds_ for x in _split(c_, True)]
                okb = factor_fact(fs, HT=comp_[1])
        if not okb:
            # a for loop left by break: every break is under the factor test
            brk = [n for n in T.cfg.nodes if isinstance(n.ast, ast.Break)]
            okb = bool(brk) and all(factor_fact(T.all_facts(n))
                                    for n in brk)
        if not okb:
            # a scan that keeps a divisor found: every value the height
            # factor can hold is 1 or was stored under the factor test of
            # that very value
            raw = T.term(last[0].value.elts[fi], rn_t)
            mus = [st_ for st_ in subterms(raw) if st_[0] == "mu"]
            if len(mus) == 1:
                vals = []
                for i in mus[0][1].ids:
                    b_ = T.binds[i]
                    v_ = plain(T._bind_term(b_))
                    vals.append(v_ == ("const", 1) or factor_fact(
                        T.all_facts(b_.node), HT=v_))
                okb = bool(vals) and all(vals) and plain(HT) == plain(
                    mus[0])
    rep.check(okb, "C19-R4", inst, "the factor search stops only where "
              "triads % h == 0 for the very h the result uses (so w * h == "
              "triads)",
              construct="factor search exit", node=fn)
    # % 3 guard raises ValueError
    okg = False
    for r in raises_of(fn):
        if raise_name(r) != "ValueError":
            continue
        rnode = fl.cfg.node_of(r)
        for cond, pol, a in fl.facts(rnode):
            if isinstance(cond, ast.Compare):
                l = fl.sym(cond.left, a)
                if l == fl.mod(nb, Poly.const(3)):
                    okg = True
        M3 = ("binop", "Mod", ("param", formals(fn)[0]), ("const", 3))
        for t, p in T.all_facts(T.cfg.node_of(r)):
            if (plain(t), p) in ((M3, True),
                                 (mk_cmp("Eq", M3, ("const", 0)), False)):
                okg = True
    rep.check(okg, "C19-R4", inst, "board counts that are not a multiple of "
              "3 (other than 0 and 1) are rejected with ValueError",
              construct="multiple-of-3 guard", node=fn)


def r2_root_source(program, rep):
    """The root-chip offset handed to the Ethernet-chip functions is the
    machine's own: MachineController keeps it unknown (None) until the
    machine has been asked (get_software_version(255, 255, 0).position);
    nothing pre-fills it with a fixed coordinate."""
    from ..util import defaults
    MCM = "rig.machine_control.machine_controller"
    m = program.module(MCM)
    n = 0
    for q, fn in sorted(m.defs.items()):
        if not isinstance(fn, ast.FunctionDef) or \
                not q.startswith("MachineController."):
            continue
        if not any(isinstance(x, ast.Attribute) and x.attr == "_root_chip"
                   and isinstance(x.ctx, ast.Store) for x in ast.walk(fn)):
            continue
        T = Terms(fn)
        dfl = defaults(fn)
        for b_ in T.binds:
            if b_.var != "self._root_chip" or b_.value is None:
                continue
            n += 1
            t = plain(T._bind_term(b_))
            asked = any(st_[0] in ("call", "callv") and st_[1][0] == "attr"
                        and st_[1][2] == "get_software_version"
                        for st_ in subterms(t))
            if t == ("const", None) or asked:
                ok, why = True, ""
            elif t[0] == "param" and t[1] in dfl:
                d_ = dfl[t[1]]
                ok = isinstance(d_, ast.Constant) and d_.value is None
                why = "it is pre-filled from the argument %s, whose " \
                    "default is %s: unless every caller passes the real " \
                    "root chip, the machine is never asked and all " \
                    "Ethernet-chip geometry is computed for a tiling " \
                    "rooted there" % (t[1], ast.unparse(d_))
            else:
                raise AnalysisError("MachineController: _root_chip is set "
                                    "from a value that is not read")
            rep.check(ok, "C19-R2", MCM + ":" + q, "the root chip is "
                      "unknown until the machine reports it",
                      construct="root chip source", node=b_.node.ast,
                      fail=why)
    if not n:
        raise AnalysisError("MachineController: no store to _root_chip")


def check(program, rep):
    program.module(MOD)
    folder = Folder(program)
    eths = rep.guard("C19-R1", r1_offset_table, folder, rep)
    rep.guard("C19-R2", r2_functions, program, folder, rep, eths)
    rep.guard("C19-R2", r2_dimensions, program, rep)
    rep.guard("C19-R2", r2_root_source, program, rep)
    rep.guard("C19-R3", r3_fpga, program, folder, rep)
    rep.guard("C19-R4", r4_dimensions, program, rep)
    # the slips that are visible wherever they occur (NAMELINK, FALSY, STALE,
    # NOEFFECT, SLIPS - DESIGN.md 9.13-9.15), over the property's modules
    from .. import namelink as _nl
    rep.guard("C19-R5", _nl.rule, program, rep, "C19-R5",
              ['rig.geometry'], floor=0)
    return finish(rep, program, EXPLANATION, NOT_DECIDED,
                  trusted=["the tile description at the top of rules/C19.py "
                           "(rows y=0..7 spanning x in [max(0,y-3), "
                           "min(7,y+4)]; Ethernet chips at (0,0),(4,8),(8,4) "
                           "per 12x12 cell)"], exhaustive=True)
