"""C19 - SpiNN-5 board geometry agrees with the board tiling.

Finite data: decided completely by constant folding against an independent
description of the 48-chip tile (kept here), plus normal-form checks of the
functions that index the tables.
"""
import ast

from ..core import AnalysisError, finish, unparse
from ..constfold import Folder, EnumMember
from ..dataflow import Flow, chain, call_name
from ..poly import Poly
from ..util import calls_in, qual, formals, returns_of, parse_expr, \
    raise_name, raises_of

MOD = "rig.geometry"

# --- independent description of the tiling (SpiNN-5 board, 48 chips) -------
# Rows y = 0..7 of a board hold chips x in [max(0, y-3), min(7, y+4)]
# (SpiNNaker datasheet / SpiNN-5 board drawing: the hexagonal 8x8 outline).
TILE = set((x, y) for y in range(8)
           for x in range(max(0, y - 3), min(7, y + 4) + 1))
# Three boards tile a 12x12 cell; their Ethernet chips (the board's (0,0)):
ETH = [(0, 0), (4, 8), (8, 4)]
# link vectors (SpiNNaker: E, NE, N, W, SW, S)
VEC = {"east": (1, 0), "north_east": (1, 1), "north": (0, 1),
       "west": (-1, 0), "south_west": (-1, -1), "south": (0, -1)}

EXPLANATION = (
    "CONSTFOLD folds SPINN5_ETH_OFFSET (144 cells) and SPINN5_FPGA_LINKS from "
    "the AST and validates every cell / entry against an independent "
    "description of the 48-chip tile and the three-boards-per-12x12 tiling "
    "(exhaustive: the data are finite). The functions that index the tables "
    "are checked by symbolic normal forms: row index = (y - root_y) % 12, "
    "column index = (x - root_x) % 12, result wrapped modulo the machine "
    "size, on-board coordinate = minus the offset, Ethernet triple equal to "
    "the table's own Ethernet positions, out-of-machine filter, FPGA lookup "
    "keyed by the on-board coordinate, x12 scaling and %3 guard of "
    "standard_system_dimensions.")
NOT_DECIDED = [
    "standard_system_dimensions' 'squarest factor pair' search (arithmetic "
    "over all board counts; only its guard, its factor relation w*h == "
    "triads and the x12 scaling are checked)",
]


def r1_offset_table(folder, rep):
    table = folder.name(MOD, "SPINN5_ETH_OFFSET")
    inst = MOD + ":SPINN5_ETH_OFFSET"
    if len(table) != 12 or any(len(r) != 12 for r in table):
        rep.bad("C19-R1", inst, "table shape", "SPINN5_ETH_OFFSET is not "
                "12 x 12")
        return None
    bad = []
    eths = set()
    owner = {}
    for y in range(12):
        for x in range(12):
            dx, dy = table[y][x]
            # independent: the unique board containing (x, y)
            cands = [e for e in ETH
                     if ((x - e[0]) % 12, (y - e[1]) % 12) in TILE]
            if len(cands) != 1:
                raise AnalysisError("tile description is not a tiling")
            e = cands[0]
            ex, ey = x + dx, y + dy
            onboard = (-dx, -dy)
            ok = ((ex % 12, ey % 12) == e and onboard in TILE and
                  onboard == ((x - e[0]) % 12, (y - e[1]) % 12))
            if ok:
                rep.ok("C19-R1", inst, "cell [y=%d][x=%d] offset (%d,%d) -> "
                       "board Ethernet %s, on-board %s" % (y, x, dx, dy, e,
                                                            onboard))
                eths.add((ex % 12, ey % 12))
            else:
                rep.bad("C19-R1", inst, "cell y=%d x=%d" % (y, x),
                        "SPINN5_ETH_OFFSET[%d][%d] = (%d, %d) points to "
                        "(%d, %d); the board containing chip (%d, %d) has "
                        "its Ethernet chip at %s (mod 12)" % (
                            y, x, dx, dy, ex, ey, x, y, e))
    rep.floor("C19-R1", 144)
    return eths


def _index_polys(fl, sub):
    """table[i][j] -> (sym(i), sym(j), node)."""
    node = fl.cfg.node_containing(sub)
    if not (isinstance(sub, ast.Subscript) and
            isinstance(sub.value, ast.Subscript)):
        return None
    return (fl.sym(sub.value.slice, node), fl.sym(sub.slice, node), node)


def r2_functions(program, folder, rep, eths):
    for fname in ("spinn5_local_eth_coord", "spinn5_chip_coord"):
        fn = program.get("%s:%s" % (MOD, fname))
        inst = qual(fn)
        fl = Flow(fn)
        ps = formals(fn)
        if fname == "spinn5_local_eth_coord":
            if len(ps) != 6:
                raise AnalysisError("%s signature changed" % fname)
            x, y, w, h, rx, ry = [Poly.atom(p) for p in ps]
        else:
            if len(ps) != 4:
                raise AnalysisError("%s signature changed" % fname)
            x, y, rx, ry = [Poly.atom(p) for p in ps]
        subs = [n for n in ast.walk(fn) if isinstance(n, ast.Subscript) and
                isinstance(n.value, ast.Subscript) and
                chain(n.value.value) == "SPINN5_ETH_OFFSET"]
        if len(subs) != 1:
            raise AnalysisError("%s no longer indexes SPINN5_ETH_OFFSET "
                                "once" % fname)
        i, j, node = _index_polys(fl, subs[0])
        want_i = fl.mod(y - ry, Poly.const(12))
        want_j = fl.mod(x - rx, Poly.const(12))
        rep.check(i == want_i, "C19-R2", inst,
                  "row index of SPINN5_ETH_OFFSET is (y - root_y) % 12",
                  construct="row index %r" % (i,), node=subs[0],
                  fail="row index is %r, the table is indexed [y][x] relative "
                       "to the root chip: expected %r" % (i, want_i))
        rep.check(j == want_j, "C19-R2", inst,
                  "column index of SPINN5_ETH_OFFSET is (x - root_x) % 12",
                  construct="column index %r" % (j,), node=subs[0],
                  fail="column index is %r, expected %r" % (j, want_j))
        # the (dx, dy) unpacking order
        asg = subs[0]._parent
        if not (isinstance(asg, ast.Assign) and
                isinstance(asg.targets[0], ast.Tuple) and
                len(asg.targets[0].elts) == 2):
            raise AnalysisError("%s: offset is no longer unpacked as a pair"
                                % fname)
        dxn, dyn = [chain(t) for t in asg.targets[0].elts]
        rets = returns_of(fn)
        if len(rets) != 1 or not isinstance(rets[0].value, ast.Tuple) or \
                len(rets[0].value.elts) != 2:
            raise AnalysisError("%s: return is no longer a pair" % fname)
        rn = fl.cfg.node_of(rets[0])
        got = [fl.sym(e, rn) for e in rets[0].value.elts]
        pnames = formals(fn)
        if fname == "spinn5_local_eth_coord":
            spec = ["(%s + int(%s)) %% %s" % (pnames[0], dxn, pnames[2]),
                    "(%s + int(%s)) %% %s" % (pnames[1], dyn, pnames[3])]
        else:
            spec = ["-int(%s)" % dxn, "-int(%s)" % dyn]
        for k, (g, s) in enumerate(zip(got, spec)):
            want = fl.sym(parse_expr(s), rn)
            rep.check(g == want, "C19-R2", inst,
                      "result[%d] = %s" % (k, s),
                      construct="result %d %r" % (k, g), node=rets[0],
                      fail="result[%d] is %r, expected %s" % (k, g, s))

    # spinn5_eth_coords
    fn = program.get(MOD + ":spinn5_eth_coords")
    inst = qual(fn)
    fl = Flow(fn)
    ps = formals(fn)
    if len(ps) != 4:
        raise AnalysisError("spinn5_eth_coords signature changed")
    width, height, rx, ry = [Poly.atom(p) for p in ps]
    # the constant triple iterated over
    triples = []
    for n in ast.walk(fn):
        if isinstance(n, ast.For) and isinstance(n.iter, (ast.Tuple,
                                                          ast.List)):
            try:
                triples.append((n, folder.eval(n.iter, {}, fn._module)))
            except AnalysisError:
                pass
    if len(triples) != 1:
        raise AnalysisError("spinn5_eth_coords: cannot find the Ethernet "
                            "offsets loop")
    loop, trip = triples[0]
    rep.check(eths is not None and set(map(tuple, trip)) == set(ETH) and
              set(map(tuple, trip)) == eths and len(trip) == 3, "C19-R2",
              inst, "Ethernet positions per 12x12 cell %s equal the ones the "
              "offset table points to" % (sorted(map(tuple, trip)),),
              construct="eth triple %s" % (sorted(map(tuple, trip)),),
              node=loop)
    dxn, dyn = [chain(t) for t in loop.target.elts]
    # yields
    ys = [n for n in ast.walk(fn) if isinstance(n, ast.Yield)]
    if len(ys) != 1 or not isinstance(ys[0].value, ast.Tuple):
        raise AnalysisError("spinn5_eth_coords: yield shape changed")
    yn = fl.cfg.node_containing(ys[0])
    nx, ny = [fl.sym(e, yn) for e in ys[0].value.elts]
    # enclosing cell loops
    cell = {}
    p = loop
    while p is not None and p is not fn:
        p = getattr(p, "_parent", None)
        if isinstance(p, ast.For) and isinstance(p.iter, ast.Call) and \
                unparse(p.iter.func) == "range" and len(p.iter.args) == 3:
            a = [fl.sym(z, fl.cfg.loop_head[id(p)]) for z in p.iter.args]
            cell[chain(p.target)] = (p, a)
    if len(cell) != 2:
        raise AnalysisError("spinn5_eth_coords: cannot find the two cell "
                            "loops")
    wpoly = fl.fdiv(width + 11, Poly.const(12)) * 12
    hpoly = fl.fdiv(height + 11, Poly.const(12)) * 12
    # identify which loop variable goes with x: the one whose range bound is w
    for (which, size, root, dn, got) in (("x", wpoly, rx, dxn, nx),
                                         ("y", hpoly, ry, dyn, ny)):
        ok = False
        detail = repr(got)
        for var, (lp, a) in cell.items():
            if a[0] == Poly.const(0) and a[1] == size and \
                    a[2] == Poly.const(12):
                v = fl.symvar(var, yn)
                d = fl.symvar(dn, yn)
                for r in (root, fl.mod(root, Poly.const(12))):
                    if got == fl.mod(v + d + r, size):
                        ok = True
        rep.check(ok, "C19-R2", inst,
                  "yielded %s = (cell origin + board offset + root_%s) %% "
                  "(size rounded up to a multiple of 12), cell origins "
                  "range(0, size, 12)" % (which, which),
                  construct="eth coord %s %s" % (which, detail),
                  node=ys[0],
                  fail="yielded %s coordinate is %s; expected (cell + offset "
                       "+ root) %% rounded size with cells range(0, size, "
                       "12)" % (which, detail))
    # the filter: yield only inside the machine
    facts = fl.constraints(yn)
    from ..poly import lt, entails
    rep.check(entails(facts, [lt(nx, width), lt(ny, height)]), "C19-R2",
              inst, "a coordinate is yielded only if it is < width and < "
              "height", construct="range filter", node=ys[0])
    rep.floor("C19-R2", 11)


def r3_fpga(program, folder, rep):
    links = folder.name("rig.links", "Links")
    table = folder.name(MOD, "SPINN5_FPGA_LINKS")
    inst = MOD + ":SPINN5_FPGA_LINKS"
    lnames = {m.name: m for m in links}
    if set(lnames) != set(VEC):
        raise AnalysisError("Links members changed: %s" % sorted(lnames))
    expected = set()
    for (x, y) in TILE:
        for ln, (vx, vy) in VEC.items():
            if (x + vx, y + vy) not in TILE:
                expected.add((x, y, ln))
    got = {}
    for k, v in table.items():
        if not (isinstance(k, tuple) and len(k) == 3 and
                isinstance(k[2], EnumMember)):
            rep.bad("C19-R3", inst, "key %r" % (k,), "malformed key %r" %
                    (k,))
            continue
        got[(k[0], k[1], k[2].name)] = v
    for k in sorted(expected | set(got)):
        if k in expected and k in got:
            v = got[k]
            rep.check(isinstance(v, tuple) and len(v) == 2 and
                      v[0] in (0, 1, 2) and 0 <= v[1] <= 15, "C19-R3", inst,
                      "link %s of on-board chip (%d,%d) leaves the board -> "
                      "FPGA %s" % (k[2], k[0], k[1], v),
                      construct="value of %s" % (k,))
        elif k in expected:
            rep.bad("C19-R3", inst, "missing %s" % (k,),
                    "link %s of on-board chip (%d, %d) leaves the board but "
                    "is not in SPINN5_FPGA_LINKS" % (k[2], k[0], k[1]))
        else:
            rep.bad("C19-R3", inst, "extra %s" % (k,),
                    "SPINN5_FPGA_LINKS lists link %s of chip (%d, %d) which "
                    "stays on the board (or is not a board chip)" % (
                        k[2], k[0], k[1]))
    vals = list(got.values())
    dup = sorted(set(v for v in vals if vals.count(v) > 1))
    rep.check(not dup, "C19-R3", inst,
              "every board-leaving link has a distinct (fpga, link) number",
              construct="duplicate FPGA link numbers %s" % (dup,),
              fail="FPGA link numbers %s are given to more than one link" %
                   (dup,))
    rep.check(len(set(vals)) == 48 and
              set(vals) == set((f, l) for f in range(3) for l in range(16)),
              "C19-R3", inst, "the 48 links use exactly FPGA 0-2 x link "
              "0-15", construct="fpga link numbering complete")
    rep.floor("C19-R3", 48)

    # spinn5_fpga_link
    fn = program.get(MOD + ":spinn5_fpga_link")
    fl = Flow(fn)
    ps = formals(fn)
    if len(ps) != 5:
        raise AnalysisError("spinn5_fpga_link signature changed")
    cc = calls_in(fn, "spinn5_chip_coord")
    gets = [c for c in calls_in(fn, "get")
            if chain(call_name(c)[1]) == "SPINN5_FPGA_LINKS"]
    ok = False
    if len(cc) == 1 and len(gets) == 1:
        a = [chain(z) for z in cc[0].args]
        kws = {k.arg: chain(k.value) for k in cc[0].keywords}
        full = a + [kws.get(n) for n in ("root_x", "root_y")[
            max(0, len(a) - 2):]]
        args_ok = full[:4] == [ps[0], ps[1], ps[3], ps[4]]
        # the key: (on-board x, on-board y, link)
        key = gets[0].args[0] if gets[0].args else None
        asg = cc[0]._parent
        key_ok = False
        if isinstance(key, ast.Tuple) and len(key.elts) == 3 and \
                isinstance(asg, ast.Assign) and \
                isinstance(asg.targets[0], ast.Tuple):
            tnames = [chain(t) for t in asg.targets[0].elts]
            knames = [chain(k) for k in key.elts]
            gn = fl.cfg.node_containing(gets[0])
            an = fl.cfg.node_containing(cc[0])
            # the key's x,y must be the unpacked result (reaching def check)
            key_ok = knames[:2] == tnames and knames[2] == ps[2] and all(
                [d.node for d in fl.reaching(n, gn)] == [an]
                for n in tnames)
        ok = args_ok and key_ok
    rep.check(ok, "C19-R3", qual(fn),
              "spinn5_fpga_link looks up (on-board x, on-board y, link) where "
              "the on-board coordinate is spinn5_chip_coord(x, y, root_x, "
              "root_y)", construct="fpga lookup key", node=fn)


def r4_dimensions(program, rep):
    fn = program.get(MOD + ":standard_system_dimensions")
    inst = qual(fn)
    fl = Flow(fn)
    nb = Poly.atom(formals(fn)[0])
    rets = returns_of(fn)
    last = [r for r in rets if isinstance(r.value, ast.Tuple) and
            not all(isinstance(e, ast.Constant) for e in r.value.elts)]
    if len(last) != 1:
        raise AnalysisError("standard_system_dimensions: cannot identify the "
                            "general return")
    rn = fl.cfg.node_of(last[0])
    w12, h12 = [fl.sym(e, rn) for e in last[0].value.elts]
    triads = fl.fdiv(nb, Poly.const(3))
    # h is the loop variable; w = triads // h; result (12 w, 12 h)
    hs = [a for a in h12.atoms()]
    ok = False
    if len(h12.t) == 1 and len(hs) == 1 and list(h12.t.values())[0] == 12:
        H = Poly.atom(hs[0])
        ok = (w12 == fl.fdiv(triads, H) * 12)
    rep.check(ok, "C19-R4", inst,
              "result = (12 * (triads // h), 12 * h) with triads = "
              "num_boards // 3", construct="dimension scaling (%r, %r)" % (
                  w12, h12), node=last[0])
    # loop exit only at an exact factor: the break is guarded by
    # triads % h == 0
    brk = [n for n in ast.walk(fn) if isinstance(n, ast.Break)]
    okb = False
    for b in brk:
        bn = None
        for n in fl.cfg.nodes:
            if n.ast is b:
                bn = n
        if bn is not None:
            for cond, pol, a in fl.facts(bn):
                if pol and isinstance(cond, ast.Compare) and \
                        isinstance(cond.ops[0], ast.Eq):
                    l = fl.sym(cond.left, a)
                    r = fl.sym(cond.comparators[0], a)
                    hv = [x for x in (l - r).atoms()]
                    if r == Poly.const(0) and any(
                            fl.atom_info.get(x, ("",))[0] == "mod" and
                            fl.atom_info[x][1] == triads for x in hv):
                        okb = True
    rep.check(okb, "C19-R4", inst, "the factor search stops only where "
              "triads % h == 0 (so w * h == triads)",
              construct="factor search exit", node=fn)
    # % 3 guard raises ValueError
    okg = False
    for r in raises_of(fn):
        if raise_name(r) != "ValueError":
            continue
        rnode = fl.cfg.node_of(r)
        for cond, pol, a in fl.facts(rnode):
            if isinstance(cond, ast.Compare):
                l = fl.sym(cond.left, a)
                if l == fl.mod(nb, Poly.const(3)):
                    okg = True
    rep.check(okg, "C19-R4", inst, "board counts that are not a multiple of "
              "3 (other than 0 and 1) are rejected with ValueError",
              construct="multiple-of-3 guard", node=fn)


def check(program, rep):
    program.module(MOD)
    folder = Folder(program)
    eths = rep.guard("C19-R1", r1_offset_table, folder, rep)
    rep.guard("C19-R2", r2_functions, program, folder, rep, eths)
    rep.guard("C19-R3", r3_fpga, program, folder, rep)
    rep.guard("C19-R4", r4_dimensions, program, rep)
    return finish(rep, program, EXPLANATION, NOT_DECIDED,
                  trusted=["the tile description at the top of rules/C19.py "
                           "(rows y=0..7 spanning x in [max(0,y-3), "
                           "min(7,y+4)]; Ethernet chips at (0,0),(4,8),(8,4) "
                           "per 12x12 cell)"], exhaustive=True)
