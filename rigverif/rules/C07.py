"""C07 - remote memory reads and writes are byte-exact for any address and
length.

R1 chunk tiling of every multi-command transfer (loop invariants by LININV +
   per-iteration cursor advance by symbolic values)
R2 access type: the folded address/length table and the key built from the
   very address and length sent
R3 payload offset of a read reply
R4 struct-field / per-core-field addresses; fill alignment branch
R5 argument roles reach connection.read/write and the helpers in order
"""
import ast

from ..core import AnalysisError, finish, unparse
from ..constfold import Folder, consts_for, EnumMember
from ..dataflow import Flow, chain, call_name
from ..absint import Interp
from ..poly import Poly, le, lt, eq
from ..roles import RoleFlow, check_call
from ..divis import Divis
from ..terms import Terms, reify, plain, stores, match, V, ANY, show, \
    subterms, mk_cmp, is_none, method_calls, alternatives
from ..util import resolve_tmp, returns_of
from ..util import calls_in, qual, formals, bind, has_fact, parse_expr, \
    raises_of, raise_name

SCP = "rig.machine_control.scp_connection"
MC = "rig.machine_control.machine_controller"
CONSTS = "rig.machine_control.consts"

EXPLANATION = (
    "R1: for each chunking loop (SCPConnection.read/write, MachineController."
    "read_across_link/write_across_link) the linear-constraint interpreter "
    "proves 1 <= chunk <= remaining (and <= the buffer size) at the command, "
    "remaining == 0 at loop exit, and the symbolic values after one iteration "
    "show every cursor (address, offset/pos, result-window) advanced by "
    "exactly that chunk: the commands tile [address, address+length) with no "
    "gap or overlap, and each read callback is bound to the result slice "
    "with the same offset/length as its command. R2: address_length_dtype is "
    "folded (16 entries) and compared with the alignment rule; the key is "
    "(A % 4, N % 4) for the A, N passed as arg1, arg2. R3/R4: constant and "
    "normal-form comparisons. R5: role-preserving argument forwarding.")
EXPLANATION += (
    " C15-R1 (SDP header bytes, full field widths) is re-run: the core "
    "number of a memory command needs all five bits.")
NOT_DECIDED = [
    "behaviour under faults beyond what C06 gives",
    "the machine's side of each command",
]


def _loop_of(node, fn):
    n = node
    while n is not None and n is not fn:
        if isinstance(n, (ast.While, ast.For)):
            return n
        n = getattr(n, "_parent", None)
    return None


def _backedge_preds(cfg, loop):
    head = cfg.loop_head[id(loop)]
    inside = []
    for p in head.pred:
        # a predecessor that is reachable from the head is a back edge
        if cfg.reaches(head, p) or p is head:
            inside.append(p)
    return head, inside


def tile(rep, rule, inst, fn, it, site_call, chunk_expr, remaining_expr,
         cursors, upper=None, consts=None, exit_goal=None, what=""):
    """Generic tiling obligations for one chunking loop.
    cursors: list of expressions (as AST, evaluated at the site) that must
    advance by exactly the chunk each iteration."""
    fl = Flow(fn, consts=consts)
    cfg = fl.cfg
    site = cfg.node_containing(site_call)
    isite = it.cfg.node_containing(site_call)
    loop = _loop_of(site_call, fn)
    if loop is None:
        rep.bad(rule, inst, "%s not in a loop" % what, "the transfer is no "
                "longer cut into chunks by a loop", site_call)
        return
    chunk_i = it.sym(chunk_expr, isite)
    rem_i = it.sym(remaining_expr, isite)
    st = it.describe(isite)
    rep.check(it.holds_at(isite, [le(1, chunk_i), le(chunk_i, rem_i)]), rule,
              inst, "%s: 1 <= chunk <= bytes remaining at every command" %
              what, construct="%s chunk within remaining" % what,
              node=site_call,
              fail="%s: cannot show 1 <= %r <= %r at the command; state: "
                   "%s" % (what, chunk_i, rem_i, st))
    if upper is not None:
        up = it.sym(upper, isite)
        rep.check(it.holds_at(isite, [le(chunk_i, up)]), rule, inst,
                  "%s: every command carries at most the advertised buffer "
                  "size" % what, construct="%s chunk within buffer" % what,
                  node=site_call,
                  fail="%s: chunk %r not shown <= %r; state: %s" % (
                      what, chunk_i, up, st))
    # one-iteration effect
    head, backs = _backedge_preds(cfg, loop)
    if not backs:
        raise AnalysisError("%s: loop without back edge" % inst)
    chunk_s = fl.sym(chunk_expr, site)
    rem_s = fl.sym(remaining_expr, site)
    for b in backs:
        rem_after = fl.sym_after(remaining_expr, b)
        rep.check(rem_after == rem_s - chunk_s, rule, inst,
                  "%s: bytes remaining decrease by exactly the chunk sent" %
                  what, construct="%s remaining advance %r" % (what,
                                                              rem_after),
                  node=loop,
                  fail="%s: after one iteration the remaining count is %r, "
                       "expected %r" % (what, rem_after, rem_s - chunk_s))
        for cexpr in cursors:
            c_s = fl.sym(cexpr, site)
            c_after = fl.sym_after(cexpr, b)
            rep.check(c_after == c_s + chunk_s, rule, inst,
                      "%s: cursor %s advances by exactly the chunk sent" % (
                          what, unparse(cexpr)),
                      construct="%s cursor %s -> %r" % (what, unparse(cexpr),
                                                        c_after),
                      node=loop,
                      fail="%s: after one iteration %s is %r, expected %r "
                           "(gap, overlap or repeated data)" % (
                               what, unparse(cexpr), c_after, c_s + chunk_s))
    # complete coverage: nothing remains at exit
    ex = it.cfg.loop_exit[id(loop)]
    goal = exit_goal if exit_goal is not None else eq(
        it.sym(remaining_expr, ex), 0)
    rep.check(it.holds_at(ex, goal), rule, inst,
              "%s: the loop ends exactly when nothing remains" % what,
              construct="%s exit with nothing remaining" % what, node=loop,
              fail="%s: cannot show that nothing remains when the loop "
                   "exits; state: %s" % (what, it.describe(ex)))


def r1_scp_read(program, folder, rep):
    fn = program.get(SCP + ":SCPConnection.read.packets")
    inst = qual(fn)
    consts = consts_for(folder, fn)
    ps = formals(fn)
    rem = ps[0]
    ys = [n for n in ast.walk(fn) if isinstance(n, ast.Yield)]
    if len(ys) != 1 or not isinstance(ys[0].value, ast.Call):
        raise AnalysisError("SCPConnection.read.packets: yield shape")
    call = ys[0].value
    sc = program.get(SCP + ":scpcall.__new__")
    b = bind(call, sc, skip_self=True)
    a1, a2 = b.get("arg1"), b.get("arg2")
    if a1 is None or a2 is None:
        raise AnalysisError("read scpcall without arg1/arg2")
    if any(isinstance(x, ast.Subscript) and chain(x.value) == rem or
           isinstance(x, ast.Call) and call_name(x)[0] == "len" and x.args and
           chain(x.args[0]) == rem for x in ast.walk(fn)):
        raise AnalysisError("SCPConnection.read.packets: what remains to be "
                            "requested is kept as a shrinking view, not as a "
                            "byte count; the tiling is not analysed in that "
                            "form")
    R = Poly.atom(rem)
    it = Interp(fn, entry_cons=[le(0, R), le(1, Poly.atom("buffer_size"))],
                candidates=[le(0, R)], consts=consts)
    rep.assume("the machine's advertised SCP buffer size is >= 1 (>= 4 for "
               "link transfers); requested lengths are >= 0")
    # cursor: the address sent, and the result-slice offset
    cb = b.get("callback")
    sl = None
    fl0 = Flow(fn, consts=consts)
    n0 = fl0.cfg.node_containing(call)
    cb = resolve_tmp(fl0, cb, n0) if cb is not None else None
    if isinstance(cb, ast.Call) and call_name(cb)[0] == "partial" and \
            len(cb.args) >= 2:
        a1_ = resolve_tmp(fl0, cb.args[1], n0)
        if isinstance(a1_, ast.Subscript) and \
                isinstance(a1_.slice, ast.Slice):
            sl = a1_
    rep.check(sl is not None and sl.slice.lower is not None and
              sl.slice.upper is not None, "C07-R1", inst,
              "each read command's callback is bound to its own slice of the "
              "result buffer", construct="read callback slice",
              node=call)
    cursors = []
    if sl is not None and sl.slice.lower is not None:
        cursors.append(sl.slice.lower)
    tile(rep, "C07-R1", inst, fn, it, call, a2, parse_expr(rem), cursors,
         upper=parse_expr("buffer_size"), consts=consts, what="SCP read")
    if sl is not None and sl.slice.lower is not None and \
            sl.slice.upper is not None:
        fl = Flow(fn, consts=consts)
        n = fl.cfg.node_containing(call)
        lo, hi = fl.sym(sl.slice.lower, n), fl.sym(sl.slice.upper, n)
        addr, ln = fl.sym(a1, n), fl.sym(a2, n)
        A0 = Poly.atom("address")
        rep.check(hi - lo == ln and addr - lo == A0, "C07-R1", inst,
                  "the result slice [%s:%s] has the command's length and its "
                  "offset is (command address - request address): replies "
                  "may complete in any order" % (unparse(sl.slice.lower),
                                                 unparse(sl.slice.upper)),
                  construct="read slice lo=%r hi=%r addr=%r len=%r" % (
                      lo, hi, addr, ln), node=sl,
                  fail="the result slice [%r:%r] does not match the command "
                       "(address %r, length %r)" % (lo, hi, addr, ln))
        # the first cursor starts at the request's address / offset 0
        ent = fl.cfg.loop_head[id(_loop_of(call, fn))]
        pre = [p for p in ent.pred if not fl.cfg.reaches(ent, p)]
        for p_ in pre:
            lo0 = fl.sym_after(sl.slice.lower, p_)
            rep.check(lo0 == Poly.const(0), "C07-R1", inst,
                      "the first chunk starts at offset 0",
                      construct="read initial offset %r" % (lo0,), node=fn)
    # callback writes the payload into the slice
    cbf = program.get(SCP + ":SCPConnection.read.callback")
    okc = False
    for n in ast.walk(cbf):
        if isinstance(n, ast.Assign) and isinstance(n.targets[0],
                                                    ast.Subscript):
            okc = chain(n.targets[0].value) == formals(cbf)[0]
    rep.check(okc, "C07-R1", qual(cbf), "the callback stores the reply "
              "payload into the slice it was bound to",
              construct="read callback store", node=cbf)
    return call, b


def r1_scp_write(program, folder, rep):
    fn = program.get(SCP + ":SCPConnection.write.packets")
    inst = qual(fn)
    consts = consts_for(folder, fn)
    ys = [n for n in ast.walk(fn) if isinstance(n, ast.Yield)]
    if len(ys) != 1 or not isinstance(ys[0].value, ast.Call):
        raise AnalysisError("SCPConnection.write.packets: yield shape")
    call = ys[0].value
    sc = program.get(SCP + ":scpcall.__new__")
    b = bind(call, sc, skip_self=True)
    a1, a2, data = b.get("arg1"), b.get("arg2"), b.get("data")
    if a1 is None or a2 is None or data is None:
        raise AnalysisError("write scpcall without arg1/arg2/data")
    fl = Flow(fn, consts=consts)
    n = fl.cfg.node_containing(call)
    # data sent is a slice  src[pos : pos + buffer]  and arg2 = len(data)
    dd = fl.reaching(chain(data), n)
    ok = False
    pos_e = None
    src = None
    if len(dd) == 1 and isinstance(dd[0].value, ast.Subscript) and \
            isinstance(dd[0].value.slice, ast.Slice) and \
            dd[0].value.slice.lower is not None and \
            dd[0].value.slice.upper is not None:
        s_ = dd[0].value
        src = chain(s_.value)
        pos_e = s_.slice.lower
        lo = fl.sym(s_.slice.lower, dd[0].node)
        hi = fl.sym(s_.slice.upper, dd[0].node)
        ok = hi - lo == Poly.atom("buffer_size") and \
            fl.sym(a2, n) == fl.sym(parse_expr("len(%s)" % chain(data)), n)
    rep.check(ok, "C07-R1", inst, "each write command carries "
              "data[pos:pos+buffer_size] and announces exactly its length",
              construct="write chunk slice", node=call)
    if not ok:
        return call, b
    # remaining = end - pos, with end = len(src)
    L = Poly.atom("len(%s)" % src)
    posn = chain(pos_e)
    P = Poly.atom(posn)
    it = Interp(fn, entry_cons=[le(1, Poly.atom("buffer_size"))],
                candidates=[le(P, L), le(0, P)], consts=consts)
    isite = it.cfg.node_containing(call)
    chunk = it.sym(a2, isite)
    Li = it.sym(parse_expr("len(%s)" % src), isite)
    Pi = it.sym(pos_e, isite)
    st = it.describe(isite)
    rep.check(it.holds_at(isite, [le(1, chunk), le(Pi + chunk, Li),
                                  le(0, Pi),
                                  le(chunk, Poly.atom("buffer_size"))]),
              "C07-R1", inst, "SCP write: 1 <= chunk <= buffer size and the "
              "chunk lies inside the data",
              construct="SCP write chunk within data", node=call,
              fail="SCP write: cannot show 1 <= %r <= buffer and pos + chunk "
                   "<= len; state: %s" % (chunk, st))
    loop = _loop_of(call, fn)
    head, backs = _backedge_preds(fl.cfg, loop)
    chunk_s = fl.sym(a2, n)
    for bnode in backs:
        for cexpr in (a1, pos_e):
            c_s = fl.sym(cexpr, n)
            c_after = fl.sym_after(cexpr, bnode)
            rep.check(c_after == c_s + chunk_s, "C07-R1", inst,
                      "SCP write: cursor %s advances by exactly the chunk "
                      "sent" % unparse(cexpr),
                      construct="SCP write cursor %s -> %r" % (
                          unparse(cexpr), c_after), node=loop,
                      fail="SCP write: after one iteration %s is %r, "
                           "expected %r" % (unparse(cexpr), c_after,
                                            c_s + chunk_s))
    ex = it.cfg.loop_exit[id(loop)]
    rep.check(it.holds_at(ex, eq(it.sym(pos_e, ex),
                                 it.sym(parse_expr("len(%s)" % src), ex))),
              "C07-R1", inst, "SCP write: the loop ends exactly at the end "
              "of the data", construct="SCP write exit at end", node=loop,
              fail="SCP write: cannot show pos == len(data) at loop exit; "
                   "state: %s" % it.describe(ex))
    pre = [p for p in head.pred if not fl.cfg.reaches(head, p)]
    for p_ in pre:
        rep.check(fl.sym_after(pos_e, p_) == Poly.const(0) and
                  fl.sym_after(a1, p_) == Poly.atom(chain(a1)), "C07-R1",
                  inst, "SCP write starts at position 0 / the request's "
                  "address", construct="SCP write initial cursors", node=fn)
    return call, b


def r1_links(program, folder, rep):
    for name, kind in (("read_across_link", "read"),
                       ("write_across_link", "write")):
        fn = program.get("%s:MachineController.%s" % (MC, name))
        inst = qual(fn)
        consts = consts_for(folder, fn)
        sends = calls_in(fn, "_send_scp")
        if len(sends) != 1:
            raise AnalysisError("%s: expected one _send_scp" % name)
        call = sends[0]
        kw = {k.arg: k.value for k in call.keywords}
        a1, a2 = kw.get("arg1"), kw.get("arg2")
        if a1 is None or a2 is None:
            raise AnalysisError("%s: arg1/arg2 not passed by keyword" % name)
        fl = Flow(fn, consts=consts)
        n = fl.cfg.node_containing(call)
        # remaining variable: the loop condition  R > 0
        loop = _loop_of(call, fn)
        if not isinstance(loop, ast.While) or not isinstance(
                loop.test, ast.Compare):
            raise AnalysisError("%s: loop shape" % name)
        # the number of bytes still to transfer, from the loop condition:
        # ``R > 0``  ->  R ;  ``done < total``  ->  total - done
        t_ = loop.test
        if len(t_.ops) != 1:
            raise AnalysisError("%s: loop shape" % name)
        l_, r_ = t_.left, t_.comparators[0]
        if isinstance(t_.ops[0], ast.Lt):
            l_, r_ = r_, l_
        elif not isinstance(t_.ops[0], ast.Gt):
            raise AnalysisError("%s: loop shape" % name)
        # now the condition reads  l_ > r_
        if isinstance(r_, ast.Constant) and r_.value == 0:
            rem_expr = l_
        else:
            rem_expr = parse_expr("%s - (%s)" % (unparse(l_), unparse(r_)))
        sdl = Poly.atom("self.scp_data_length")
        ent = [le(4, sdl)]
        # a byte count handed in is not negative; that also holds for a
        # local the count is copied into before the loop
        names_ = set(x.id for x in ast.walk(rem_expr)
                     if isinstance(x, ast.Name))
        for d_ in fl.defs:
            if d_.var in names_ and d_.mode == "assign" and \
                    d_.value is not None and \
                    not any(d_.node.ast is y for y in ast.walk(loop)):
                names_ |= set(x.id for x in ast.walk(d_.value)
                              if isinstance(x, ast.Name))
        for p_ in formals(fn):
            if p_ in names_ and p_ != "self":
                ent.append(le(0, Poly.atom(p_)))
        it0 = Interp(fn, entry_cons=ent, consts=consts,
                     pure_self_methods=("_send_scp",))
        hd = it0.cfg.loop_head[id(loop)]
        R = it0.sym(rem_expr, hd)
        it = Interp(fn, entry_cons=ent,
                    candidates=[le(0, R)], consts=consts,
                    pure_self_methods=("_send_scp",))
        rep.note("%s: _send_scp is treated as not changing "
                 "self.scp_data_length (it is a cached property)" % name)
        cursors = [a1]
        if kind == "write":
            # data = src[cur : cur + chunk]
            d = kw.get("data")
            dv_ = resolve_tmp(fl, d, n) if d is not None else None
            okd = False
            if isinstance(dv_, ast.Subscript) and \
                    isinstance(dv_.slice, ast.Slice) and \
                    dv_.slice.lower is not None and \
                    dv_.slice.upper is not None:
                s_ = dv_
                dn_ = fl.cfg.node_containing(s_) if s_ is not d and any(
                    x.ast is not None and any(y is s_ for y in ast.walk(
                        x.ast)) for x in fl.cfg.nodes) else n
                lo = fl.sym(s_.slice.lower, dn_)
                hi = fl.sym(s_.slice.upper, dn_)
                okd = hi - lo == fl.sym(a2, n) and \
                    chain(s_.value) == formals(fn)[2]
                cursors.append(s_.slice.lower)
            rep.check(okd, "C07-R1", inst, "each link write carries "
                      "data[cur:cur+chunk] for the chunk length it "
                      "announces", construct="link write slice", node=call)
        tile(rep, "C07-R1", inst, fn, it, call, a2, rem_expr,
             cursors, upper=parse_expr("self.scp_data_length"),
             consts=consts, what="link " + kind)
        if kind == "read":
            # result window: mem[:chunk] = response.data ; mem = mem[chunk:]
            okw = False
            tgt = None
            for s_ in ast.walk(loop):
                if isinstance(s_, ast.Assign) and isinstance(
                        s_.targets[0], ast.Subscript) and isinstance(
                        s_.targets[0].slice, ast.Slice):
                    t = s_.targets[0]
                    if t.slice.lower is None and t.slice.upper is not None:
                        tgt = (chain(t.value), t.slice.upper, s_)
            if tgt:
                for s_ in ast.walk(loop):
                    if isinstance(s_, ast.Assign) and chain(
                            s_.targets[0]) == tgt[0] and isinstance(
                            s_.value, ast.Subscript) and isinstance(
                            s_.value.slice, ast.Slice):
                        v = s_.value
                        n1 = fl.cfg.node_of(tgt[2])
                        n2 = fl.cfg.node_of(s_)
                        okw = chain(v.value) == tgt[0] and \
                            v.slice.upper is None and \
                            v.slice.lower is not None and \
                            fl.sym(v.slice.lower, n2) == fl.sym(tgt[1], n1) \
                            == fl.sym(a2, n) and fl.cfg.dominates(n1, n2)
            if not okw:
                # or: the reply is stored at result[cur:cur + chunk] with a
                # position that advances by the chunk
                head_, backs_ = _backedge_preds(fl.cfg, loop)
                for s_ in ast.walk(loop):
                    if isinstance(s_, ast.Assign) and isinstance(
                            s_.targets[0], ast.Subscript) and isinstance(
                            s_.targets[0].slice, ast.Slice):
                        t = s_.targets[0]
                        if t.slice.lower is None or t.slice.upper is None:
                            continue
                        n1 = fl.cfg.node_of(s_)
                        lo = fl.sym(t.slice.lower, n1)
                        hi = fl.sym(t.slice.upper, n1)
                        okw = hi - lo == fl.sym(a2, n) and bool(backs_) and \
                            all(fl.sym_after(t.slice.lower, b_) == lo +
                                fl.sym(a2, n) for b_ in backs_)
                        pre = [p_ for p_ in head_.pred
                               if not fl.cfg.reaches(head_, p_)]
                        okw = okw and all(fl.sym_after(t.slice.lower, p_) ==
                                          Poly.const(0) for p_ in pre)
            rep.check(okw, "C07-R1", inst, "each reply fills the next chunk-"
                      "sized window of the result, which then advances by "
                      "that chunk", construct="link read window", node=loop)
        # every link command is word aligned and a whole number of words
        dv = Divis(fn, 4)
        dnode = dv.cfg.node_containing(call)
        rep.check(dv.holds(a1, dnode) and dv.holds(a2, dnode), "C07-R1",
                  inst, "every link %s command's address and length are "
                  "multiples of 4 (must-analysis 'multiple of 4' through "
                  "the loop: guards, x & ~3, min, += / -=)" % kind,
                  construct="link %s word alignment" % kind, node=call,
                  fail="a link %s command can be issued with an address or "
                       "length that is not a multiple of 4 (known multiples "
                       "of 4 at the command: %s)" % (kind, sorted(
                           dv.state_in.get(dnode.id) or [])))
        # word guards
        rs = [r for r in raises_of(fn) if raise_name(r) == "ValueError"]
        guards = set()
        for r in rs:
            for cond, pol, a in fl.facts(fl.cfg.node_of(r)):
                # a non-zero residue modulo 4 (x % 4, x & 3, ... != 0)
                if isinstance(cond, ast.Compare) and len(cond.ops) == 1 \
                        and isinstance(cond.ops[0], (ast.NotEq, ast.Eq)) \
                        and pol == isinstance(cond.ops[0], ast.NotEq):
                    sides = [cond.left, cond.comparators[0]]
                    zero = [x for x in sides
                            if isinstance(x, ast.Constant) and x.value == 0]
                    rest = [x for x in sides if x not in zero]
                    if len(zero) == 1 and len(rest) == 1:
                        cond, pol = rest[0], True
                res_ = dv.residue_of(cond) if pol else None
                if res_ is not None:
                    guards.add("%s %% 4" % unparse(res_))
        ps = formals(fn)
        want = {"%s %% 4" % ps[1]}
        want.add("%s %% 4" % ps[2] if kind == "read" else
                 "len(%s) %% 4" % ps[2])
        rep.check(want <= guards, "C07-R1", inst, "unaligned address or "
                  "length is rejected with ValueError before anything is "
                  "sent", construct="link %s word guards %s" % (
                      kind, sorted(guards)), node=fn)


def r2_dtype(program, folder, rep, sites):
    table = folder.name(CONSTS, "address_length_dtype")
    inst = CONSTS + ":address_length_dtype"
    for a in range(4):
        for n in range(4):
            v = table.get((a, n))
            want = "word" if (a == 0 and n == 0) else \
                "short" if (a % 2 == 0 and n % 2 == 0) else "byte"
            rep.check(isinstance(v, EnumMember) and v.name == want,
                      "C07-R2", inst, "(address %% 4, length %% 4) = (%d, "
                      "%d) -> %s" % (a, n, want),
                      construct="dtype (%d,%d) = %r" % (a, n, v),
                      fail="address_length_dtype[(%d, %d)] is %r; an access "
                           "with that alignment must use %s" % (a, n, v,
                                                                 want))
    rep.check(len(table) == 16, "C07-R2", inst, "the table has exactly the "
              "16 residue pairs", construct="dtype table size %d" %
              len(table))
    dt = folder.name(CONSTS, "DataType")
    vals = {m.name: m.value for m in dt}
    rep.check(vals.get("byte") == 0 and vals.get("short") == 1 and
              vals.get("word") == 2, "C07-R2", CONSTS + ":DataType",
              "DataType byte/short/word = 0/1/2 (SC&MP access type codes)",
              construct="DataType %s" % sorted(vals.items()))
    symmetric = all(table.get((a, n)) == table.get((n, a))
                    for a in range(4) for n in range(4))
    for fn, call, b in sites:
        if fn is None or call is None:
            rep.undecided(["C07-R2"], "the packets of a block transfer are "
                          "no longer built by a nested generator: the "
                          "per-command access type is not analysed in that "
                          "form")
            continue
        fl = Flow(fn)
        node = fl.cfg.node_containing(call)
        inst = qual(fn)
        a3 = b.get("arg3")
        ok = False
        detail = ""
        if a3 is not None:
            e = a3
            if chain(a3) is not None:
                ds = fl.reaching(chain(a3), node)
                if len(ds) == 1 and ds[0].mode == "assign":
                    e = ds[0].value
                    enode = ds[0].node
                else:
                    enode = node
            else:
                enode = node
            key_ = resolve_tmp(fl, e.slice, enode) if isinstance(
                e, ast.Subscript) else None
            if isinstance(e, ast.Subscript) and chain(e.value) == \
                    "consts.address_length_dtype" and \
                    isinstance(key_, ast.Tuple) and \
                    len(key_.elts) == 2:
                k0 = fl.sym(key_.elts[0], enode)
                k1 = fl.sym(key_.elts[1], enode)
                A = fl.sym(b["arg1"], node)
                N = fl.sym(b["arg2"], node)
                wa, wn = fl.mod(A, Poly.const(4)), fl.mod(N, Poly.const(4))
                ok = (k0 == wa and k1 == wn) or (symmetric and k0 == wn and
                                                 k1 == wa)
                detail = "(%r, %r)" % (k0, k1)
                if not ok:
                    # a key worked out from quantities that the command's
                    # own address and length are not made of (alignments
                    # carried along separately, ...): whether they agree is
                    # not decided here
                    import re as _re

                    def names_(*ps_):
                        out = set()
                        for p_ in ps_:
                            out |= set(_re.findall(
                                r"[A-Za-z_][A-Za-z_0-9.]*", repr(p_)))
                        return out - {"mod", "fdiv", "len", "slice", "min",
                                      "max"}
                    other = names_(k0, k1) - names_(A, N)
                    if other:
                        rep.undecided(
                            ["C07-R2"], "%s: the access type is looked up "
                            "with a key computed from %s, which the "
                            "command's own address and length are not made "
                            "of; not analysed" % (inst, ", ".join(sorted(
                                other))))
                        continue
        if not ok and not detail and a3 is not None:
            # not a look-up in the table at all
            fixed = isinstance(e, ast.Attribute) and (chain(e) or "").startswith(
                "consts.DataType.") and e is not a3 or isinstance(
                    a3, ast.Attribute) and (chain(a3) or "").startswith(
                        "consts.DataType.")
            if not fixed and not isinstance(e, ast.Constant):
                rep.undecided(["C07-R2"], "%s: the access type of a command "
                              "is not looked up in consts.address_length_"
                              "dtype but computed some other way, which is "
                              "not analysed" % inst)
                continue
        rep.check(ok, "C07-R2", inst, "the access type is looked up with "
                  "(A % 4, N % 4) of the very address A and length N sent "
                  "in this command", construct="dtype key %s" % detail,
                  node=call,
                  fail="the access type is chosen from %s, which is not "
                       "(address %% 4, length %% 4) of this command's own "
                       "address and length: later chunks may use word/short "
                       "accesses at unaligned addresses" % detail)
    rep.floor("C07-R2", 20)


def r3_payload(program, folder, rep):
    fn = program.get(SCP + ":SCPConnection.read.callback")
    outer_fn = program.get(SCP + ":SCPConnection.read")
    env = folder.module_env(SCP)
    OT = Terms(outer_fn)
    dn = [n for n in OT.cfg.nodes if n.kind == "stmt" and n.ast is fn]
    T = Terms(fn, outer=(OT, dn[0] if dn else OT.cfg.exit))
    ok = False
    got = None
    import struct
    for n_, st, base, key, val in stores(T):
        if val[0] == "item" and val[2][0] == "slice" and \
                val[2][2] == ("const", None) and \
                val[1] == ("param", formals(fn)[1]):
            try:
                got = folder.eval(reify(plain(val[2][1])), env, fn._module)
            except AnalysisError:
                got = None
            ok = got == struct.calcsize("<2x8B") + struct.calcsize("<2H")
    rep.check(ok, "C07-R3", qual(fn), "the read payload starts after the "
              "SDP header (10 bytes) and cmd_rc/seq (4 bytes): offset 14 (no "
              "arguments are returned by a read)",
              construct="read payload offset %r" % (got,), node=fn)
    # read commands request no decoded arguments: send_scp_burst passes the
    # raw datagram to callbacks (checked in C06-R3)


def r4_addresses(program, folder, rep):
    SELF = ("param", "self")
    SB = ("attr", ("global", "six"), "b")

    def sixb(t):
        return ("callv", SB, (t,), ())
    fn = program.get(MC + ":MachineController._get_struct_field_and_address")
    T = Terms(fn)
    ps = formals(fn)
    rets = [plain(T.term(r.value)) for r in returns_of(fn)
            if r.value is not None]
    STRUCT = ("item", ("attr", SELF, "structs"),
              ("call", SB, (("param", ps[1]),), ()))
    FIELD = ("item", STRUCT, ("call", SB, (("param", ps[2]),), ()))
    ok = len(rets) == 1 and rets[0][0] == "tuple" and len(rets[0]) == 4 and \
        rets[0][1] == FIELD and rets[0][2] in (
            ("binop", "Add", ("attr", STRUCT, "base"),
             ("attr", FIELD, "offset")),
            ("binop", "Add", ("attr", FIELD, "offset"),
             ("attr", STRUCT, "base")))
    rep.check(ok, "C07-R4", qual(fn), "struct field address = "
              "base of the named struct + offset of the named field",
              construct="struct field address", node=fn)
    fn = program.get(MC + ":MachineController._get_vcpu_field_and_address")
    T = Terms(fn)
    fl = Flow(fn)
    ps = formals(fn)
    rets = [T.term(r.value) for r in returns_of(fn) if r.value is not None]
    ok = False
    kept = []
    reported_kept = False
    if len(rets) == 1 and rets[0][0] == "tuple" and len(rets[0]) == 4:
        e = reify(plain(rets[0][2]))
        for n_ in ast.walk(e):
            for c_ in ast.iter_child_nodes(n_):
                c_._parent = n_
        ast.fix_missing_locations(e)
        val = fl.sym(e, fl.cfg.entry)
        P = ps[4]
        terms = dict(val.t)
        size_p = [m for m in terms if len(m) == 2 and P in m]
        rest = [m for m in terms if len(m) == 1]
        ok = len(size_p) == 1 and terms[size_p[0]] == 1 and \
            any("size" in a_ for a_ in size_p[0]) and len(rest) == 2 and \
            all(terms[m] == 1 for m in rest) and \
            any("offset" in m[0] for m in rest) and \
            any("read_struct_field" in m[0] or "call:" in m[0]
                for m in rest) and () not in terms
        base = [st for st in subterms(plain(rets[0][2]))
                if st[0] == "call" and st[1] == ("attr", SELF,
                                                 "read_struct_field")]
        ok = ok and len(base) == 1 and base[0][2][:2] == (
            ("const", "sv"), ("const", "vcpu_base")) and \
            list(base[0][2][2:4]) == [("param", ps[2]), ("param", ps[3])]
        # ... computed from what the chip says now: nothing kept on the
        # controller from an earlier call (another chip, another core, a
        # machine booted since) enters the address
        kept = sorted(set(
            st[2] for st in subterms(plain(rets[0][2]))
            if st[0] == "attr" and st[1] == SELF and
            st[2] not in ("structs", "read_struct_field")))
        if kept:
            ok = False
            reported_kept = True
            rep.bad("C07-R4", qual(fn), "address from kept state %s" % kept,
                    "the per-core field address is computed from self.%s, a "
                    "value kept on the controller between calls, not only "
                    "from the chip and core asked about: a later call for "
                    "another chip or core (or after a re-boot) reads and "
                    "writes the wrong block" % ", self.".join(kept), fn)
    rep.check(ok or reported_kept, "C07-R4", qual(fn),
              "per-core field address = vcpu_base + "
              "vcpu.size * p + field.offset",
              construct="vcpu field address", node=fn)
    # fill
    fn = program.get(MC + ":MachineController.fill")
    T = Terms(fn)
    ps = formals(fn)
    ADDR, DATA, SIZE = [("param", p_) for p_ in ps[1:4]]
    a4 = mk_cmp("Eq", ("binop", "Mod", ADDR, ("const", 4)), ("const", 0))
    s4 = mk_cmp("Eq", ("binop", "Mod", SIZE, ("const", 4)), ("const", 0))
    a4t = ("binop", "Mod", ADDR, ("const", 4))
    s4t = ("binop", "Mod", SIZE, ("const", 4))

    def aligned(facts):
        fs = set(facts)
        return ((a4, True) in fs or (a4t, False) in fs) and \
            ((s4, True) in fs or (s4t, False) in fs)
    fills = [c for c in calls_in(fn, "_send_scp")]
    ok = len(fills) == 1 and aligned(T.all_facts(
        T.cfg.node_containing(fills[0])))
    rep.check(ok, "C07-R4", qual(fn), "the word-fill "
              "command is used only when both size and address are multiples "
              "of 4", construct="fill alignment branch", node=fn)
    okb = False
    for sub in [fn] + [x for x in ast.walk(fn)
                       if isinstance(x, ast.FunctionDef) and x is not fn]:
        for view in ([T] if sub is fn else T.inners(sub)):
            for c in ast.walk(sub):
                if isinstance(c, ast.Call) and \
                        isinstance(c.func, ast.Attribute) and \
                        c.func.attr == "write" and len(c.args) >= 2:
                    n_ = view.cfg.node_containing(c)
                    if view.term(c.func.value, n_) != SELF:
                        continue
                    v = plain(view.term(c.args[1], n_))
                    okb = v[0] == "binop" and v[1] == "Mult" and \
                        SIZE in (v[2], v[3]) and any(
                            x[0] == "call" and x[1] == (
                                "attr", ("global", "struct"), "pack") and
                            x[2] == (("const", "<B"), DATA)
                            for x in (v[2], v[3])) and \
                        view.term(c.args[0], n_) == ADDR
    rep.check(okb, "C07-R4", qual(fn), "otherwise an explicit string of "
              "exactly `size` bytes is written at the address",
              construct="fill byte fallback", node=fn)


def r5_roles(program, rep):
    cls = MC + ":MachineController"
    targets = ["read", "write", "read_struct_field", "write_struct_field",
               "read_vcpu_struct_field", "write_vcpu_struct_field",
               "_get_vcpu_field_and_address", "fill", "read_across_link",
               "write_across_link", "_send_scp"]
    exempt = {
        ("MachineController.read_struct_field", "p"): "core 0 holds sv",
        ("MachineController.read", "p"): "per-core block is read via core 0",
        ("MachineController.write", "p"): "per-core block is written via "
                                          "core 0",
    }
    n = 0
    for t in targets:
        fn = program.get("%s.%s" % (cls, t))
        rf = RoleFlow(fn)
        for call in ast.walk(fn):
            if not isinstance(call, ast.Call):
                continue
            nm, rc = call_name(call)
            if rc is None or chain(rc) != "self":
                continue
            q = "%s.%s" % (cls, nm)
            if not program.has(q):
                continue
            callee = program.get(q)
            if not isinstance(callee, ast.FunctionDef):
                continue
            n += check_call(rep, "C07-R5", qual(fn), rf, call, callee,
                            allowed_consts={"p": (0,)},
                            exempt_omit=exempt)
        # the connection-level call
        for call in calls_in(fn, ("read", "write", "send_scp")):
            nm, rc = call_name(call)
            if chain(rc) != "connection":
                continue
            callee = program.get(SCP + ":SCPConnection.%s" % nm)
            n += check_call(rep, "C07-R5", qual(fn), rf, call, callee)
            b = bind(call, callee)
            if nm in ("read", "write"):
                want = {"buffer_size": "self.scp_data_length",
                        "window_size": "self.scp_window_size",
                        "address": formals(fn)[1],
                        ("length_bytes" if nm == "read" else "data"):
                            formals(fn)[2]}
                ok = all(f in b and unparse(b[f]) == v
                         for f, v in want.items())
                rep.check(ok, "C07-R5", qual(fn), "connection.%s receives "
                          "(scp_data_length, scp_window_size, x, y, p, "
                          "address, %s)" % (nm, "length" if nm == "read"
                                            else "data"),
                          construct="connection.%s argument order" % nm,
                          node=call)
    rep.floor("C07-R5", 30)


def r1_buffer(program, rep):
    """The block size handed to the connection by MachineController.read /
    write is the size the machine itself advertises (the scp_data_length
    property, which asks the machine when it is not yet known) - not a
    cached-or-default guess."""
    SELF = ("param", "self")
    for name in ("read", "write"):
        fn = program.get(MC + ":MachineController." + name)
        T = Terms(fn)
        cs = [c for c in ast.walk(fn) if isinstance(c, ast.Call) and
              isinstance(c.func, ast.Attribute) and c.func.attr == name and
              chain(c.func.value) not in (None, "self")]
        cs = [c for c in cs if len(c.args) >= 2]
        if len(cs) != 1:
            raise AnalysisError("MachineController.%s: the call of the "
                                "connection's %s was not found" % (name,
                                                                    name))
        n = T.cfg.node_containing(cs[0])
        size = plain(T.term(cs[0].args[0], n))
        if size[0] == "call" and size[1][0] == "local" and \
                size[1][1] in T._nested:
            # a helper with several returns: every one of them
            h = T._nested[size[1][1]]
            outs = set()
            for view in T.inners(h):
                for r in ast.walk(h):
                    if isinstance(r, ast.Return) and r.value is not None:
                        outs.add(plain(view.term(r.value,
                                                 view.cfg.node_of(r))))
            if len(outs) == 1:
                size = list(outs)[0]
            elif outs:
                size = ("phi",) + tuple(sorted(outs, key=repr))
        rep.check(size == ("attr", SELF, "scp_data_length"), "C07-R1",
                  qual(fn), "blocks are sized by self.scp_data_length (the "
                  "buffer size reported by the machine)",
                  construct="%s block size" % name, node=cs[0],
                  fail="the block size handed to the connection is %s, not "
                       "self.scp_data_length: before the machine's buffer "
                       "size has been discovered, commands longer than the "
                       "machine accepts are sent" % show(size)[:80])


r1_buffer.helper_aware = True


def check(program, rep):
    program.module(SCP)
    program.module(MC)
    folder = Folder(program)
    rfn = wfn = None
    if program.has(SCP + ":SCPConnection.read.packets"):
        rfn = program.get(SCP + ":SCPConnection.read.packets")
    if program.has(SCP + ":SCPConnection.write.packets"):
        wfn = program.get(SCP + ":SCPConnection.write.packets")
    c1, b1 = rep.guard("C07-R1", r1_scp_read, program, folder, rep) or (
        None, None)
    c2, b2 = rep.guard("C07-R1", r1_scp_write, program, folder, rep) or (
        None, None)
    rep.guard("C07-R1", r1_links, program, folder, rep)
    rep.guard("C07-R1", r1_buffer, program, rep)
    rep.guard("C07-R2", r2_dtype, program, folder, rep, [(rfn, c1, b1), (wfn, c2, b2)])
    rep.guard("C07-R3", r3_payload, program, folder, rep)
    rep.guard("C07-R4", r4_addresses, program, folder, rep)
    rep.guard("C07-R5", r5_roles, program, rep)
    # a reply is matched to its command by the per-connection sequence
    # number (a late or duplicated reply of an earlier burst must not answer
    # a later command): C06's rule, needed for "also when replies are lost,
    # duplicated or reordered"
    from . import C06

    def seq_rule(program, rep, folder):
        B = C06._Burst(program)
        C06.r2_fresh(program, rep, B, folder)
    rep.guard("C06-R2", seq_rule, program, rep, folder)

    # ... and every reply is handed to the callback of its own command,
    # exactly once (C06-R3): the callbacks are what store the data read
    def once_rule(program, rep):
        B = C06._Burst(program)
        C06.r3_once(program, rep, B)
    rep.guard("C06-R3", once_rule, program, rep)
    rep.guard("C06-R3", C06.r3_closures, program, rep)
    # ... and every command names the chip and core it is meant for in the
    # documented header bytes, at their full width (C15-R1: the core number
    # of a read or write needs all five bits of its field)

    def wire_rule(program, rep):
        from . import C15
        C15.r1_encoder(program, folder, rep)
    rep.guard("C15-R1", wire_rule, program, rep)
    rep.floor("C07-R1", 25)
    # arguments handed to package functions under the wrong name / same-
    # named optional parameters not passed on (NAMELINK, DESIGN.md 9.13)
    from .. import namelink as _nl
    rep.guard("C07-R6", _nl.rule, program, rep, "C07-R6",
              [m for m in sorted(program.modules) if m.startswith("rig.machine_control")])
    # every command of this operation travels under a sequence number: the
    # numbers fit the 16-bit wire field and use all of it (C06-R2)
    from . import C06 as _C06
    rep.guard("C06-R2", _C06.r2_seq_numbers, program, rep, folder)
    # fields of the system structs are read / written / packed through
    # sark.struct: no field of it runs into its neighbour (C14-R6)
    from . import C14 as _C14
    rep.guard("C14-R6", _C14.r_struct_no_overlap, program, rep, "C14-R6")
    return finish(rep, program, EXPLANATION, NOT_DECIDED,
                  trusted=["slice-length and floor-division axioms of the "
                           "LININV engine", "role table in roles.py"])
